import json,sys
props=[json.loads(l) for l in open('/verif/properties.jsonl')]
checks_meta=json.load(open('/verif/manifest_src.json'))
claimed=checks_meta['checks']
checks=[]
na=[]
for p in props:
    i=p['id']
    if i in claimed:
        c=claimed[i]
        checks.append({
          "property_id": i,
          "quick_cmd": f"./check {i} quick",
          "thorough_cmd": f"./check {i} thorough",
          "evidence_file": f"/verif/evidence/{i}.json",
          "replay_cmd_template": "./check --replay {path}",
          "engine": c["engine"],
          "level_claimed": {"category": c.get("category","model_checking"), "text": c["text"], "design_ref": c["design_ref"]},
          "level_note": c["note"],
          "technique": c["technique"],
        })
    else:
        na.append({"property_id": i, "reason": checks_meta['not_applicable'].get(i, "check not built yet in this round; planned with the TLA+ specification described in DESIGN.md section 4/"+i)})
m={
 "version":1,
 "setup_cmd": "./setup.sh",
 "hooks": {"guard":"verif","enable":"go build -tags verif (./check builds the harness and the taskctl binary from /repo's working tree with -tags verif)",
           "baseline_off_cmd": "cd /repo && GOFLAGS=-mod=mod GOPROXY=off go test -json -vet=off -count=1 -timeout 25m ./...",
           "source_commits": checks_meta['hook_commits'], "add_only": True},
 "engines": checks_meta['engines'],
 "checks": checks,
 "notes": checks_meta['notes'],
 "not_applicable": na,
}
json.dump(m,open('/verif/MANIFEST.json','w'),indent=1)
print(len(checks),'checks',len(na),'n/a')
