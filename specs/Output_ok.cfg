CONSTANTS
  N = 3
  AtomicStore = TRUE
SPECIFICATION Spec
INVARIANT DependantSees
CHECK_DEADLOCK FALSE
