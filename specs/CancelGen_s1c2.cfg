CONSTANTS
  NR = 1
  NC = 2
  NCmd = 2
  Hooks = TRUE
  Fixed = TRUE
  UseSched = TRUE
  CondErr = FALSE
  Holds = {"waiting","before","cmd1","gate2","cmd2","after","done"}
SPECIFICATION GSpec
INVARIANTS NoPanic NoStartAfterCancel InterruptedReportsError Emit
PROPERTIES Finishes
CHECK_DEADLOCK FALSE
