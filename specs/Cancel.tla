---------------------------- MODULE Cancel ----------------------------
(* C12 (and the cancelled case of C03): TaskRunner.Run / TaskRunner.Cancel and the way *)
(* Scheduler.Schedule uses them.                                                       *)
(*   pkg/runner/runner.go   Run: entry hand-shake, before hooks, commands, after hooks, *)
(*                          deferred exit hand-shake;  Cancel: flag + cancelFunc, wait  *)
(*   pkg/executor/executor.go  a command starts only under a live context; a running    *)
(*                          command is interrupted when the context is cancelled       *)
(*   pkg/scheduler/scheduler.go  loop launches stages, calls Cancel itself when a      *)
(*                          stage condition cannot be evaluated, exits when cancelled, *)
(*                          waits for the launched stages                              *)
(* One action per critical section.  Fixed = TRUE is the hand-shake of the current     *)
(* tree (runs in flight counted under the mutex, Cancel waits on a condition variable  *)
(* for zero); Fixed = FALSE transcribes the pinned one (every exiting Run closes doneCh *)
(* while canceling; Cancel receives from it) and is kept as a negative control.        *)
EXTENDS Naturals, FiniteSets, Sequences, TLC

CONSTANTS NR,        \* tasks handed to Run
          NC,        \* Cancel calls (the last one is the scheduling loop's own when CondErr)
          NCmd,      \* commands per task
          Hooks,     \* tasks have one before and one after hook
          Fixed,
          UseSched,  \* runs are launched by a scheduling loop; Cancel = Scheduler.Cancel
          CondErr    \* the loop itself calls Cancel (stage condition error)
Runs == 1..NR
Cans == 1..NC
LoopCan == IF CondErr THEN NC ELSE 0

VARIABLES rpc, cmd, cpc, ctxCancelled, canceling, chClosed, inflight, panicked,
          rerr, ncompleted, cmdAfter, spc, schedCancelled
vars == <<rpc, cmd, cpc, ctxCancelled, canceling, chClosed, inflight, panicked,
          rerr, ncompleted, cmdAfter, spc, schedCancelled>>

Init == /\ rpc = [i \in Runs |-> "idle"] /\ cmd = [i \in Runs |-> 1]
        /\ cpc = [j \in Cans |-> "idle"]
        /\ ctxCancelled = FALSE /\ canceling = FALSE /\ chClosed = FALSE /\ inflight = 0
        /\ panicked = FALSE /\ rerr = [i \in Runs |-> "none"] /\ ncompleted = [i \in Runs |-> 0]
        /\ cmdAfter = FALSE
        /\ spc = (IF UseSched THEN "loop" ELSE "off") /\ schedCancelled = FALSE

AnyCancelReturned == \E j \in Cans : cpc[j] = "ret"
LoopBlocked == LoopCan # 0 /\ cpc[LoopCan] \in {"c1", "wait"}
Go(i, p) == rpc' = [rpc EXCEPT ![i] = p]
Fail(i) == rerr' = [rerr EXCEPT ![i] = "ctx"]
Keep(S) == UNCHANGED S

\* Run is called: by anybody, or (UseSched) by a stage goroutine launched by the loop
RunCall(i) == /\ ~panicked /\ rpc[i] = "idle"
              /\ UseSched => (spc = "loop" /\ ~LoopBlocked)
              /\ Go(i, "entry")
              /\ Keep(<<cmd, cpc, ctxCancelled, canceling, chClosed, inflight, panicked, rerr, ncompleted, cmdAfter, spc, schedCancelled>>)

\* runner.go Run entry: ctx check (Fixed: under the mutex, registering the run as in flight)
RunEntry(i) == /\ ~panicked /\ rpc[i] = "entry"
               /\ IF ctxCancelled
                    THEN Go(i, IF Fixed THEN "done" ELSE "defer") /\ Fail(i) /\ UNCHANGED inflight
                    ELSE Go(i, IF Hooks THEN "before" ELSE "cmd") /\ inflight' = (IF Fixed THEN inflight + 1 ELSE inflight) /\ UNCHANGED rerr
               /\ Keep(<<cmd, cpc, ctxCancelled, canceling, chClosed, panicked, ncompleted, cmdAfter, spc, schedCancelled>>)

\* a before hook starts (runner.go before(): executor.Execute under r.ctx)
BeforeStart(i) == /\ ~panicked /\ rpc[i] = "before"
                  /\ IF ctxCancelled THEN Go(i, "defer") /\ Fail(i) /\ UNCHANGED cmdAfter
                     ELSE Go(i, "beforeRun") /\ cmdAfter' = (cmdAfter \/ AnyCancelReturned) /\ UNCHANGED rerr
                  /\ Keep(<<cmd, cpc, ctxCancelled, canceling, chClosed, inflight, panicked, ncompleted, spc, schedCancelled>>)
BeforeEnd(i) == /\ ~panicked /\ rpc[i] = "beforeRun"
                /\ \/ Go(i, "cmd") /\ UNCHANGED rerr
                   \/ ctxCancelled /\ Go(i, "defer") /\ Fail(i)
                /\ Keep(<<cmd, cpc, ctxCancelled, canceling, chClosed, inflight, panicked, ncompleted, cmdAfter, spc, schedCancelled>>)

\* a command starts (executor.Execute): the interpreter refuses under a cancelled context
CmdStart(i) == /\ ~panicked /\ rpc[i] = "cmd"
               /\ IF ctxCancelled THEN Go(i, "defer") /\ Fail(i) /\ UNCHANGED cmdAfter
                  ELSE Go(i, "running") /\ cmdAfter' = (cmdAfter \/ AnyCancelReturned) /\ UNCHANGED rerr
               /\ Keep(<<cmd, cpc, ctxCancelled, canceling, chClosed, inflight, panicked, ncompleted, spc, schedCancelled>>)
\* it ends by itself, or is interrupted once the context is cancelled
CmdEnd(i) == /\ ~panicked /\ rpc[i] = "running"
             /\ \/ /\ ncompleted' = [ncompleted EXCEPT ![i] = @ + 1]
                   /\ IF cmd[i] < NCmd THEN Go(i, "cmd") /\ cmd' = [cmd EXCEPT ![i] = @ + 1] /\ UNCHANGED rerr
                      ELSE Go(i, IF Hooks THEN "after" ELSE "defer") /\ rerr' = [rerr EXCEPT ![i] = "ok"] /\ UNCHANGED cmd
                \/ ctxCancelled /\ Go(i, "defer") /\ Fail(i) /\ UNCHANGED <<ncompleted, cmd>>
             /\ Keep(<<cpc, ctxCancelled, canceling, chClosed, inflight, panicked, cmdAfter, spc, schedCancelled>>)

\* after hooks: failures (also "context canceled") are only logged; the task's result stands
AfterStart(i) == /\ ~panicked /\ rpc[i] = "after"
                 /\ IF ctxCancelled THEN Go(i, "defer") /\ UNCHANGED cmdAfter
                    ELSE Go(i, "afterRun") /\ cmdAfter' = (cmdAfter \/ AnyCancelReturned)
                 /\ Keep(<<cmd, cpc, ctxCancelled, canceling, chClosed, inflight, panicked, rerr, ncompleted, spc, schedCancelled>>)
AfterEnd(i) == /\ ~panicked /\ rpc[i] = "afterRun" /\ Go(i, "defer")
               /\ Keep(<<cmd, cpc, ctxCancelled, canceling, chClosed, inflight, panicked, rerr, ncompleted, cmdAfter, spc, schedCancelled>>)

\* the deferred exit hand-shake
RunDefer(i) == /\ ~panicked /\ rpc[i] = "defer"
               /\ IF Fixed THEN inflight' = inflight - 1 /\ UNCHANGED <<chClosed, panicked>>
                  ELSE /\ UNCHANGED inflight
                       /\ IF canceling THEN IF chClosed THEN panicked' = TRUE /\ UNCHANGED chClosed
                                                       ELSE chClosed' = TRUE /\ UNCHANGED panicked
                                      ELSE UNCHANGED <<chClosed, panicked>>
               /\ Go(i, "done")
               /\ Keep(<<cmd, cpc, ctxCancelled, canceling, rerr, ncompleted, cmdAfter, spc, schedCancelled>>)

\* Cancel is called from outside (Scheduler.Cancel sets its own flag first)
CancelCall(j) == /\ ~panicked /\ cpc[j] = "idle" /\ j # LoopCan
                 /\ cpc' = [cpc EXCEPT ![j] = "c1"]
                 /\ schedCancelled' = (schedCancelled \/ UseSched)
                 /\ Keep(<<rpc, cmd, ctxCancelled, canceling, chClosed, inflight, panicked, rerr, ncompleted, cmdAfter, spc>>)
\* the scheduling loop calls Cancel itself (scheduler.go: condition error)
LoopCancelCall == /\ ~panicked /\ LoopCan # 0 /\ cpc[LoopCan] = "idle" /\ spc = "loop"
                  /\ cpc' = [cpc EXCEPT ![LoopCan] = "c1"] /\ schedCancelled' = TRUE
                  /\ Keep(<<rpc, cmd, ctxCancelled, canceling, chClosed, inflight, panicked, rerr, ncompleted, cmdAfter, spc>>)
\* lock; set canceling and cancel the context; (then wait)
CancelSet(j) == /\ ~panicked /\ cpc[j] = "c1"
                /\ canceling' = TRUE /\ ctxCancelled' = TRUE
                /\ cpc' = [cpc EXCEPT ![j] = "wait"]
                /\ Keep(<<rpc, cmd, chClosed, inflight, panicked, rerr, ncompleted, cmdAfter, spc, schedCancelled>>)
CancelWait(j) == /\ ~panicked /\ cpc[j] = "wait"
                 /\ IF Fixed THEN inflight = 0 ELSE chClosed
                 /\ cpc' = [cpc EXCEPT ![j] = "ret"]
                 /\ Keep(<<rpc, cmd, ctxCancelled, canceling, chClosed, inflight, panicked, rerr, ncompleted, cmdAfter, spc, schedCancelled>>)

\* the loop notices its cancelled flag (or has nothing left to launch) and leaves; then wg.Wait
LoopExit == /\ ~panicked /\ spc = "loop" /\ ~LoopBlocked
            /\ schedCancelled \/ \A i \in Runs : rpc[i] # "idle"
            /\ spc' = "exited"
            /\ Keep(<<rpc, cmd, cpc, ctxCancelled, canceling, chClosed, inflight, panicked, rerr, ncompleted, cmdAfter, schedCancelled>>)
SchedReturn == /\ ~panicked /\ spc = "exited" /\ \A i \in Runs : rpc[i] \in {"idle", "done"}
               /\ spc' = "returned"
               /\ Keep(<<rpc, cmd, cpc, ctxCancelled, canceling, chClosed, inflight, panicked, rerr, ncompleted, cmdAfter, schedCancelled>>)

RunStep(i) == RunEntry(i) \/ BeforeStart(i) \/ BeforeEnd(i) \/ CmdStart(i) \/ CmdEnd(i) \/ AfterStart(i) \/ AfterEnd(i) \/ RunDefer(i)
Next == \/ \E i \in Runs : RunCall(i) \/ RunStep(i)
        \/ \E j \in Cans : CancelCall(j) \/ CancelSet(j) \/ CancelWait(j)
        \/ LoopCancelCall \/ LoopExit \/ SchedReturn

\* commands terminate (and under a cancelled context they are interrupted); every critical section is fair
Fair == /\ \A i \in Runs : WF_vars(RunEntry(i)) /\ WF_vars(BeforeStart(i)) /\ WF_vars(BeforeEnd(i)) /\ WF_vars(CmdStart(i))
                           /\ WF_vars(CmdEnd(i)) /\ WF_vars(AfterStart(i)) /\ WF_vars(AfterEnd(i)) /\ WF_vars(RunDefer(i))
        /\ \A j \in Cans : WF_vars(CancelSet(j)) /\ WF_vars(CancelWait(j))
        /\ WF_vars(LoopExit) /\ WF_vars(SchedReturn)
        /\ UseSched => \A i \in Runs : WF_vars(RunCall(i))     \* the loop launches every stage it may launch
Spec == Init /\ [][Next]_vars /\ Fair

----------------------------------------------------------------------
NoPanic == ~panicked
\* once a Cancel call has returned no command or hook is started any more
NoStartAfterCancel == ~cmdAfter
\* a task reports success only if every one of its commands ran to completion
InterruptedReportsError == \A i \in Runs : (rpc[i] = "done" /\ rerr[i] = "ok") => ncompleted[i] = NCmd
\* a run that was refused or interrupted reports the context error
DoneHasResult == \A i \in Runs : rpc[i] = "done" => rerr[i] \in {"ok", "ctx"}
\* when a Cancel has returned nothing is in flight (Fixed)
CancelReturnedMeansIdle == Fixed => \A j \in Cans : cpc[j] = "ret" =>
                              \A i \in Runs : rpc[i] \in {"idle", "entry", "done"}
CancelReturns == \A j \in Cans : (cpc[j] = "c1") ~> (cpc[j] = "ret")
ScheduleReturns == UseSched => <>(spc = "returned")
\* With Fixed = TRUE this module refines CancelFlat.tla (the runs in flight as a set, the phases of
\* a registered run as one state), whose safety theorem is proved with TLAPS for every number of
\* runs and Cancel calls; the counter the code keeps is the cardinality of that set.
ActiveStates == {"before", "beforeRun", "cmd", "running", "after", "afterRun"}
FlatRpc(i) == CASE rpc[i] \in {"idle", "entry", "defer"} -> rpc[i]
                [] rpc[i] \in ActiveStates -> "active"
                [] OTHER -> "done"
InFlight == {i \in Runs : rpc[i] \in ActiveStates \cup {"defer"}}
Flat == INSTANCE CancelFlat WITH rpc <- [i \in Runs |-> FlatRpc(i)], infl <- InFlight
FlatRefinement == Flat!Spec
InflightIsCount == Fixed => inflight = Cardinality(InFlight)
=======================================================================
