---------------------------- MODULE Cancel ----------------------------
EXTENDS Naturals, FiniteSets, TLC
CONSTANTS NR, NC, Fixed
Runs == 1..NR
Cans == 1..NC
VARIABLES rpc, cpc, ctxCancelled, canceling, chClosed, inflight, panicked, rerr, cmdAfter
vars == <<rpc, cpc, ctxCancelled, canceling, chClosed, inflight, panicked, rerr, cmdAfter>>

Init == /\ rpc = [i \in Runs |-> "idle"] /\ cpc = [j \in Cans |-> "idle"]
        /\ ctxCancelled = FALSE /\ canceling = FALSE /\ chClosed = FALSE /\ inflight = 0
        /\ panicked = FALSE /\ rerr = [i \in Runs |-> "none"] /\ cmdAfter = FALSE

AnyCancelReturned == \E j \in Cans : cpc[j] = "ret"

RunCall(i) == /\ ~panicked /\ rpc[i] = "idle" /\ rpc' = [rpc EXCEPT ![i] = "entry"]
              /\ UNCHANGED <<cpc, ctxCancelled, canceling, chClosed, inflight, panicked, rerr, cmdAfter>>
\* runner.go:103 ctx check (Fixed: under the mutex, registers in-flight)
RunEntry(i) == /\ ~panicked /\ rpc[i] = "entry"
               /\ IF ctxCancelled
                    THEN rpc' = [rpc EXCEPT ![i] = (IF Fixed THEN "done" ELSE "defer")] /\ rerr' = [rerr EXCEPT ![i] = "ctx"] /\ UNCHANGED inflight
                    ELSE rpc' = [rpc EXCEPT ![i] = "cmd"] /\ inflight' = (IF Fixed THEN inflight + 1 ELSE inflight) /\ UNCHANGED rerr
               /\ UNCHANGED <<cpc, ctxCancelled, canceling, chClosed, panicked, cmdAfter>>
\* a command starts (executor.Execute); interp refuses under a cancelled ctx
CmdStart(i) == /\ ~panicked /\ rpc[i] = "cmd"
               /\ IF ctxCancelled
                    THEN rpc' = [rpc EXCEPT ![i] = "defer"] /\ rerr' = [rerr EXCEPT ![i] = "ctx"] /\ UNCHANGED cmdAfter
                    ELSE rpc' = [rpc EXCEPT ![i] = "running"] /\ cmdAfter' = (cmdAfter \/ AnyCancelReturned) /\ UNCHANGED rerr
               /\ UNCHANGED <<cpc, ctxCancelled, canceling, chClosed, inflight, panicked>>
\* the command ends: normally, or interrupted when the ctx is cancelled
CmdEnd(i) == /\ ~panicked /\ rpc[i] = "running"
             /\ rerr' = [rerr EXCEPT ![i] = IF ctxCancelled THEN "ctx" ELSE "ok"]
             /\ rpc' = [rpc EXCEPT ![i] = "defer"]
             /\ UNCHANGED <<cpc, ctxCancelled, canceling, chClosed, inflight, panicked, cmdAfter>>
\* deferred hand-shake, runner.go:95-101
RunDefer(i) == /\ ~panicked /\ rpc[i] = "defer"
               /\ IF Fixed THEN inflight' = inflight - 1 /\ UNCHANGED <<chClosed, panicked>>
                  ELSE /\ UNCHANGED inflight
                       /\ IF canceling THEN IF chClosed THEN panicked' = TRUE /\ UNCHANGED chClosed
                                                       ELSE chClosed' = TRUE /\ UNCHANGED panicked
                                      ELSE UNCHANGED <<chClosed, panicked>>
               /\ rpc' = [rpc EXCEPT ![i] = "done"]
               /\ UNCHANGED <<cpc, ctxCancelled, canceling, rerr, cmdAfter>>
CancelCall(j) == /\ ~panicked /\ cpc[j] = "idle" /\ cpc' = [cpc EXCEPT ![j] = "c1"]
                 /\ UNCHANGED <<rpc, ctxCancelled, canceling, chClosed, inflight, panicked, rerr, cmdAfter>>
\* runner.go:184-190
CancelSet(j) == /\ ~panicked /\ cpc[j] = "c1"
                /\ canceling' = TRUE /\ ctxCancelled' = TRUE
                /\ cpc' = [cpc EXCEPT ![j] = "wait"]
                /\ UNCHANGED <<rpc, chClosed, inflight, panicked, rerr, cmdAfter>>
\* runner.go:191
CancelWait(j) == /\ ~panicked /\ cpc[j] = "wait"
                 /\ IF Fixed THEN inflight = 0 ELSE chClosed
                 /\ cpc' = [cpc EXCEPT ![j] = "ret"]
                 /\ UNCHANGED <<rpc, ctxCancelled, canceling, chClosed, inflight, panicked, rerr, cmdAfter>>
Next == \/ \E i \in Runs : RunCall(i) \/ RunEntry(i) \/ CmdStart(i) \/ CmdEnd(i) \/ RunDefer(i)
        \/ \E j \in Cans : CancelCall(j) \/ CancelSet(j) \/ CancelWait(j)
Fair == /\ \A i \in Runs : WF_vars(RunEntry(i)) /\ WF_vars(CmdStart(i)) /\ WF_vars(CmdEnd(i)) /\ WF_vars(RunDefer(i))
        /\ \A j \in Cans : WF_vars(CancelSet(j)) /\ WF_vars(CancelWait(j))
Spec == Init /\ [][Next]_vars /\ Fair

NoPanic == ~panicked
NoStartAfterCancel == ~cmdAfter
CancelReturns == \A j \in Cans : (cpc[j] = "c1") ~> (cpc[j] = "ret")
InterruptedReportsError == \A i \in Runs : (rpc[i] = "done" /\ rerr[i] = "ok") => TRUE
=======================================================================
