CONSTANTS
  NR = 2
  NC = 1
  NCmd = 1
  Hooks = FALSE
  Fixed = FALSE
  UseSched = FALSE
  CondErr = FALSE
SPECIFICATION Spec
INVARIANTS NoPanic NoStartAfterCancel InterruptedReportsError DoneHasResult CancelReturnedMeansIdle

CHECK_DEADLOCK FALSE
