---------------------------- MODULE ContextsTable ----------------------------
(* C14, code -> model: token logs recorded from real executions (TaskRunner directly,   *)
(* through the scheduler, through the CLI) are judged against the properties of         *)
(* Contexts.tla, restated over a finished log.                                          *)
(* Row: ctxs (names), upFails (per context), runs [{ctx, cond, before, after, condFalse, *)
(* fails}], seq (BOOLEAN: runs were started one after another), finished (Finish was      *)
(* called), rets (per run "ok" | "err" | "skipped"), log: sequence of tokens             *)
(*   [k |-> "up"|"cb"|"ca"|"down", c |-> ctx]   context hooks (no task identity)          *)
(*   [k |-> "cond"|"tb"|"body"|"ta", r |-> run] commands of run r                         *)
EXTENDS Naturals, Sequences, FiniteSets, TLC, Json
Rows == ndJsonDeserialize("rows.ndjson")
VARIABLE x
Idx(row) == 1..Len(row.log)
RunsOf(row, c) == {r \in 1..Len(row.runs) : row.runs[r].ctx = c}
CountK(row, k, c, upto) == Cardinality({i \in 1..upto : row.log[i].k = k /\ row.log[i].c = c})
IsCtxTok(t) == t.k \in {"up", "cb", "ca", "down"}
CtxOfTok(row, t) == IF IsCtxTok(t) THEN t.c ELSE row.runs[t.r].ctx
Used(row, c) == RunsOf(row, c) # {}
UpFailed(row, c) == \E j \in 1..Len(row.ctxs) : row.ctxs[j] = c /\ row.upFails[j]

\* up exactly once for a used context, never for an unused one
UpOnce(row) == \A j \in 1..Len(row.ctxs) : LET c == row.ctxs[j] IN
                  CountK(row, "up", c, Len(row.log)) = (IF Used(row, c) THEN 1 ELSE 0)
\* ... and it completes before any hook or command of any task in that context
UpFirst(row) == \A i \in Idx(row) : LET t == row.log[i] IN
                  (t.k # "up") => \E j \in 1..(i - 1) : row.log[j].k = "up" /\ row.log[j].c = CtxOfTok(row, t)
\* if up fails no task using the context runs anything and each reports an error
UpFailedRunsNothing(row) == \A j \in 1..Len(row.ctxs) : row.upFails[j] =>
                  /\ \A i \in Idx(row) : row.log[i].k \in {"up", "down"} \/ CtxOfTok(row, row.log[i]) # row.ctxs[j]
                  /\ \A r \in RunsOf(row, row.ctxs[j]) : row.rets[r] = "err"
\* the tokens a run is expected to write itself
Expected(row, r) == LET s == row.runs[r] IN
     (IF s.cond THEN {"cond"} ELSE {}) \cup
     (IF s.cond /\ s.condFalse THEN {} ELSE
        (IF s.before THEN {"tb"} ELSE {}) \cup {"body"} \cup (IF s.after /\ ~s.fails THEN {"ta"} ELSE {}))
OwnToks(row, r, upto) == {row.log[i].k : i \in {j \in 1..upto : ~IsCtxTok(row.log[j]) /\ row.log[j].r = r}}
\* every run wrote exactly its expected tokens, each once (also when it fails or is skipped)
RunTokens(row) == \A r \in 1..Len(row.runs) :
     IF UpFailed(row, row.runs[r].ctx) THEN OwnToks(row, r, Len(row.log)) = {}
     ELSE /\ OwnToks(row, r, Len(row.log)) = Expected(row, r)
          /\ \A k \in Expected(row, r) : Cardinality({i \in Idx(row) : ~IsCtxTok(row.log[i]) /\ row.log[i].r = r /\ row.log[i].k = k}) = 1
\* before once per execution, before the execution's own commands; after once per execution, after them
BeforeAfterCounts(row) == \A j \in 1..Len(row.ctxs) : LET c == row.ctxs[j] IN
     ~row.upFails[j] => /\ CountK(row, "cb", c, Len(row.log)) = Cardinality(RunsOf(row, c))
                        /\ CountK(row, "ca", c, Len(row.log)) = Cardinality(RunsOf(row, c))
Started(row, r, upto) == OwnToks(row, r, upto) # {}
Completed(row, r, upto) == OwnToks(row, r, upto) = Expected(row, r)
BeforeAfterOrder(row) == \A i \in Idx(row) : \A j \in 1..Len(row.ctxs) : LET c == row.ctxs[j] IN
     /\ CountK(row, "cb", c, i) >= Cardinality({r \in RunsOf(row, c) : Started(row, r, i)})
     /\ CountK(row, "ca", c, i) <= Cardinality({r \in RunsOf(row, c) : Completed(row, r, i)})
\* sequential runs: the log is exactly  (cb own-tokens ca)*  per execution
RECURSIVE SkipUps(_, _)
SkipUps(row, i) == IF i <= Len(row.log) /\ row.log[i].k = "up" THEN SkipUps(row, i + 1) ELSE i
RECURSIVE SeqShape(_, _, _)
SeqShape(row, i, r) ==      \* i: next position, r: next run
   LET b == SkipUps(row, i) IN
   IF r > Len(row.runs) THEN \A m \in b..Len(row.log) : row.log[m].k = "down"
   ELSE IF UpFailed(row, row.runs[r].ctx) THEN SeqShape(row, b, r + 1)
   ELSE LET n == Cardinality(Expected(row, r))
        IN /\ b + n + 1 <= Len(row.log)
           /\ row.log[b].k = "cb" /\ row.log[b].c = row.runs[r].ctx
           /\ \A m \in 1..n : ~IsCtxTok(row.log[b + m]) /\ row.log[b + m].r = r
           /\ row.log[b + n + 1].k = "ca" /\ row.log[b + n + 1].c = row.runs[r].ctx
           /\ SeqShape(row, b + n + 2, r + 1)
OwnOrder(row) == \A r \in 1..Len(row.runs) : \A i, j \in Idx(row) :
     (i < j /\ ~IsCtxTok(row.log[i]) /\ ~IsCtxTok(row.log[j]) /\ row.log[i].r = r /\ row.log[j].r = r) =>
        LET rank(k) == CASE k = "cond" -> 1 [] k = "tb" -> 2 [] k = "body" -> 3 [] OTHER -> 4 IN rank(row.log[i].k) < rank(row.log[j].k)
\* down exactly once at shutdown, after everything, only for used contexts
DownOnce(row) == row.finished => \A j \in 1..Len(row.ctxs) : LET c == row.ctxs[j] IN
     /\ CountK(row, "down", c, Len(row.log)) = (IF Used(row, c) THEN 1 ELSE 0)
     /\ \A i \in Idx(row) : (row.log[i].k = "down") => \A m \in (i + 1)..Len(row.log) : row.log[m].k = "down"
Rets(row) == \A r \in 1..Len(row.runs) : LET s == row.runs[r] IN
     row.rets[r] = (IF UpFailed(row, s.ctx) THEN "err" ELSE IF s.cond /\ s.condFalse THEN "skipped" ELSE IF s.fails THEN "err" ELSE "ok")

Checks(row) == <<UpOnce(row), UpFirst(row), UpFailedRunsNothing(row), RunTokens(row), BeforeAfterCounts(row),
                 BeforeAfterOrder(row), (row.seq => SeqShape(row, 1, 1)), OwnOrder(row), DownOnce(row), Rets(row)>>
Names == <<"UpOnce", "UpFirst", "UpFailedRunsNothing", "RunTokens", "BeforeAfterCounts", "BeforeAfterOrder", "SeqShape", "OwnOrder", "DownOnce", "Rets">>
Failing(row) == {Names[i] : i \in {j \in 1..Len(Names) : ~Checks(row)[j]}}
Bad == {i \in DOMAIN Rows : Failing(Rows[i]) # {}}
Init == x = 0
Next == UNCHANGED x
Report == PrintT(<<"BAD", ToJson([bad |-> [i \in Bad |-> Failing(Rows[i])], rows |-> Len(Rows)])>>)
=============================================================================
