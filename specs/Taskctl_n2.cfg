CONSTANTS
  N = 2
  MaxCmd = 2
SPECIFICATION Spec
INVARIANTS CommandsAfterDependencies StopsAtFailure FinalOK RunOnlyWhileStageRunning
PROPERTY Terminates
CHECK_DEADLOCK FALSE
