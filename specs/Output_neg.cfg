CONSTANTS
  N = 3
  AtomicStore = FALSE
SPECIFICATION Spec
INVARIANT DependantSees
CHECK_DEADLOCK FALSE
