---------------------------- MODULE GraphTable ----------------------------
(* Call/return table validation for C05 (DESIGN.md 3.2/3): rows recorded from the real *)
(* scheduler.NewExecutionGraph on random graphs are checked against the intended       *)
(* definitions.  Row: {n, deps (list per stage), order, err, to (list per stage),      *)
(* from (list per stage)}.                                                             *)
EXTENDS Naturals, FiniteSets, Sequences, TLC, Json
Rows == ndJsonDeserialize("rows.ndjson")
VARIABLE x
ToSet(q) == {q[i] : i \in DOMAIN q}
Succ(r, S) == {s \in 1..r.n : \E d \in S : d \in ToSet(r.deps[s])}
RECURSIVE ReachFrom(_, _, _)
ReachFrom(r, S, k) == IF k = 0 THEN S ELSE LET T == S \cup Succ(r, S) IN IF T = S THEN S ELSE ReachFrom(r, T, k - 1)
Cyclic(r) == \E m \in 1..r.n : m \in ReachFrom(r, Succ(r, {m}), r.n)
RowOK(r) == /\ r.err = Cyclic(r)
            /\ ~r.err => \A s \in 1..r.n : /\ ToSet(r.to[s]) = ToSet(r.deps[s])
                                           /\ Len(r.to[s]) = Len(r.deps[s])
                                           /\ ToSet(r.from[s]) = {t \in 1..r.n : s \in ToSet(r.deps[t])}
Bad == {i \in DOMAIN Rows : ~RowOK(Rows[i])}
Init == x = 0
Next == UNCHANGED x
CyclicRows == {i \in DOMAIN Rows : Cyclic(Rows[i])}
Report == PrintT(<<"BAD", ToJson([bad |-> Bad, cyclic |-> CyclicRows, rows |-> Len(Rows)])>>)
=============================================================================
