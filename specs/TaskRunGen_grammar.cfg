CONSTANTS
  MaxV = 3
  MinC = 0
  MaxC = 3
  Ks = {3}
  Hook = {"none","ok","fail","okok","okfail","failok"}
  Conds = {"none","true","false"}
  MaxFail = 9
SPECIFICATION Spec
INVARIANTS OrderKept CondFalseSkips BeforeFailBlocks StopsAtFirstFailure RunsAll ErrIffFailed ExitCodeFaithful Emit
PROPERTY Terminates
CHECK_DEADLOCK FALSE
