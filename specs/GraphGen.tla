---------------------------- MODULE GraphGen ----------------------------
(* Emits, for every edge set on N stages, the order-independent expectation of C05:   *)
(* {deps, cyclic}.  The harness feeds each edge set to the real NewExecutionGraph in   *)
(* every declaration order.                                                            *)
EXTENDS Graph, Json
GInit == deps \in [Nodes -> SUBSET Nodes] /\ ord = [i \in 1..N |-> i]
Emit == PrintT(<<"ROW", ToJson([n |-> N, deps |-> deps, cyclic |-> Cyclic])>>)
=========================================================================
