---------------------------- MODULE Imports ----------------------------
(* internal/config/loader.go load(): recursive import loading with the `imports` visited map *)
EXTENDS Naturals, Sequences, FiniteSets, TLC
CONSTANTS NF, Pinned, MarkAfterRead      \* MarkAfterRead: negative control (visited set marked after reading)
Files == 1..NF
Root == 1
VARIABLES imports, health, stack, visited, loaded, err, started
cfgv == <<imports, health>>
vars == <<imports, health, stack, visited, loaded, err, started>>

SetToSeq(S) == LET RECURSIVE F(_)
                   F(T) == IF T = {} THEN <<>> ELSE LET m == CHOOSE x \in T : \A y \in T : x <= y IN <<m>> \o F(T \ {m})
               IN F(S)
Init == /\ imports \in [Files -> SUBSET Files]
        /\ health \in {h \in [Files -> {"ok", "missing", "bad"}] : Cardinality({f \in Files : h[f] # "ok"}) <= 1}
        /\ stack = <<>> /\ visited = {} /\ loaded = [f \in Files |-> 0] /\ err = "none" /\ started = FALSE

Frame(f) == [f |-> f, todo |-> SetToSeq(imports[f])]
\* load(file): mark, read, then iterate the import list (loader.go:137-191)
Enter(f, isRoot) ==
  /\ visited' = IF MarkAfterRead THEN visited ELSE visited \cup {f}
  /\ CASE health[f] = "missing" -> err' = "notfound" /\ UNCHANGED <<stack, loaded>>
       [] health[f] = "bad" ->
            IF Pinned /\ ~isRoot
              THEN UNCHANGED <<err, stack, loaded>>          \* error assigned to a shadowed variable, only logged
              ELSE err' = "parse" /\ UNCHANGED <<stack, loaded>>
       [] OTHER -> /\ loaded' = [loaded EXCEPT ![f] = @ + 1]
                   /\ stack' = Append(stack, Frame(f)) /\ UNCHANGED err
Start == /\ ~started /\ started' = TRUE /\ Enter(Root, TRUE) /\ UNCHANGED cfgv
Top == stack[Len(stack)]
PopHead == [stack EXCEPT ![Len(stack)].todo = Tail(@)]
Step == /\ started /\ err = "none" /\ stack # <<>> /\ Top.todo # <<>>
        /\ LET t == Head(Top.todo) IN
           IF t \in visited THEN stack' = PopHead /\ UNCHANGED <<visited, loaded, err>>
           ELSE \* consume the entry, then load it on top
                /\ visited' = IF MarkAfterRead THEN visited ELSE visited \cup {t}
                /\ CASE health[t] = "missing" -> err' = "notfound" /\ UNCHANGED <<stack, loaded>>
                     [] health[t] = "bad" -> IF Pinned THEN stack' = PopHead /\ UNCHANGED <<err, loaded>>
                                                       ELSE err' = "parse" /\ UNCHANGED <<stack, loaded>>
                     [] OTHER -> /\ loaded' = [loaded EXCEPT ![t] = @ + 1]
                                 /\ stack' = Append(PopHead, Frame(t)) /\ UNCHANGED err
        /\ UNCHANGED <<cfgv, started>>
\* all imports of the top file processed: merge into the importer, mark (negative control), return
Pop == /\ started /\ err = "none" /\ stack # <<>> /\ Top.todo = <<>>
       /\ visited' = IF MarkAfterRead THEN visited \cup {Top.f} ELSE visited
       /\ stack' = SubSeq(stack, 1, Len(stack) - 1)
       /\ UNCHANGED <<cfgv, loaded, err, started>>
Next == Start \/ Step \/ Pop
Spec == Init /\ [][Next]_vars /\ WF_vars(Next)

RECURSIVE Reach(_, _)
Reach(S, k) == IF k = 0 THEN S ELSE Reach(S \cup UNION {imports[f] : f \in {g \in S : health[g] = "ok"}}, k - 1)
Closure == Reach({Root}, NF)
Finished == started /\ (err # "none" \/ stack = <<>>)
Bounded == Len(stack) <= NF /\ \A f \in Files : loaded[f] <= 1                 \* no re-entry, each file taken at most once
ResultIsClosure == (Finished /\ err = "none") => \A f \in Files : loaded[f] = IF f \in Closure THEN 1 ELSE 0
BrokenFails == Finished => ((err # "none") <=> \E f \in Closure : health[f] # "ok")
Terminates == <>Finished
=========================================================================
