CONSTANTS
  K = 3
  Ctxs = {"c1", "c2"}
  Shapes <- ShapesDef
  Pinned = FALSE
SPECIFICATION Spec
INVARIANTS UpOnce UpFirst UpFailedRunsNothing BeforeOncePerExecution BeforePrecedesBody AfterOncePerExecution AfterFollowsBody DownOnceOnlyUsed
CHECK_DEADLOCK FALSE
