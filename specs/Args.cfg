CONSTANTS
  MaxTargets = 2
  MaxArgs = 3
SPECIFICATION Spec
INVARIANTS ArgsVerbatim Emit
CHECK_DEADLOCK FALSE
