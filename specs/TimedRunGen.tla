---------------------------- MODULE TimedRunGen ----------------------------
EXTENDS TimedRun, Json
Emit == Done => PrintT(<<"TM", ToJson([bdur |-> bdur, jdur |-> jdur, adur |-> adur, allow |-> allow,
                                         tokens |-> tokens, ret |-> ret, errored |-> errored, expired |-> expired, ticks |-> now])>>)
============================================================================
