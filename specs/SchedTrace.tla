---------------------------- MODULE SchedTrace ----------------------------
(* Trace validation for the scheduler (DESIGN.md 3.2/2; C01, C02, C03).                 *)
(* Consumes an NDJSON log of several concatenated executions of the real               *)
(* Scheduler.Schedule recorded by the harness:                                          *)
(*   cfg    {n, deps, cls, parent, inner}   a new execution starts                      *)
(*   st     {s, v}     Stage.UpdateStatus(v) on stage s  (hook, logged before the store) *)
(*   enter  {s}        the controlled Runner's Run was entered for stage s              *)
(*   ret    {s, failed} Run is about to return (error iff failed)                       *)
(*   cancel            the caller invoked Scheduler.Cancel                              *)
(*   done   {err, final} Schedule returned                                              *)
(* Every event is bound to an action of Scheduler.tla (VisitOutcome, Finish,            *)
(* PublishDone, SubReturn, CallerCancel, Return); the per-pass bookkeeping of the       *)
(* polling loop (todo/clean) is not observable and is abstracted: a visit may happen    *)
(* whenever the graph's loop is alive.  All invariants of Scheduler.tla are evaluated   *)
(* in every state the implementation was seen to pass through.                          *)
EXTENDS Scheduler, Json, TLCExt

Log == ndJsonDeserialize("trace.ndjson")

VARIABLES l, entered, retd
tvars == <<vars, l, entered, retd>>

ToSet(seq) == {seq[i] : i \in DOMAIN seq}
Ev == Log[l]
Is(e) == l <= Len(Log) /\ Log[l].e = e
Consume == l' = l + 1

TInit ==
  /\ TLCSet(1, 1)
  /\ l = 1 /\ entered = {} /\ retd = [s \in Stages |-> "none"]
  /\ deps = [s \in Stages |-> {}] /\ cls = [s \in Stages |-> "OK"] /\ parent = 0 /\ inner = {}
  /\ status = [s \in Stages |-> "W"]
  /\ cancelled = FALSE /\ gerr = [g \in Graphs |-> FALSE]
  /\ pc = [g \in Graphs |-> "idle"]
  /\ todo = [g \in Graphs |-> {}] /\ clean = [g \in Graphs |-> FALSE] /\ chgd = [g \in Graphs |-> FALSE]
  /\ gor = [s \in Stages |-> "none"] /\ ran = [s \in Stages |-> 0] /\ intr = {}

\* a new execution: only after the previous one has returned
TReset ==
  /\ Is("cfg") /\ (IF l = 1 THEN TRUE ELSE Log[l - 1].e = "done")
  /\ Ev.n = N
  /\ deps' = [s \in Stages |-> ToSet(Ev.deps[s])]
  /\ cls' = [s \in Stages |-> Ev.cls[s]]
  /\ parent' = Ev.parent /\ inner' = ToSet(Ev.inner)
  /\ status' = [s \in Stages |-> "W"]
  /\ cancelled' = FALSE /\ gerr' = [g \in Graphs |-> FALSE]
  /\ pc' = [g \in Graphs |-> IF g = 0 THEN "top" ELSE "idle"]
  /\ todo' = [g \in Graphs |-> {}] /\ clean' = [g \in Graphs |-> FALSE] /\ chgd' = [g \in Graphs |-> FALSE]
  /\ gor' = [s \in Stages |-> "none"] /\ ran' = [s \in Stages |-> 0] /\ intr' = {}
  /\ entered' = {} /\ retd' = [s \in Stages |-> "none"]
  /\ Consume

Alive(g) == pc[g] = "top"

\* a status store made by the scheduling loop (scheduler.go:56, 62, 72 and checkStatus)
TStLoop ==
  /\ Is("st") /\ gor[Ev.s] = "none" /\ status[Ev.s] = "W" /\ Alive(GraphOf(Ev.s))
  /\ LET s == Ev.s
         o == VisitOutcome(s)
     IN /\ o[1][s] = Ev.v /\ o[1] # status
        /\ status' = o[1] /\ cancelled' = o[2]
        /\ gor' = IF o[3] THEN [gor EXCEPT ![s] = "running"] ELSE gor
        /\ ran' = IF o[3] /\ ~IsParent(s) THEN [ran EXCEPT ![s] = @ + 1] ELSE ran
        /\ pc' = IF o[3] /\ IsParent(s) THEN [pc EXCEPT ![1] = "top"] ELSE pc
  /\ Consume
  /\ UNCHANGED <<cfgv, gerr, todo, clean, chgd, intr, entered, retd>>

\* checkStatus stores Canceled once per blocked dependency (scheduler.go:164, 168)
TStDupCancel ==
  /\ Is("st") /\ Ev.v = "C" /\ status[Ev.s] = "C" /\ Alive(GraphOf(Ev.s))
  /\ Consume /\ UNCHANGED <<vars, entered, retd>>

TEnter ==
  /\ Is("enter") /\ gor[Ev.s] = "running" /\ ~IsParent(Ev.s) /\ Ev.s \notin entered
  /\ entered' = entered \cup {Ev.s}
  /\ Consume /\ UNCHANGED <<vars, retd>>

TRet ==
  /\ Is("ret") /\ Ev.s \in entered /\ retd[Ev.s] = "none"
  /\ retd' = [retd EXCEPT ![Ev.s] = IF Ev.failed THEN "fail" ELSE "ok"]
  /\ Consume /\ UNCHANGED <<vars, entered>>

\* the stage goroutine publishes the outcome (scheduler.go:83, 91)
TStTask ==
  /\ Is("st") /\ gor[Ev.s] = "running" /\ ~IsParent(Ev.s) /\ retd[Ev.s] # "none"
  /\ Ev.v = (IF retd[Ev.s] = "fail" THEN "E" ELSE "D")
  /\ Finish(Ev.s, retd[Ev.s] = "fail")
  /\ intr' = intr
  /\ Consume /\ UNCHANGED <<cfgv, cancelled, pc, todo, ran, entered, retd>>

TStPublishDone ==
  /\ Is("st") /\ Ev.v = "D" /\ PublishDone(Ev.s)
  /\ Consume /\ UNCHANGED <<entered, retd>>

\* the nested Schedule returned and its stage publishes the outcome
TStSub ==
  /\ Is("st") /\ IsParent(Ev.s) /\ Ev.v = (IF gerr[1] THEN "E" ELSE "D")
  /\ SubReturn(Ev.s)
  /\ Consume /\ UNCHANGED <<entered, retd>>

TCancel ==
  /\ Is("cancel")
  /\ IF cancelled THEN UNCHANGED vars ELSE CallerCancel
  /\ Consume /\ UNCHANGED <<entered, retd>>

LoopMayExit(g) == (\A s \in StagesOf(g) : status[s] \notin {"W", "R"}) \/ cancelled
Drained(g) == \A s \in StagesOf(g) : gor[s] \in {"none", "fin"}

\* silent: the nested Schedule call returns (loop exit + wg.Wait), not logged
TSubDone ==
  /\ l <= Len(Log) /\ Log[l].e # "cfg"
  /\ Alive(1) /\ LoopMayExit(1) /\ Drained(1)
  /\ pc' = [pc EXCEPT ![1] = "ret"]
  /\ l' = l /\ UNCHANGED <<cfgv, status, cancelled, gerr, todo, clean, chgd, gor, ran, intr, entered, retd>>

TDone ==
  /\ Is("done") /\ Alive(0) /\ LoopMayExit(0) /\ Drained(0) /\ ~Alive(1)
  /\ gerr[0] = Ev.err
  /\ \A s \in Stages : status[s] = Ev.final[s]
  /\ pc' = [pc EXCEPT ![0] = "ret"]
  /\ Consume /\ UNCHANGED <<cfgv, status, cancelled, gerr, todo, clean, chgd, gor, ran, intr, entered, retd>>

TNext == TReset \/ TStLoop \/ TStDupCancel \/ TEnter \/ TRet \/ TStTask \/ TStPublishDone \/ TStSub
         \/ TCancel \/ TSubDone \/ TDone
TSpec == TInit /\ [][TNext]_tvars

\* a run observed inside Run has all its dependencies finished (C01, on the observed entries)
EnteredDepsFinished == \A s \in entered : retd[s] = "none" =>
                          \A d \in deps[s] : gor[d] \in {"fin", "fa"} \/ status[d] = "S"

HW == TLCSet(1, IF TLCGet(1) < l THEN l ELSE TLCGet(1))
Accepted == TLCGet(1) = Len(Log) + 1
\* printed when the log is not accepted: how far it was matched
Matched == PrintT(<<"MATCHED", ToJson([upto |-> TLCGet(1) - 1, of |-> Len(Log)])>>)
PostCond == Matched /\ Accepted
=============================================================================
