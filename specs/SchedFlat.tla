---------------------------- MODULE SchedFlat ----------------------------
(* The safety core of pkg/scheduler/scheduler.go for ONE graph, for ANY finite set of     *)
(* stages and ANY dependency relation: the loop-control state of Scheduler.tla (pc, todo,   *)
(* clean, chgd) is abstracted away - a waiting stage may be visited at any time - and a      *)
(* returning task may report any outcome.  Scheduler.tla with Nested = FALSE refines this     *)
(* module (checked by TLC: property FlatRefinement in Scheduler_flat3/cancel3.cfg), and the   *)
(* theorems of SchedFlatProofs.tla are proved with TLAPS (tlapm), so the safety statements   *)
(*     DepsFinished   a stage's task runs only after every dependency's task is over          *)
(*     AtMostOnce     a stage's task is started at most once                                  *)
(* hold for every number of stages, every graph and every schedule, not only for the small    *)
(* constants TLC enumerates.                                                                  *)
EXTENDS Naturals

CONSTANT Stages
VARIABLES deps, cls, status, cancelled, gor, ran
vars == <<deps, cls, status, cancelled, gor, ran>>

ClassSet  == {"OK", "FAIL", "FAILA", "CFALSE", "CERR"}
StatusSet == {"W", "R", "S", "D", "E", "C"}
GorSet    == {"none", "running", "fa", "fin"}

Allow(s) == cls[s] = "FAILA"
Sat(d)     == status[d] \in {"D", "S"} \/ (status[d] = "E" /\ Allow(d))
Blocked(d) == (status[d] = "E" /\ ~Allow(d)) \/ status[d] = "C"

TypeOK == /\ deps \in [Stages -> SUBSET Stages]
          /\ cls \in [Stages -> ClassSet]
          /\ status \in [Stages -> StatusSet]
          /\ cancelled \in BOOLEAN
          /\ gor \in [Stages -> GorSet]
          /\ ran \in [Stages -> Nat]

Init == /\ deps \in [Stages -> SUBSET Stages]
        /\ cls \in [Stages -> ClassSet]
        /\ status = [s \in Stages |-> "W"]
        /\ cancelled = FALSE
        /\ gor = [s \in Stages |-> "none"]
        /\ ran = [s \in Stages |-> 0]

\* one iteration of the range loop body on a waiting stage (scheduler.go:47-92, checkStatus inlined)
VisitCondErr(s) == /\ status[s] = "W" /\ cls[s] = "CERR"
                   /\ status' = [status EXCEPT ![s] = "E"] /\ cancelled' = TRUE
                   /\ UNCHANGED <<deps, cls, gor, ran>>
VisitSkip(s)    == /\ status[s] = "W" /\ cls[s] = "CFALSE"
                   /\ status' = [status EXCEPT ![s] = "S"]
                   /\ UNCHANGED <<deps, cls, cancelled, gor, ran>>
VisitCancel(s)  == /\ status[s] = "W" /\ cls[s] \notin {"CERR", "CFALSE"}
                   /\ \E d \in deps[s] : Blocked(d)
                   /\ status' = [status EXCEPT ![s] = "C"]
                   /\ UNCHANGED <<deps, cls, cancelled, gor, ran>>
VisitLaunch(s)  == /\ status[s] = "W" /\ cls[s] \notin {"CERR", "CFALSE"}
                   /\ \A d \in deps[s] : Sat(d)
                   /\ status' = [status EXCEPT ![s] = "R"]
                   /\ gor' = [gor EXCEPT ![s] = "running"]
                   /\ ran' = [ran EXCEPT ![s] = @ + 1]
                   /\ UNCHANGED <<deps, cls, cancelled>>
\* the stage goroutine: Run returned with or without an error (scheduler.go:81-91)
ReturnOK(s)     == /\ gor[s] = "running"
                   /\ status' = [status EXCEPT ![s] = "D"] /\ gor' = [gor EXCEPT ![s] = "fin"]
                   /\ UNCHANGED <<deps, cls, cancelled, ran>>
ReturnErr(s)    == /\ gor[s] = "running"
                   /\ status' = [status EXCEPT ![s] = "E"]
                   /\ gor' = [gor EXCEPT ![s] = IF Allow(s) THEN "fa" ELSE "fin"]
                   /\ UNCHANGED <<deps, cls, cancelled, ran>>
\* second store after an allowed failure (scheduler.go:91)
PublishDone(s)  == /\ gor[s] = "fa"
                   /\ status' = [status EXCEPT ![s] = "D"] /\ gor' = [gor EXCEPT ![s] = "fin"]
                   /\ UNCHANGED <<deps, cls, cancelled, ran>>
Cancel          == cancelled' = TRUE /\ UNCHANGED <<deps, cls, status, gor, ran>>

Step(s) == VisitCondErr(s) \/ VisitSkip(s) \/ VisitCancel(s) \/ VisitLaunch(s)
           \/ ReturnOK(s) \/ ReturnErr(s) \/ PublishDone(s)
Next == Cancel \/ \E s \in Stages : Step(s)
Spec == Init /\ [][Next]_vars

-----------------------------------------------------------------------------
Over(d) == gor[d] \in {"fin", "fa"} \/ status[d] = "S"
DepsFinished == \A s \in Stages : gor[s] = "running" => \A d \in deps[s] : Over(d)
AtMostOnce   == \A s \in Stages : ran[s] <= 1
\* a task that is over stays over; a stage never goes back to Waiting (C03: no stage is re-run)
OverIsStable == [][\A d \in Stages : Over(d) => Over(d)']_vars

IndInv == /\ TypeOK
          /\ \A s \in Stages : status[s] = "W" => gor[s] = "none" /\ ran[s] = 0
          /\ \A s \in Stages : ran[s] <= 1
          /\ \A s \in Stages : gor[s] = "running" => status[s] = "R"
          /\ \A s \in Stages : status[s] = "R" => gor[s] = "running"
          /\ \A s \in Stages : status[s] = "D" => gor[s] = "fin"
          /\ \A s \in Stages : (status[s] = "E" /\ Allow(s)) => gor[s] = "fa"
          /\ \A s \in Stages : gor[s] = "fa" => status[s] = "E" /\ Allow(s)
          /\ DepsFinished
=============================================================================
