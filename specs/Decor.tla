---------------------------- MODULE Decor ----------------------------
(* C19: prefixed output never loses or mixes task output.                               *)
(*   pkg/output/prefixed.go  prefixedOutputDecorator.Write / WriteFooter, lineWriter     *)
(* A stream is a sequence of tokens: "x" (plain bytes), "LF", "CRLF", "A" (one           *)
(* well-formed ANSI escape sequence).  On the byte level "CRLF" is two atoms and "A" three *)
(* (ESC[ , parameter digits, final letter); a chunking cuts the atom sequence anywhere,   *)
(* also inside an escape sequence.  The transducer below is the implementation:           *)
(*   Write(chunk): prepend what was held back; hold back an escape sequence that the chunk *)
(*   cuts in two (HoldBack = TRUE - the current tree); emit every terminated line and the  *)
(*   unterminated rest as one sink write each, stripped of COMPLETE escape sequences,      *)
(*   where - as the regular expression of prefixed.go has it - "ESC[ digits" already        *)
(*   counts as complete.  HoldBack = FALSE is the pinned behaviour (negative control).      *)
(* Properties: PerTask - removing prefixes, line terminators and escape sequences from the *)
(* sink yields exactly the stream with line terminators and escape sequences removed.      *)
EXTENDS Naturals, Sequences, FiniteSets, TLC
CONSTANTS MaxTok, MaxCuts, HoldBack
Tokens == {"x", "LF", "CRLF", "A"}
Atoms(t) == CASE t = "x" -> <<"x">> [] t = "LF" -> <<"LF">> [] t = "CRLF" -> <<"CR", "LF">> [] OTHER -> <<"E1", "E2", "E3">>
RECURSIVE Flat(_)
Flat(s) == IF s = <<>> THEN <<>> ELSE Atoms(Head(s)) \o Flat(Tail(s))

VARIABLES stream, cuts,            \* configuration: tokens, and the set of cut positions in the atom sequence
          i, pending, sink, done
vars == <<stream, cuts, i, pending, sink, done>>
Bytes == Flat(stream)
N == Len(Bytes)
Init == /\ stream \in UNION {[1..n -> Tokens] : n \in 1..MaxTok}
        /\ cuts \in {c \in SUBSET (1..(Len(Flat(stream)) - 1)) : Cardinality(c) <= MaxCuts}
        /\ i = 0 /\ pending = <<>> /\ sink = <<>> /\ done = FALSE

\* remove complete escape sequences as lineWriter's regular expression does: E1 E2 E3, E1 E3,
\* and also E1 E2 (parameter digits accepted as the final byte)
RECURSIVE Strip(_)
Strip(s) == IF s = <<>> THEN <<>>
            ELSE IF Head(s) = "E1" THEN
                   (IF Len(s) >= 3 /\ s[2] = "E2" /\ s[3] = "E3" THEN Strip(SubSeq(s, 4, Len(s)))
                    ELSE IF Len(s) >= 2 /\ s[2] \in {"E2", "E3"} THEN Strip(SubSeq(s, 3, Len(s)))
                    ELSE <<"E1">> \o Strip(Tail(s)))
            ELSE <<Head(s)>> \o Strip(Tail(s))
\* split at LF (a CR just before it belongs to the terminator), the rest is emitted too if not empty
RECURSIVE Lines(_, _)
DropCR(l) == IF l # <<>> /\ l[Len(l)] = "CR" THEN SubSeq(l, 1, Len(l) - 1) ELSE l
Lines(s, cur) == IF s = <<>> THEN (IF cur = <<>> THEN <<>> ELSE <<DropCR(cur)>>)      \* bufio.ScanLines at EOF drops it too
                 ELSE IF Head(s) = "LF"
                        THEN <<DropCR(cur)>> \o Lines(Tail(s), <<>>)
                        ELSE Lines(Tail(s), Append(cur, Head(s)))
\* the suffix to hold back: an escape sequence begun but not finished in this chunk
HeldFrom(s) == IF ~HoldBack THEN Len(s) + 1
               ELSE IF Len(s) >= 1 /\ s[Len(s)] = "E1" THEN Len(s)
               ELSE IF Len(s) >= 2 /\ s[Len(s) - 1] = "E1" /\ s[Len(s)] = "E2" THEN Len(s) - 1
               ELSE Len(s) + 1
NextCut == IF \E c \in cuts : c > i THEN CHOOSE c \in cuts : c > i /\ \A d \in cuts : d > i => c <= d ELSE N
\* prefixedOutputDecorator.Write(chunk)
Write == /\ ~done /\ i < N
         /\ LET j == NextCut
                data == pending \o SubSeq(Bytes, i + 1, j)
                h == HeldFrom(data)
                body == SubSeq(data, 1, h - 1)
                ls == Lines(body, <<>>)
                \* an empty line leaves nothing in the bufio.Writer, so Flush does not reach lineWriter
                nonEmpty == SelectSeq(ls, LAMBDA l : l # <<>>)
            IN /\ sink' = sink \o [k \in 1..Len(nonEmpty) |-> Strip(nonEmpty[k])]
               /\ pending' = SubSeq(data, h, Len(data))
               /\ i' = j
         /\ UNCHANGED <<stream, cuts, done>>
\* WriteFooter: what was held back is flushed
Footer == /\ ~done /\ i = N
          /\ sink' = (IF pending = <<>> THEN sink ELSE Append(sink, Strip(pending)))
          /\ pending' = <<>> /\ done' = TRUE
          /\ UNCHANGED <<stream, cuts, i>>
Next == Write \/ Footer
Spec == Init /\ [][Next]_vars /\ WF_vars(Next)

Plain(s) == SelectSeq(s, LAMBDA a : a = "x")
RECURSIVE Concat(_)
Concat(ss) == IF ss = <<>> THEN <<>> ELSE Head(ss) \o Concat(Tail(ss))
\* Norm: remove line terminators, then complete escape sequences (well-formed ones only occur)
PerTask == done => Plain(Concat(sink)) = Plain(Bytes) /\ \A k \in 1..Len(sink) : \A m \in 1..Len(sink[k]) : sink[k][m] \in {"x", "CR"}
Terminates == <>done
=======================================================================
