CONSTANTS
  K = 2
  Ctxs = {"c1", "c2"}
  Shapes <- ShapesDef
  Pinned = TRUE
SPECIFICATION Spec
INVARIANTS UpOnce UpFirst UpFailedRunsNothing BeforeOncePerExecution BeforePrecedesBody AfterOncePerExecution AfterFollowsBody DownOnceOnlyUsed
CHECK_DEADLOCK FALSE
