CONSTANTS
  NR = 1
  NC = 1
  NCmd = 2
  Hooks = TRUE
  Fixed = TRUE
  UseSched = FALSE
  CondErr = FALSE
SPECIFICATION GSpec
INVARIANTS NoPanic NoStartAfterCancel InterruptedReportsError Emit
PROPERTIES Finishes
CHECK_DEADLOCK FALSE
