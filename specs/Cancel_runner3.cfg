CONSTANTS
  NR = 3
  NC = 2
  NCmd = 2
  Hooks = TRUE
  Fixed = TRUE
  UseSched = FALSE
  CondErr = FALSE
SPECIFICATION Spec
INVARIANTS NoPanic NoStartAfterCancel InterruptedReportsError DoneHasResult CancelReturnedMeansIdle InflightIsCount
PROPERTIES CancelReturns FlatRefinement
CHECK_DEADLOCK FALSE
