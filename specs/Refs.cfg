INIT Init
NEXT Next
INVARIANTS OnlyBaseWellFormed Emit
CHECK_DEADLOCK FALSE
