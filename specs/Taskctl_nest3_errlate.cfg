CONSTANTS
  N = 3
  MaxCmd = 1
  MaxVar = 1
  NCtx = 0
  Nesting = TRUE
  TaskAllow = FALSE
  AtomicLaunch = TRUE
  CondErr = FALSE
  ErrFirst = FALSE
  HookKinds = {"none"}
INIT InitErrLate
NEXT Next
INVARIANTS FinalOK
CHECK_DEADLOCK FALSE
