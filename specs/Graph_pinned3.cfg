CONSTANT N = 3
INIT Init
NEXT Next
INVARIANTS IffPinned
CHECK_DEADLOCK FALSE
