---------------------------- MODULE Formats ----------------------------
(* C16: YAML, JSON and TOML express the same configuration identically.                 *)
(* An abstract configuration is a vector of features (which documented key is present     *)
(* and in which of its shapes).  The model enumerates the default vector, every single     *)
(* deviation and every pair of deviations (pairwise coverage of key x shape); the harness  *)
(* serialises each abstract configuration to the three formats and requires the same       *)
(* observable behaviour (list, show, graph, run) from all three - Built(cfg) below is the  *)
(* part of that behaviour the model predicts.                                              *)
EXTENDS Naturals, Sequences, FiniteSets, TLC, Json
Features == <<"command", "before", "after", "timeout", "allow", "env", "variations", "variables", "condition",
              "context", "dependson", "import", "watcher", "stageenv", "dir", "exportas">>
Dom(f) == CASE f = "command" -> {"scalar", "list"}
            [] f \in {"before", "after"} -> {"absent", "scalar", "list"}
            [] f = "timeout" -> {"absent", "string", "int"}
            [] f = "allow" -> {"absent", "true", "false"}
            [] f = "env" -> {"absent", "strings", "scalars"}       \* numbers and booleans as values
            [] f = "variations" -> {"absent", "two"}
            [] f = "variables" -> {"absent", "strings", "scalars"}
            [] f = "condition" -> {"absent", "true", "false"}
            [] f = "context" -> {"absent", "plain", "executable"}
            [] f = "dependson" -> {"absent", "scalar", "list"}
            [] f = "import" -> {"none", "same", "cross", "mixed"}       \* mixed: an other-format file, then a same-format file
            [] f = "watcher" -> {"absent", "scalar", "list"}
            [] f = "stageenv" -> {"absent", "present"}
            [] f = "dir" -> {"absent", "present"}
            [] OTHER -> {"absent", "present"}
Default(f) == CASE f = "command" -> "list" [] f = "import" -> "none" [] OTHER -> "absent"
NF == Len(Features)
VARIABLE vec
Dev(v) == {i \in 1..NF : v[i] # Default(Features[i])}
Alt(i) == IF i = 0 THEN {"-"} ELSE Dom(Features[i]) \ {Default(Features[i])}
\* the default vector, every single deviation, every pair of deviations
Init == \E i, j \in 0..NF : i <= j /\ \E a \in Alt(i), b \in Alt(j) : (i = j => a = b) /\
           vec = [k \in 1..NF |-> IF k = i THEN a ELSE IF k = j THEN b ELSE Default(Features[k])]
Next == UNCHANGED vec
Val(f) == vec[CHOOSE i \in 1..NF : Features[i] = f]
\* what the model predicts of the behaviour: does running the task succeed, is it skipped
Built == [runs |-> Val("condition") # "false", imported |-> Val("import") # "none",
          tasks |-> IF Val("import") = "none" THEN {"main", "dep"} ELSE {"main", "dep", "imported", "both"},
          \* lists declared partly in the importing, partly in the imported file are joined: the stages of
          \* pipeline q (one from each file) and the variations of task both (one from each file)
          joined |-> IF Val("import") = "none" THEN <<>> ELSE <<"q1", "q2">>]
Emit == PrintT(<<"FMT", ToJson([vec |-> [i \in 1..NF |-> [f |-> Features[i], v |-> vec[i]]], built |-> Built])>>)
========================================================================
