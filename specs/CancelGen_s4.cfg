CONSTANTS
  NR = 4
  NC = 2
  NCmd = 2
  Hooks = TRUE
  Fixed = TRUE
  UseSched = TRUE
  CondErr = FALSE
SPECIFICATION GSpec
INVARIANTS NoPanic NoStartAfterCancel InterruptedReportsError Emit
PROPERTIES Finishes
CHECK_DEADLOCK FALSE
