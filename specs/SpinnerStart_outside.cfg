CONSTANTS
  Add = "outsideMu"
  Adds = 2
  Frames = 3
SPECIFICATION Spec
INVARIANT NoLockCycle
PROPERTY AllAdded
CHECK_DEADLOCK FALSE
