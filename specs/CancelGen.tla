---------------------------- MODULE CancelGen ----------------------------
(* Scenario generator for C12 / C03-cancel (DESIGN.md 4/C12 binding 1).                 *)
(* A scenario places every run at a hold point of Cancel.tla's control flow, then lets  *)
(* NC Cancel calls and everything else proceed.  Every terminal state prints the        *)
(* scenario and the outcome the model allows: per run the result (ok / ctx error) and   *)
(* the number of commands that ran to completion.  The harness drives the real          *)
(* TaskRunner (and Scheduler) to the same hold points with gates and compares.          *)
EXTENDS Cancel, Json

CONSTANT Holds    \* the hold points scenarios are built from
VARIABLE hold
gvars == <<vars, hold>>

\* runner: {"late","before","cmd1","gate2","cmd2","after","done"}; scheduler: "waiting" instead of "late"
HoldPoints == Holds
InFlightHold == {"before", "cmd1", "gate2", "cmd2", "after"}

PcOf(h) == CASE h = "late" -> "idle" [] h = "waiting" -> "idle" [] h = "before" -> "beforeRun"
             [] h = "cmd1" -> "running" [] h = "gate2" -> "cmd" [] h = "cmd2" -> "running"
             [] h = "after" -> "afterRun" [] h = "done" -> "done"
CmdOf(h) == IF h \in {"gate2", "cmd2", "after", "done"} THEN 2 ELSE 1
DoneOf(h) == CASE h \in {"gate2", "cmd2"} -> 1 [] h \in {"after", "done"} -> 2 [] OTHER -> 0

GInit == /\ hold \in [Runs -> HoldPoints]
         /\ (CondErr => \E i \in Runs : hold[i] = "waiting")   \* the stage whose condition fails is a waiting one
         /\ rpc = [i \in Runs |-> PcOf(hold[i])]
         /\ cmd = [i \in Runs |-> CmdOf(hold[i])]
         /\ ncompleted = [i \in Runs |-> DoneOf(hold[i])]
         /\ rerr = [i \in Runs |-> IF hold[i] \in {"after", "done"} THEN "ok" ELSE "none"]
         /\ inflight = Cardinality({i \in Runs : hold[i] \in InFlightHold})
         /\ cpc = [j \in Cans |-> "idle"]
         /\ ctxCancelled = FALSE /\ canceling = FALSE /\ chClosed = FALSE
         /\ panicked = FALSE /\ cmdAfter = FALSE
         /\ spc = (IF UseSched THEN "loop" ELSE "off") /\ schedCancelled = FALSE

\* a late run is called only once some Cancel has returned; waiting stages are never launched
GRunCall(i) == hold[i] = "late" /\ AnyCancelReturned /\ RunCall(i)
GNext == /\ \/ \E i \in Runs : GRunCall(i) \/ RunStep(i)
            \/ \E j \in Cans : CancelCall(j) \/ CancelSet(j) \/ CancelWait(j)
            \/ LoopCancelCall
            \/ (LoopExit /\ schedCancelled) \/ SchedReturn
         /\ UNCHANGED hold

\* (with a caller's Cancel besides the loop's own, the loop may leave before it evaluates the
\* condition: its own Cancel then never happens)
Terminal == /\ \A j \in Cans : cpc[j] = "ret" \/ (j = LoopCan /\ NC > 1 /\ cpc[j] = "idle" /\ spc = "returned")
            /\ \A i \in Runs : rpc[i] = "done" \/ hold[i] = "waiting"
            /\ UseSched => spc = "returned"
Emit == Terminal => PrintT(<<"SCN", ToJson([nr |-> NR, nc |-> NC, sched |-> UseSched, conderr |-> CondErr,
                                              hold |-> hold, rerr |-> rerr, ncompleted |-> ncompleted])>>)
\* every scenario can reach a terminal state (no deadlock short of it): checked as a liveness property
GSpec == GInit /\ [][GNext]_gvars /\ WF_gvars(GNext)
Finishes == <>Terminal
=========================================================================
