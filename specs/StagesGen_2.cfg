CONSTANTS
  NS = 2
  Pinned = FALSE
INIT GInit
NEXT GNext
INVARIANT Emit
CHECK_DEADLOCK FALSE
