---------------------------- MODULE CancelFlat ----------------------------
(* The hand-shake between TaskRunner.Run and TaskRunner.Cancel (pkg/runner/runner.go) for ANY  *)
(* finite sets of runs and of Cancel calls.  The runs in flight are a set here (the code      *)
(* counts them under cancelMutex; Cancel.tla keeps the counter and TLC checks that it equals   *)
(* the cardinality of this set), the phases of a run between its registration and its         *)
(* deferred de-registration are one state "active".  Cancel.tla with Fixed = TRUE refines this *)
(* module (PROPERTY FlatRefinement in the Cancel_runner*/sched* configurations), and           *)
(* CancelFlatProofs.tla proves with TLAPS the C12 sentence                                     *)
(*     once cancellation has completed no further command is started                          *)
(* for every number of runs, of Cancel calls and every interleaving.                           *)
EXTENDS Naturals

CONSTANTS Runs, Cans
VARIABLES rpc,           \* run: "idle" | "entry" | "active" | "defer" | "done"
          cpc,           \* Cancel call: "idle" | "c1" | "wait" | "ret"
          ctxCancelled,  \* the runner's context has been cancelled
          infl,          \* runs registered as in flight
          cmdAfter       \* history: a command (or hook) was started after some Cancel had returned
vars == <<rpc, cpc, ctxCancelled, infl, cmdAfter>>

RunStates == {"idle", "entry", "active", "defer", "done"}
CanStates == {"idle", "c1", "wait", "ret"}
TypeOK == /\ rpc \in [Runs -> RunStates] /\ cpc \in [Cans -> CanStates]
          /\ ctxCancelled \in BOOLEAN /\ infl \in SUBSET Runs /\ cmdAfter \in BOOLEAN

Init == /\ rpc = [i \in Runs |-> "idle"] /\ cpc = [j \in Cans |-> "idle"]
        /\ ctxCancelled = FALSE /\ infl = {} /\ cmdAfter = FALSE

AnyReturned == \E j \in Cans : cpc[j] = "ret"

Call(i)     == /\ rpc[i] = "idle" /\ rpc' = [rpc EXCEPT ![i] = "entry"]
               /\ UNCHANGED <<cpc, ctxCancelled, infl, cmdAfter>>
\* Run entry under cancelMutex: refused when the context is cancelled, otherwise registered
Enter(i)    == /\ rpc[i] = "entry"
               /\ IF ctxCancelled THEN rpc' = [rpc EXCEPT ![i] = "done"] /\ UNCHANGED infl
                                  ELSE rpc' = [rpc EXCEPT ![i] = "active"] /\ infl' = infl \cup {i}
               /\ UNCHANGED <<cpc, ctxCancelled, cmdAfter>>
\* a hook or command is started: the executor refuses under a cancelled context
StartCmd(i) == /\ rpc[i] = "active" /\ ~ctxCancelled
               /\ cmdAfter' = (cmdAfter \/ AnyReturned)
               /\ UNCHANGED <<rpc, cpc, ctxCancelled, infl>>
\* the run is over (completed, failed, interrupted or refused by the executor)
Finish(i)   == /\ rpc[i] = "active" /\ rpc' = [rpc EXCEPT ![i] = "defer"]
               /\ UNCHANGED <<cpc, ctxCancelled, infl, cmdAfter>>
\* deferred de-registration under cancelMutex
Exit(i)     == /\ rpc[i] = "defer" /\ rpc' = [rpc EXCEPT ![i] = "done"] /\ infl' = infl \ {i}
               /\ UNCHANGED <<cpc, ctxCancelled, cmdAfter>>
CancelCall(j) == /\ cpc[j] = "idle" /\ cpc' = [cpc EXCEPT ![j] = "c1"]
                 /\ UNCHANGED <<rpc, ctxCancelled, infl, cmdAfter>>
CancelSet(j)  == /\ cpc[j] = "c1" /\ cpc' = [cpc EXCEPT ![j] = "wait"] /\ ctxCancelled' = TRUE
                 /\ UNCHANGED <<rpc, infl, cmdAfter>>
\* Cancel returns when no run is in flight
CancelWait(j) == /\ cpc[j] = "wait" /\ infl = {} /\ cpc' = [cpc EXCEPT ![j] = "ret"]
                 /\ UNCHANGED <<rpc, ctxCancelled, infl, cmdAfter>>
Next == \/ \E i \in Runs : Call(i) \/ Enter(i) \/ StartCmd(i) \/ Finish(i) \/ Exit(i)
        \/ \E j \in Cans : CancelCall(j) \/ CancelSet(j) \/ CancelWait(j)
Spec == Init /\ [][Next]_vars

\* C12: once cancellation has completed no further command is started
NothingStartsAfterCancel == ~cmdAfter
\* a run that is registered is exactly one that has entered and not yet left
Registered == \A i \in Runs : (i \in infl) <=> rpc[i] \in {"active", "defer"}
\* Cancel returns only when nothing is in flight, and nothing gets in flight afterwards
QuietAfterCancel == AnyReturned => ctxCancelled /\ infl = {}
IndInv == TypeOK /\ Registered /\ QuietAfterCancel /\ NothingStartsAfterCancel
          /\ \A j \in Cans : cpc[j] \in {"wait", "ret"} => ctxCancelled
=============================================================================
