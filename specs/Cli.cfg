CONSTANT MaxLen = 3
SPECIFICATION Spec
INVARIANTS ExitZeroIffAllSucceeded InOrderNothingAfterFailure Emit
PROPERTY Terminates
CHECK_DEADLOCK FALSE
