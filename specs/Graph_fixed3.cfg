CONSTANT N = 3
INIT Init
NEXT Next
INVARIANTS IffFixed EdgesExact
CHECK_DEADLOCK FALSE
