CONSTANTS
  N = 2
  MaxCmd = 2
  MaxVar = 1
  NCtx = 0
  Nesting = FALSE
  TaskAllow = FALSE
  AtomicLaunch = TRUE
  CondErr = TRUE
  ErrFirst = TRUE
  HookKinds = {"none"}
SPECIFICATION Spec
INVARIANTS CommandsAfterDependencies StopsAtFailure FinalOK CancelledFinal QuietAfterCancel RunOnlyWhileStageRunning UpBeforeUse DownAfterAll OneUpAtATime NothingRunsAtReturn NoDoubleLaunch
PROPERTY Terminates
CHECK_DEADLOCK FALSE
