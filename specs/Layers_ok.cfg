CONSTANTS
  EmptyYields = FALSE
  PinnedEnv = FALSE
  Accumulate = FALSE
  PinnedVars = FALSE
INIT Init
NEXT Next
INVARIANT ImplEqualsResolve
CHECK_DEADLOCK FALSE
