CONSTANTS
  N = 2
  Classes = {"OK","FAIL","FAILA","CFALSE"}
  Nested = FALSE
  CallerCancels = FALSE
  Mode = "normal"
INIT GInit
NEXT GNext
INVARIANTS GenFinalOK GenNoneLeft Emit
CHECK_DEADLOCK FALSE
