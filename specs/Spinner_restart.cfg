CONSTANTS
  Client = "restart"
  Finishes = 3
  MaxDraw = 4
SPECIFICATION Spec
INVARIANT NoLockLeak
PROPERTY AllReported
CHECK_DEADLOCK FALSE
