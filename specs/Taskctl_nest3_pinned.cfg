CONSTANTS
  N = 3
  MaxCmd = 1
  MaxVar = 1
  NCtx = 0
  Nesting = TRUE
  TaskAllow = FALSE
  AtomicLaunch = FALSE
  ErrFirst = TRUE
  HookKinds = {"none"}
INIT InitDouble
NEXT Next
INVARIANTS NoDoubleLaunch
CHECK_DEADLOCK FALSE
