CONSTANTS
  NR = 1
  NC = 1
  NCmd = 1
  Hooks = FALSE
  Fixed = FALSE
  UseSched = FALSE
  CondErr = FALSE
SPECIFICATION Spec
INVARIANTS NoPanic NoStartAfterCancel InterruptedReportsError DoneHasResult CancelReturnedMeansIdle
PROPERTIES CancelReturns
CHECK_DEADLOCK FALSE
