----------------------------- MODULE Spinner -----------------------------
(* pkg/output/cockpit.go on top of github.com/briandowns/spinner (v0.0.0-20200215): the lock   *)
(* protocol between the task goroutines that report "Finished <task>" and the spinner's         *)
(* drawing goroutines.  C19: no task outcome may make the output layer crash - or block: a      *)
(* task whose output cannot be finished never reports a result.                                 *)
(*                                                                                             *)
(* The library (spinner.go):                                                                    *)
(*   Start : lock; if active {unlock; return}; active := TRUE; unlock; go draw()                *)
(*   Stop  : lock; if active {active := FALSE; stopChan <- token (capacity 1)}; unlock          *)
(*   draw  : loop { select { case <-stopChan: return                                            *)
(*                           default: lock; if !active {return  -- WITH THE LOCK HELD --};      *)
(*                                    draw a frame; unlock; sleep } }                           *)
(* The client (baseCockpit.remove), two variants selected by the constant Client:               *)
(*   "restart" : FinalMSG := line; Restart() = Stop(); Start()      (the code before the fix)   *)
(*   "locked"  : Lock(); print the line; Unlock()                    (the code after the fix)    *)
EXTENDS Naturals, FiniteSets, TLC

CONSTANTS Client,      \* "restart" | "locked"
          Finishes,    \* number of tasks that finish (calls of remove)
          MaxDraw      \* bound on drawing goroutines ever started

Draws == 1..MaxDraw
C == MaxDraw + 1          \* the client's identity as a lock holder
VARIABLES lock,        \* 0 = free, C = the client, d \in Draws = a drawing goroutine
          active, tokens,
          cpc, left,   \* client program counter, finishes still to report
          dpc,         \* drawing goroutine: "unborn" | "loop" | "wantlock" | "drawing" | "dead"
          born         \* number of drawing goroutines started so far
vars == <<lock, active, tokens, cpc, left, dpc, born>>

Init == /\ lock = 0 /\ active = TRUE /\ tokens = 0
        /\ cpc = "idle" /\ left = Finishes
        /\ dpc = [d \in Draws |-> IF d = 1 THEN "loop" ELSE "unborn"] /\ born = 1   \* add() started the spinner

\* ---- the client ----
Begin == /\ cpc = "idle" /\ left > 0
         /\ cpc' = (IF Client = "restart" THEN "stopLock" ELSE "lineLock")
         /\ UNCHANGED <<lock, active, tokens, left, dpc, born>>
\* Stop()
StopLock == /\ cpc = "stopLock" /\ lock = 0 /\ lock' = C /\ cpc' = "stopBody"
            /\ UNCHANGED <<active, tokens, left, dpc, born>>
StopBody == /\ cpc = "stopBody"
            /\ IF active THEN tokens < 1 /\ tokens' = tokens + 1 /\ active' = FALSE   \* blocks while the channel is full
                         ELSE UNCHANGED <<tokens, active>>
            /\ lock' = 0 /\ cpc' = "startLock"
            /\ UNCHANGED <<left, dpc, born>>
\* Start()
StartLock == /\ cpc = "startLock" /\ lock = 0 /\ lock' = C /\ cpc' = "startBody"
             /\ UNCHANGED <<active, tokens, left, dpc, born>>
StartBody == /\ cpc = "startBody"
             /\ IF active THEN UNCHANGED <<active, dpc, born>>
                ELSE /\ born < MaxDraw
                     /\ active' = TRUE /\ born' = born + 1 /\ dpc' = [dpc EXCEPT ![born + 1] = "loop"]
             /\ lock' = 0 /\ cpc' = "idle" /\ left' = left - 1
             /\ UNCHANGED tokens
\* the fixed client: Lock(); print; Unlock()
LineLock == /\ cpc = "lineLock" /\ lock = 0 /\ lock' = C /\ cpc' = "lineBody"
            /\ UNCHANGED <<active, tokens, left, dpc, born>>
LineBody == /\ cpc = "lineBody" /\ lock' = 0 /\ cpc' = "idle" /\ left' = left - 1
            /\ UNCHANGED <<active, tokens, dpc, born>>

\* ---- a drawing goroutine ----
Select(d) == /\ dpc[d] = "loop"
             /\ IF tokens > 0 THEN tokens' = tokens - 1 /\ dpc' = [dpc EXCEPT ![d] = "dead"]
                              ELSE UNCHANGED tokens /\ dpc' = [dpc EXCEPT ![d] = "wantlock"]
             /\ UNCHANGED <<lock, active, cpc, left, born>>
TakeLock(d) == /\ dpc[d] = "wantlock" /\ lock = 0 /\ lock' = d
               /\ dpc' = [dpc EXCEPT ![d] = IF active THEN "drawing" ELSE "dead"]   \* returns with the lock held
               /\ UNCHANGED <<active, tokens, cpc, left, born>>
Frame(d) == /\ dpc[d] = "drawing" /\ lock' = 0 /\ dpc' = [dpc EXCEPT ![d] = "loop"]
            /\ UNCHANGED <<active, tokens, cpc, left, born>>

Done == cpc = "idle" /\ left = 0
ClientStep == Begin \/ StopLock \/ StopBody \/ StartLock \/ StartBody \/ LineLock \/ LineBody
Next == ClientStep \/ \E d \in Draws : Select(d) \/ TakeLock(d) \/ Frame(d)
\* the drawing goroutines are fair individually; the client's lock acquisitions are strongly fair
\* (a sync.Mutex in starvation mode hands the lock to the longest waiter)
Spec == Init /\ [][Next]_vars
             /\ SF_vars(StopLock) /\ SF_vars(StartLock) /\ SF_vars(LineLock)
             /\ WF_vars(Begin) /\ WF_vars(StopBody) /\ WF_vars(StartBody) /\ WF_vars(LineBody)
             /\ \A d \in Draws : WF_vars(Select(d)) /\ WF_vars(TakeLock(d)) /\ WF_vars(Frame(d))

\* no goroutine that has returned still holds the lock
NoLockLeak == \A d \in Draws : dpc[d] = "dead" => lock # d
\* every task's "Finished" line is eventually reported
AllReported == <>Done
=============================================================================
