---------------------------- MODULE Refs ----------------------------
(* C18: a configuration that loads has no dangling references.                          *)
(* internal/config: buildFromDefinition / buildPipeline / buildWatcher /                 *)
(* checkPipelineInclusion.  A base configuration (3 pipelines, 7 stages, 1 watcher) is    *)
(* mutated at exactly one reference; WellFormed is the statement, Accept transcribes the  *)
(* checks the loader performs, in the order it performs them.                            *)
EXTENDS Naturals, Sequences, FiniteSets, TLC, Json
Tasks == {"t1", "t2", "t3"}
\* stage: [name, task, pipe, deps]  (task = "" means a pipeline stage)
St(n, t, p, d) == [name |-> n, task |-> t, pipe |-> p, deps |-> d]
Base == [pipes |-> [p1 |-> <<St("a", "t1", "", {}), St("b", "t2", "", {"a"}), St("c", "", "p2", {"b"})>>,
                    p2 |-> <<St("d", "t1", "", {}), St("e", "t3", "", {"d"})>>,
                    p3 |-> <<St("f", "t2", "", {}), St("g", "t3", "", {"f"})>>,
                    p4 |-> <<St("h", "t1", "", {}), St("k", "t2", "", {})>>],
         wtask |-> "t1"]
PNames == {"p1", "p2", "p3", "p4"}
Pos == {<<p, i>> : p \in PNames, i \in 1..3}
ValidPos == {x \in Pos : x[2] <= Len(Base.pipes[x[1]])}
\* mutations: <<kind, pipeline, index, extra>>
Muts == {<<"none", "p1", 1, "">>}
   \cup {<<"task", x[1], x[2], "">> : x \in {y \in ValidPos : Base.pipes[y[1]][y[2]].task # ""}}
   \cup {<<"pipe", x[1], x[2], "">> : x \in {y \in ValidPos : Base.pipes[y[1]][y[2]].task = ""}}
   \cup {<<"dep", x[1], x[2], w>> : x \in {y \in ValidPos : Base.pipes[y[1]][y[2]].deps # {}}, w \in {"unknown", "other"}}
   \* an unknown name NEXT TO a valid one in the same depends_on list (written before or after it, the valid
   \* one declared earlier or later: the harness renders every arrangement)
   \cup {<<"depmix", x[1], x[2], "">> : x \in {y \in ValidPos : Base.pipes[y[1]][y[2]].deps # {}}}
   \cup {<<"dup", x[1], x[2], "">> : x \in {y \in ValidPos : y[2] > 1}}
   \cup {<<"watcher", "p1", 1, "">>}
   \* a stage without a name is called after its task (or pipeline): clashes through defaulted names
   \cup {<<"defname", "p4", 1, w>> : w \in {"ok", "both", "explicit"}}
   \cup {<<"cycle", "p2", 1, w>> : w \in {"1", "2", "3", "2x"}}
   \* a stage that names a task AND a pipeline is a task stage (the task wins): naming its own pipeline is harmless
   \cup {<<"both", "p4", 1, "">>}
   \* `task:` naming something that is a pipeline, not a task (closing an inclusion cycle, or not)
   \cup {<<"taskpipe", "p2", 1, w>> : w \in {"self", "other"}}
   \* a stage that refers to nothing at all (with and without a name of its own)
   \cup {<<"noref", "p4", 1, w>> : w \in {"named", "unnamed"}}
   \* depends_on naming a stage by its DEFAULT name (the task's / the included pipeline's name): well formed
   \cup {<<"defdep", "p4", 1, w>> : w \in {"task", "pipe"}}
   \* a pipeline declared under the empty name: a stage without task and pipeline then names IT. "self": its own
   \* stage does (it includes itself); "inc": a stage of p4 does (well formed: p4 runs what the pipeline "" runs);
   \* "loop": p4 includes "" and "" includes p4
   \cup {<<"emptyname", "p4", 1, w>> : w \in {"self", "inc", "loop"}}
VARIABLE mut
Init == mut \in Muts
Next == UNCHANGED mut
OtherStage(p) == IF p = "p1" THEN "d" ELSE "a"          \* the name of a stage of another pipeline
Apply(m) ==
  LET k == m[1]  p == m[2]  i == m[3]
      upd(f, v) == [Base EXCEPT !.pipes[p][i] = [@ EXCEPT ![f] = v]]
  IN CASE k = "task" -> upd("task", "nosuch")
       [] k = "pipe" -> upd("pipe", "nosuch")
       [] k = "dep" -> upd("deps", {IF m[4] = "unknown" THEN "nosuch" ELSE OtherStage(p)})
       [] k = "depmix" -> upd("deps", Base.pipes[p][i].deps \cup {"nosuch"})
       [] k = "dup" -> upd("name", Base.pipes[p][1].name)
       [] k = "watcher" -> [Base EXCEPT !.wtask = "nosuch"]
       [] k = "both" -> [Base EXCEPT !.pipes["p4"][1].pipe = "p4"]
       [] k = "taskpipe" -> (IF m[4] = "self" THEN [Base EXCEPT !.pipes["p2"] = Append(@, St("x", "p2", "", {}))]
                                              ELSE [Base EXCEPT !.pipes["p2"] = Append(@, St("x", "p4", "", {}))])
       [] k = "noref" -> [Base EXCEPT !.pipes["p4"] = Append(@, St(IF m[4] = "named" THEN "z" ELSE "", "", "", {}))]
       [] k = "emptyname" ->
            (CASE m[4] = "self" -> [Base EXCEPT !.pipes = @ @@ ("" :> <<St("x", "", "", {})>>)]
               [] m[4] = "inc" -> [Base EXCEPT !.pipes = [@ EXCEPT !["p4"] = Append(@, St("z", "", "", {}))] @@ ("" :> <<St("m", "t3", "", {})>>)]
               [] OTHER -> [Base EXCEPT !.pipes = [@ EXCEPT !["p4"] = Append(@, St("z", "", "", {}))] @@ ("" :> <<St("m", "", "p4", {})>>)])
       [] k = "defdep" -> (IF m[4] = "task" THEN [Base EXCEPT !.pipes["p4"] = <<St("", "t1", "", {}), St("k", "t2", "", {"t1"})>>]
                                            ELSE [Base EXCEPT !.pipes["p4"] = <<St("", "", "p3", {}), St("k", "t2", "", {"p3"})>>])
       [] k = "defname" -> (CASE m[4] = "ok" -> [Base EXCEPT !.pipes["p4"][1].name = ""]                       \* called t1: no clash
                              [] m[4] = "both" -> [Base EXCEPT !.pipes["p4"] = <<St("", "t1", "", {}), St("", "t1", "", {})>>]
                              [] OTHER -> [Base EXCEPT !.pipes["p4"] = <<St("t2", "t1", "", {}), St("", "t2", "", {})>>])
       [] k = "cycle" -> (CASE m[4] = "1" -> [Base EXCEPT !.pipes["p2"] = Append(@, St("x", "", "p2", {}))]
                            [] m[4] = "2" -> [Base EXCEPT !.pipes["p2"] = Append(@, St("x", "", "p3", {})),
                                                          !.pipes["p3"] = Append(@, St("y", "", "p2", {}))]
                            \* a 2-cycle whose member also includes an acyclic pipeline in two stages
                            [] m[4] = "2x" -> [Base EXCEPT !.pipes["p2"] = @ \o <<St("x", "", "p3", {}), St("u", "", "p4", {}), St("v", "", "p4", {})>>,
                                                           !.pipes["p3"] = Append(@, St("y", "", "p2", {}))]
                            [] OTHER -> [Base EXCEPT !.pipes["p2"] = Append(@, St("x", "", "p3", {})),
                                                     !.pipes["p3"] = Append(@, St("y", "", "p1", {}))])
       [] OTHER -> Base
Cfg == Apply(mut)
StagesOf(c, p) == {c.pipes[p][i] : i \in DOMAIN c.pipes[p]}
EffName(s) == IF s.name # "" THEN s.name ELSE IF s.task # "" THEN s.task ELSE s.pipe
NamesOf(c, p) == {EffName(s) : s \in StagesOf(c, p)}
Includes(c, p) == {s.pipe : s \in {t \in StagesOf(c, p) : t.task = ""}}
RECURSIVE ReachP(_, _, _)
PN(c) == DOMAIN c.pipes                                  \* the declared pipelines (PNames, and "" in some mutations)
ReachP(c, S, k) == IF k = 0 THEN S ELSE ReachP(c, S \cup UNION {Includes(c, q) : q \in S \cap PN(c)}, k - 1)
\* --- the statement ---
WellFormed(c) ==
  /\ \A p \in PN(c) : \A s \in StagesOf(c, p) :
        /\ (s.task # "" => s.task \in Tasks) /\ (s.task = "" => s.pipe \in PN(c))
        /\ s.deps \subseteq NamesOf(c, p)
  /\ \A p \in PN(c) : Cardinality(NamesOf(c, p)) = Len(c.pipes[p])
  /\ c.wtask \in Tasks
  /\ \A p \in PN(c) : p \notin ReachP(c, Includes(c, p), 4)
Expected == WellFormed(Cfg)
Emit == PrintT(<<"REF", ToJson([mut |-> mut, cfg |-> Cfg, wellformed |-> Expected])>>)
\* sanity of the mutation table itself: only the unmutated configuration is well formed
OnlyBaseWellFormed == Expected <=> (mut[1] \in {"none", "both", "defdep"} \/ (mut[1] = "defname" /\ mut[4] = "ok")
                                                                             \/ (mut[1] = "emptyname" /\ mut[4] = "inc"))
=====================================================================
