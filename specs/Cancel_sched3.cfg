CONSTANTS
  NR = 3
  NC = 2
  NCmd = 2
  Hooks = FALSE
  Fixed = TRUE
  UseSched = TRUE
  CondErr = TRUE
SPECIFICATION Spec
INVARIANTS NoPanic NoStartAfterCancel InterruptedReportsError DoneHasResult CancelReturnedMeansIdle InflightIsCount
PROPERTIES CancelReturns ScheduleReturns FlatRefinement
CHECK_DEADLOCK FALSE
