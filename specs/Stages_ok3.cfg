CONSTANTS
  NS = 3
  Pinned = FALSE
SPECIFICATION Spec
INVARIANTS Isolation NoResidue
CHECK_DEADLOCK FALSE
