CONSTANTS
  NR = 2
  NC = 2
  NCmd = 2
  Hooks = TRUE
  Fixed = TRUE
  UseSched = FALSE
  CondErr = FALSE
SPECIFICATION GSpec
INVARIANTS NoPanic NoStartAfterCancel InterruptedReportsError Emit
PROPERTIES Finishes
CHECK_DEADLOCK FALSE
