---------------------------- MODULE Stages ----------------------------
(* C08: per-stage overrides stay with their stage.                                     *)
(* One task object T (own env A and V, own variables B and w, own dir) is referenced by *)
(* NS stages; stage s may override V (env), w (variables) and dir.  Intended:           *)
(* View(s) = T0 overlaid with the overrides of s; T itself never changes.               *)
(*   pkg/scheduler/stage.go task(): copy of the task owned by the stage (current tree)  *)
(*   Pinned = TRUE: scheduler.go runStage of the pinned tree mutated T (env merged into *)
(*   T.Env; T.Variables := T.Env.Merge(stage.Variables), losing the task's variables)   *)
(*   and pipeline.go wrote the stage dir into T at load time - negative control.        *)
EXTENDS Naturals, FiniteSets, Sequences, TLC
CONSTANTS NS, Pinned
Stages == 1..NS
Fields == {"env", "vars", "dir"}
VARIABLES ov, deps, shared, ownVars, view, viewOwn, st, direct
vars == <<ov, deps, shared, ownVars, view, viewOwn, st, direct>>
T0 == [f \in Fields |-> 0]
\* last declared stage with a dir wins at load time in the pinned tree
LoadDir(o) == IF Pinned /\ \E s \in Stages : "dir" \in o[s]
                THEN CHOOSE s \in Stages : "dir" \in o[s] /\ \A t \in Stages : "dir" \in o[t] => t <= s ELSE 0
Init == /\ ov \in [Stages -> SUBSET Fields]
        /\ deps \in {f \in [Stages -> SUBSET Stages] : \A s \in Stages : \A d \in f[s] : d < s}
        /\ shared = [T0 EXCEPT !["dir"] = LoadDir(ov)]
        /\ ownVars = TRUE                          \* the task's own variable B is still defined on T
        /\ view = [s \in Stages |-> T0] /\ viewOwn = [s \in Stages |-> TRUE]
        /\ st = [s \in Stages |-> "waiting"] /\ direct = "none"
\* runStage: the task as the stage hands it to the Runner
Start(s) == /\ st[s] = "waiting" /\ \A d \in deps[s] : st[d] = "done"
            /\ LET nv == [f \in Fields |-> IF f \in ov[s] THEN s ELSE shared[f]]
                   lost == Pinned /\ "vars" \in ov[s]
               IN /\ view' = [view EXCEPT ![s] = nv]
                  /\ viewOwn' = [viewOwn EXCEPT ![s] = ownVars /\ ~lost]
                  /\ shared' = IF Pinned THEN [nv EXCEPT !["dir"] = shared["dir"]] ELSE shared
                  /\ ownVars' = (ownVars /\ ~lost)
            /\ st' = [st EXCEPT ![s] = "running"]
            /\ UNCHANGED <<ov, deps, direct>>
Finish(s) == /\ st[s] = "running" /\ st' = [st EXCEPT ![s] = "done"]
             /\ UNCHANGED <<ov, deps, shared, ownVars, view, viewOwn, direct>>
\* afterwards the task is run directly (another pipeline / `taskctl p t`)
Direct == /\ direct = "none" /\ \A s \in Stages : st[s] = "done"
          /\ direct' = IF shared = T0 /\ ownVars THEN "clean" ELSE "dirty"
          /\ UNCHANGED <<ov, deps, shared, ownVars, view, viewOwn, st>>
Next == (\E s \in Stages : Start(s) \/ Finish(s)) \/ Direct
Spec == Init /\ [][Next]_vars
Isolation == \A s \in Stages : st[s] # "waiting" =>
                /\ \A f \in Fields : view[s][f] = IF f \in ov[s] THEN s ELSE 0
                /\ viewOwn[s]
NoResidue == direct # "dirty"
=======================================================================
