CONSTANTS
  NR = 3
  NC = 1
  NCmd = 2
  Hooks = TRUE
  Fixed = TRUE
  UseSched = TRUE
  CondErr = TRUE
SPECIFICATION GSpec
INVARIANTS NoPanic NoStartAfterCancel InterruptedReportsError Emit
PROPERTIES Finishes
CHECK_DEADLOCK FALSE
