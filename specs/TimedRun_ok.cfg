CONSTANTS
  T = 3
  MaxJ = 3
  PerTask = FALSE
SPECIFICATION Spec
INVARIANTS Bounded FullTimeoutEach FailsOnExpiry
PROPERTY Terminates
CHECK_DEADLOCK FALSE
