---------------------------- MODULE TaskRun ----------------------------
(* one execution of TaskRunner.Run (pkg/runner/runner.go:94-180) *)
EXTENDS Naturals, Sequences, FiniteSets, TLC
CONSTANTS MaxV, MinC, MaxC,
          Ks,          \* the non-zero exit statuses failing commands may use
          Hook,        \* subset of {"none", "ok", "fail", "okok", "okfail", "failok"}: the commands of the before / after hook
          Conds,       \* subset of {"none", "true", "false"}
          MaxFail      \* at most this many failing positions
VARIABLES nb, na, cond, nv, nc, allow, F, K,              \* configuration
          pc, pos, trace, ret, errored, exitCode, skipped, stored
cfgv == <<nb, na, cond, nv, nc, allow, F, K>>
vars == <<nb, na, cond, nv, nc, allow, F, K, pc, pos, trace, ret, errored, exitCode, skipped, stored>>

Init == /\ nb \in Hook /\ na \in Hook /\ cond \in Conds
        /\ nv \in 1..MaxV /\ nc \in MinC..MaxC /\ allow \in BOOLEAN
        /\ F \in {S \in SUBSET ((1..nv) \X (1..nc)) : Cardinality(S) <= MaxFail}
        /\ K \in Ks /\ (F = {} => K = CHOOSE k \in Ks : TRUE)
        /\ pc = "cond" /\ pos = <<1, 1>> /\ trace = <<>> /\ ret = "nil"
        /\ errored = FALSE /\ exitCode = 0 - 1 /\ skipped = FALSE /\ stored = FALSE

\* the commands of a hook shape, in order
HSeq(h) == CASE h = "none" -> <<>> [] h = "ok" -> <<"ok">> [] h = "fail" -> <<"fail">>
             [] h = "okok" -> <<"ok", "ok">> [] h = "okfail" -> <<"ok", "fail">> [] OTHER -> <<"fail", "ok">>
HasFail(h) == \E i \in DOMAIN HSeq(h) : HSeq(h)[i] = "fail"
FirstFailIdx(h) == CHOOSE i \in DOMAIN HSeq(h) : HSeq(h)[i] = "fail" /\ \A j \in 1..(i - 1) : HSeq(h)[j] = "ok"
HookToks(tag, n) == [i \in 1..n |-> <<tag, i>>]
Keep(S) == UNCHANGED S
\* runner.go checkTaskCondition: any non-zero exit status of the condition (K) skips the task
Cond == /\ pc = "cond"
        /\ IF cond = "false" THEN skipped' = TRUE /\ pc' = "deferred" ELSE skipped' = skipped /\ pc' = "before"
        /\ UNCHANGED <<cfgv, pos, trace, ret, errored, exitCode, stored>>
\* runner.go before(): the commands in order, the first failing one ends the task with an error
Before == /\ pc = "before"
          /\ IF HasFail(nb)
               THEN pc' = "deferred" /\ trace' = trace \o HookToks("b", FirstFailIdx(nb)) /\ ret' = "err"
               ELSE pc' = "jobs" /\ trace' = trace \o HookToks("b", Len(HSeq(nb))) /\ UNCHANGED ret
          /\ UNCHANGED <<cfgv, pos, errored, exitCode, skipped, stored>>
NextPos == IF pos[2] < nc THEN <<pos[1], pos[2] + 1>> ELSE <<pos[1] + 1, 1>>
LastPos == pos = <<nv, nc>>
\* runner.go:344-374 one iteration of the job loop (variations-major list from compiler.go:43-73)
Job == /\ pc = "jobs"
       /\ IF nc = 0 THEN pc' = "store" /\ UNCHANGED <<pos, trace, ret, errored, exitCode>>
          ELSE /\ trace' = Append(trace, <<"j", pos[1], pos[2]>>)
               /\ IF pos \in F
                    THEN /\ exitCode' = K
                         /\ IF allow THEN /\ UNCHANGED <<ret, errored>>
                                          /\ IF LastPos THEN pc' = "store" /\ pos' = pos ELSE pc' = "jobs" /\ pos' = NextPos
                                     ELSE errored' = TRUE /\ ret' = "err" /\ pc' = "deferred" /\ pos' = pos
                    ELSE /\ UNCHANGED <<ret, errored, exitCode>>
                         /\ IF LastPos THEN pc' = "store" /\ pos' = pos ELSE pc' = "jobs" /\ pos' = NextPos
       /\ UNCHANGED <<cfgv, skipped, stored>>
\* runner.go:177
Store == /\ pc = "store" /\ stored' = TRUE /\ pc' = "after"
         /\ UNCHANGED <<cfgv, pos, trace, ret, errored, exitCode, skipped>>
\* runner.go:179, 241-269 (failures only logged)
After == /\ pc = "after"
         /\ trace' = trace \o HookToks("a", Len(HSeq(na)))              \* every after command is attempted
         /\ pc' = "deferred"
         /\ UNCHANGED <<cfgv, pos, ret, errored, exitCode, skipped, stored>>
\* runner.go:125-139
Deferred == /\ pc = "deferred"
            /\ exitCode' = IF ~errored /\ ~skipped THEN 0 ELSE exitCode
            /\ pc' = "done"
            /\ UNCHANGED <<cfgv, pos, trace, ret, errored, skipped, stored>>
Next == Cond \/ Before \/ Job \/ Store \/ After \/ Deferred
Spec == Init /\ [][Next]_vars /\ WF_vars(Next)

------------------------------------------------------------------------
\* C06 / C07 as stated, independent of the step structure above
RECURSIVE JobsFrom(_, _)
JobsFrom(v, c) == IF nc = 0 \/ v > nv THEN <<>>
                  ELSE <<<<"j", v, c>>>> \o (IF c < nc THEN JobsFrom(v, c + 1) ELSE JobsFrom(v + 1, 1))
AllJobs == JobsFrom(1, 1)
FullOrder == HookToks("b", Len(HSeq(nb))) \o AllJobs \o HookToks("a", Len(HSeq(na)))
IsPrefix(s, t) == Len(s) <= Len(t) /\ \A i \in 1..Len(s) : s[i] = t[i]
FailIdx == {i \in 1..Len(AllJobs) : <<AllJobs[i][2], AllJobs[i][3]>> \in F}
FirstFail == CHOOSE i \in FailIdx : \A j \in FailIdx : i <= j
Done == pc = "done"
Normal == cond # "false" /\ ~HasFail(nb)
OrderKept == IsPrefix(trace, FullOrder)
CondFalseSkips == (Done /\ cond = "false") => trace = <<>> /\ skipped /\ ret = "nil" /\ exitCode = 0 - 1 /\ ~errored
BeforeFailBlocks == (Done /\ cond # "false" /\ HasFail(nb)) => trace = HookToks("b", FirstFailIdx(nb)) /\ ret = "err"
StopsAtFirstFailure == (Done /\ Normal /\ ~allow /\ FailIdx # {}) =>
      /\ trace = HookToks("b", Len(HSeq(nb))) \o SubSeq(AllJobs, 1, FirstFail)
      /\ ret = "err" /\ errored /\ exitCode = K /\ ~stored
RunsAll == (Done /\ Normal /\ (allow \/ FailIdx = {})) =>
      /\ trace = FullOrder /\ ret = "nil" /\ ~errored /\ exitCode = 0 /\ stored
ErrIffFailed == Done => ((ret = "err") <=> (Normal /\ ~allow /\ FailIdx # {}) \/ (cond # "false" /\ HasFail(nb)))
Terminates == <>Done

\* C07 as stated: the recorded exit status
ExitCodeFaithful == Done =>
      /\ (skipped => exitCode = 0 - 1 /\ ~errored)
      /\ (errored => exitCode = K)
      /\ (~errored /\ ~skipped /\ ret = "nil" => exitCode = 0)
=========================================================================
