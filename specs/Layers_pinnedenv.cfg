CONSTANTS
  EmptyYields = FALSE
  PinnedEnv = TRUE
  Accumulate = FALSE
  PinnedVars = FALSE
INIT Init
NEXT Next
INVARIANT ImplEqualsResolve
CHECK_DEADLOCK FALSE
