CONSTANTS
  EmptyYields = FALSE
  PinnedEnv = FALSE
  Accumulate = TRUE
  PinnedVars = FALSE
INIT Init
NEXT Next
INVARIANT ImplEqualsResolve
CHECK_DEADLOCK FALSE
