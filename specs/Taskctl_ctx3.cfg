CONSTANTS
  N = 3
  MaxCmd = 1
  MaxVar = 1
  NCtx = 2
  HookKinds = {"none"}
SPECIFICATION Spec
INVARIANTS CommandsAfterDependencies StopsAtFailure FinalOK RunOnlyWhileStageRunning UpBeforeUse DownAfterAll OneUpAtATime
PROPERTY Terminates
CHECK_DEADLOCK FALSE
