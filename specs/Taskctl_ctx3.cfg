CONSTANTS
  N = 3
  MaxCmd = 1
  MaxVar = 1
  NCtx = 2
  Nesting = FALSE
  TaskAllow = FALSE
  AtomicLaunch = TRUE
  CondErr = FALSE
  ErrFirst = TRUE
  HookKinds = {"none"}
SPECIFICATION Spec
INVARIANTS CommandsAfterDependencies StopsAtFailure FinalOK RunOnlyWhileStageRunning UpBeforeUse DownAfterAll OneUpAtATime NothingRunsAtReturn NoDoubleLaunch
PROPERTY Terminates
CHECK_DEADLOCK FALSE
