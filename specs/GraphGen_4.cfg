CONSTANT N = 4
INIT GInit
NEXT Next
INVARIANT Emit
CHECK_DEADLOCK FALSE
