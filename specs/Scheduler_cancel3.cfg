CONSTANTS
  N = 3
  Classes = {"OK","FAIL","FAILA","CFALSE","CERR"}
  Nested = FALSE
  CallerCancels = TRUE
  Mode = "normal"
SPECIFICATION Spec
INVARIANTS FinalOK NoneLeft AtMostOnce DepsFinished NothingRunsAtReturn QuiescentIsClosure
PROPERTY Terminates FlatRefinement
CHECK_DEADLOCK FALSE
