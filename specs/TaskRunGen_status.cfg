CONSTANTS
  MaxV = 1
  MinC = 3
  MaxC = 3
  Ks <- AllStatuses
  Hook = {"none"}
  Conds = {"none","false"}
  MaxFail = 1
SPECIFICATION Spec
INVARIANTS OrderKept CondFalseSkips BeforeFailBlocks StopsAtFirstFailure RunsAll ErrIffFailed ExitCodeFaithful Emit
PROPERTY Terminates
CHECK_DEADLOCK FALSE
