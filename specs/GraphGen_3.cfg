CONSTANT N = 3
INIT GInit
NEXT Next
INVARIANT Emit
CHECK_DEADLOCK FALSE
