---------------------------- MODULE ImportsGen ----------------------------
(* C17: every import graph over NF files x one broken file, with the intended result:    *)
(* the set of files whose definitions must be present (the closure through healthy files) *)
(* and whether loading must fail.                                                        *)
EXTENDS Imports, Json
GInit == Init
GNext == UNCHANGED vars
Broken == \E f \in Closure : health[f] # "ok"
Emit == PrintT(<<"IMP", ToJson([nf |-> NF, imports |-> imports, health |-> health, closure |-> Closure, fails |-> Broken])>>)
===========================================================================
