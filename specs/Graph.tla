---------------------------- MODULE Graph ----------------------------
(* C05: pkg/scheduler/graph.go AddStage / addEdge / cycleDfs, and the declaration order *)
(* in which internal/config/pipeline.go feeds stages to it.                             *)
(* Two definitions of "has a cycle" are compared over the whole bounded domain:         *)
(*   Cyclic   - intended: some stage reaches itself in the depends_on relation;         *)
(*   ImplErr  - implementation-shaped: stages added in declaration order, every         *)
(*              dependency edge inserted and followed by the DFS of graph.go.           *)
(* ImplErr(FALSE) transcribes the detector of the pinned tree (visited set only; it     *)
(* reports re-convergent DAGs as cyclic - kept as a negative control), ImplErr(TRUE)    *)
(* the repaired one (on-path set + finished set), which is what the code is bound to.   *)
EXTENDS Naturals, FiniteSets, Sequences, TLC
CONSTANT N
Nodes == 1..N
VARIABLES deps, ord
vars == <<deps, ord>>

Perms == {p \in [1..N -> Nodes] : \A i, j \in 1..N : i # j => p[i] # p[j]}
SetToSeq(S) == LET RECURSIVE F(_) 
                   F(T) == IF T = {} THEN <<>> ELSE LET m == CHOOSE x \in T : \A y \in T : x <= y IN <<m>> \o F(T \ {m})
               IN F(S)

\* intended: a cycle in the relation d -> s (d in deps[s])
Succ(S) == {s \in Nodes : \E d \in S : d \in deps[s]}
RECURSIVE ReachFrom(_, _)
ReachFrom(S, k) == IF k = 0 THEN S ELSE ReachFrom(S \cup Succ(S), k - 1)
Cyclic == \E n \in Nodes : n \in ReachFrom(Succ({n}), N)

\* implementation-shaped: graph.go AddStage / addEdge / cycleDfs (visited set only)
RECURSIVE Dfs(_, _, _), DfsList(_, _, _)
Dfs(from, t, vis) == IF t \in vis THEN <<TRUE, vis>> ELSE DfsList(from, from[t], vis \cup {t})
DfsList(from, seq, vis) == IF seq = <<>> THEN <<FALSE, vis>>
                           ELSE LET r == Dfs(from, Head(seq), vis) IN IF r[1] THEN r ELSE DfsList(from, Tail(seq), r[2])

\* repaired: on-stack detection
RECURSIVE Dfs2(_, _, _, _), DfsList2(_, _, _, _)
Dfs2(from, t, stack, done) == IF t \in stack THEN <<TRUE, done>> ELSE IF t \in done THEN <<FALSE, done>>
                              ELSE LET r == DfsList2(from, from[t], stack \cup {t}, done) IN <<r[1], r[2] \cup {t}>>
DfsList2(from, seq, stack, done) == IF seq = <<>> THEN <<FALSE, done>>
                           ELSE LET r == Dfs2(from, Head(seq), stack, done) IN IF r[1] THEN r ELSE DfsList2(from, Tail(seq), stack, r[2])

RECURSIVE AddEdges(_, _, _, _), AddStages(_, _, _)
\* returns <<err, from>>
AddEdges(from, s, ds, fixed) ==
   IF ds = <<>> THEN <<FALSE, from>>
   ELSE LET d == Head(ds)
            f2 == [from EXCEPT ![d] = Append(@, s)]
            e == IF fixed THEN Dfs2(f2, s, {}, {})[1] ELSE Dfs(f2, s, {})[1]
        IN IF e THEN <<TRUE, f2>> ELSE AddEdges(f2, s, Tail(ds), fixed)
AddStages(from, i, fixed) ==
   IF i > N THEN FALSE
   ELSE LET s == ord[i]
            r == AddEdges(from, s, SetToSeq(deps[s]), fixed)
        IN IF r[1] THEN TRUE ELSE AddStages(r[2], i + 1, fixed)
ImplErr(fixed) == AddStages([n \in Nodes |-> <<>>], 1, fixed)

Init == deps \in [Nodes -> SUBSET Nodes] /\ ord \in Perms
Next == UNCHANGED vars
IffPinned == ImplErr(FALSE) = Cyclic
IffFixed  == ImplErr(TRUE) = Cyclic

\* "An accepted pipeline exposes exactly the declared dependency edges"
\* (To(s) lists the dependencies of s in declaration order, From(d) the dependants of d)
RECURSIVE FinalFrom(_, _)
FinalFrom(from, i) ==
   IF i > N THEN from
   ELSE LET s == ord[i]
            RECURSIVE Add(_, _)
            Add(f, ds) == IF ds = <<>> THEN f ELSE Add([f EXCEPT ![Head(ds)] = Append(@, s)], Tail(ds))
        IN FinalFrom(Add(from, SetToSeq(deps[s])), i + 1)
Range(q) == {q[i] : i \in DOMAIN q}
EdgesExact == ~Cyclic => \A d \in Nodes : Range(FinalFrom([n \in Nodes |-> <<>>], 1)[d]) = {s \in Nodes : d \in deps[s]}
=======================================================================
