CONSTANTS
  PinnedEnv = FALSE
  Accumulate = FALSE
  PinnedVars = TRUE
INIT Init
NEXT Next
INVARIANT ImplEqualsResolve
CHECK_DEADLOCK FALSE
