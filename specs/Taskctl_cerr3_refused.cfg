CONSTANTS
  N = 3
  MaxCmd = 2
  MaxVar = 1
  NCtx = 0
  Nesting = FALSE
  TaskAllow = FALSE
  AtomicLaunch = TRUE
  CondErr = TRUE
  ErrFirst = TRUE
  HookKinds = {"none"}
INIT InitCErr
NEXT Next
INVARIANTS NeverRefused
CHECK_DEADLOCK FALSE
