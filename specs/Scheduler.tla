---------------------------- MODULE Scheduler ----------------------------
(* pkg/scheduler/scheduler.go: polling loop, checkStatus, stage goroutines,   *)
(* nested Schedule, Cancel.  One action per critical section of the code.     *)
EXTENDS Naturals, FiniteSets, Sequences, TLC

CONSTANTS N,          \* stages 1..N (canonical numbering: dependencies have smaller numbers)
          Classes,    \* subset of {"OK","FAIL","FAILA","CFALSE","CERR"}
          Nested,     \* BOOLEAN: one stage may run a nested pipeline (graph 1)
          CallerCancels, \* BOOLEAN: Scheduler.Cancel may be called from outside at any time
          Mode        \* "normal" | "barrier" | "serial"   (C04 variants)
Stages == 1..N
Graphs == {0, 1}

VARIABLES deps, cls, parent, inner,            \* configuration
          status, cancelled, gerr, pc, todo, clean, chgd, gor, ran, intr
cfgv == <<deps, cls, parent, inner>>
vars == <<deps, cls, parent, inner, status, cancelled, gerr, pc, todo, clean, chgd, gor, ran, intr>>

GraphOf(s) == IF s \in inner THEN 1 ELSE 0
StagesOf(g) == {s \in Stages : GraphOf(s) = g}
IsParent(s) == s = parent
Allow(s) == cls[s] = "FAILA"

Sat(st, d)     == st[d] \in {"D","S"} \/ (st[d] = "E" /\ Allow(d))
Blocked(st, d) == (st[d] = "E" /\ ~Allow(d)) \/ st[d] = "C"

\* the configuration: every DAG in canonical numbering, every class assignment, optionally one
\* stage (parent) that runs a nested pipeline made of the stages in inner
CfgInit ==
  /\ deps \in {f \in [Stages -> SUBSET Stages] : \A s \in Stages : \A d \in f[s] : d < s}
  /\ parent \in (IF Nested THEN Stages ELSE {0})
  /\ inner \in (IF Nested THEN (SUBSET (Stages \ {parent})) \ {{}} ELSE {{}})
  /\ \A s \in Stages : \A d \in deps[s] : GraphOf(d) = GraphOf(s)
  /\ cls \in [Stages -> Classes]
  /\ (Nested => cls[parent] \notin {"FAIL", "CERR"})   \* a pipeline stage fails iff its pipeline does

RunInit ==
  /\ status = [s \in Stages |-> "W"]
  /\ cancelled = FALSE /\ gerr = [g \in Graphs |-> FALSE]
  /\ pc = [g \in Graphs |-> IF g = 0 THEN "top" ELSE "idle"]
  /\ todo = [g \in Graphs |-> {}] /\ clean = [g \in Graphs |-> FALSE] /\ chgd = [g \in Graphs |-> FALSE]
  /\ gor = [s \in Stages |-> "none"] /\ ran = [s \in Stages |-> 0] /\ intr = {}

Init == CfgInit /\ RunInit

Dirty == [g \in Graphs |-> FALSE]
AllChanged == [g \in Graphs |-> TRUE]

\* scheduler.go:41-44  (isDone + cancelled check)
LoopTop(g) ==
  /\ pc[g] = "top"
  /\ IF (\A s \in StagesOf(g) : status[s] \notin {"W","R"}) \/ cancelled
       THEN pc' = [pc EXCEPT ![g] = "wait"] /\ todo' = [todo EXCEPT ![g] = {}]
       ELSE pc' = [pc EXCEPT ![g] = "pass"] /\ todo' = [todo EXCEPT ![g] = StagesOf(g)]
  /\ chgd' = [chgd EXCEPT ![g] = FALSE]
  /\ UNCHANGED <<cfgv, status, cancelled, gerr, clean, gor, ran, intr>>

SomeoneRunning == \E t \in Stages : gor[t] = "running" /\ ~IsParent(t)

\* The effect of one iteration of the range loop body (scheduler.go:47-92) on stage s, with
\* checkStatus (150-175) inlined.  Result: <<status', cancelled', launched>>.
\*   status # W: skipped by the loop; CERR: condition cannot be evaluated -> Error and Cancel;
\*   CFALSE: condition false -> Skipped *regardless of dependencies*; a blocked dependency ->
\*   Canceled; all dependencies satisfied -> Running and the goroutine is launched.
VisitOutcome(s) ==
  IF status[s] # "W" THEN <<status, cancelled, FALSE>>
  ELSE IF cls[s] = "CERR" THEN <<[status EXCEPT ![s] = "E"], TRUE, FALSE>>
  ELSE IF cls[s] = "CFALSE" THEN <<[status EXCEPT ![s] = "S"], cancelled, FALSE>>
  ELSE IF \E d \in deps[s] : Blocked(status, d) THEN <<[status EXCEPT ![s] = "C"], cancelled, FALSE>>
  ELSE IF (\A d \in deps[s] : Sat(status, d)) /\ (Mode = "serial" => ~SomeoneRunning)
       THEN <<[status EXCEPT ![s] = "R"], cancelled, TRUE>>
  ELSE <<status, cancelled, FALSE>>

\* scheduler.go:46-93 one iteration of the range loop
Visit(g, s) ==
  /\ pc[g] = "pass" /\ s \in todo[g]
  /\ LET last == todo[g] = {s}
         o == VisitOutcome(s)
         st == o[1]  go == o[3]
     IN
     /\ todo' = [todo EXCEPT ![g] = @ \ {s}]
     /\ status' = st /\ cancelled' = o[2]
     /\ gor' = IF go THEN [gor EXCEPT ![s] = "running"] ELSE gor
     /\ ran' = IF go /\ ~IsParent(s) THEN [ran EXCEPT ![s] = @ + 1] ELSE ran
     /\ pc' = IF go /\ IsParent(s)
                THEN [pc EXCEPT ![g] = IF last THEN "top" ELSE "pass", ![1] = "top"]
                ELSE [pc EXCEPT ![g] = IF last THEN "top" ELSE "pass"]
     /\ chgd' = IF st # status THEN AllChanged ELSE chgd
     /\ clean' = IF st # status THEN Dirty
                 ELSE IF last THEN [clean EXCEPT ![g] = ~chgd[g]] ELSE clean
  /\ UNCHANGED <<cfgv, gerr, intr>>

\* the pass-clean flag is reset by every status change; a pass that ends without change sets it
\* (in chg above: pass end is the Visit of the last stage; an empty graph cannot be scheduled)

\* closure of the loop with no task returning, from status function st
\* (canonical numbering makes the recursion well-founded; the nested graph is active while its
\* parent stage is Running)
RECURSIVE CSx(_, _)
ActiveX(st, g) == g = 0 \/ (parent # 0 /\ CSx(st, parent) = "R")
CSx(st, s) == IF st[s] # "W" THEN st[s]
         ELSE IF ~ActiveX(st, GraphOf(s)) THEN "W"
         ELSE IF cls[s] = "CERR" THEN "E"
         ELSE IF cls[s] = "CFALSE" THEN "S"
         ELSE IF \E d \in deps[s] : (CSx(st, d) = "E" /\ ~Allow(d)) \/ CSx(st, d) = "C" THEN "C"
         ELSE IF \A d \in deps[s] : CSx(st, d) \in {"D","S"} \/ (CSx(st, d) = "E" /\ Allow(d)) THEN "R"
         ELSE "W"
CS(s) == CSx(status, s)
BarrierOpen == \A t \in Stages : CS(t) = "R" => gor[t] = "running"

Finish(s, failed) ==
  /\ IF failed
       THEN /\ status' = [status EXCEPT ![s] = "E"]
            /\ IF Allow(s) THEN gor' = [gor EXCEPT ![s] = "fa"] /\ UNCHANGED gerr
                           ELSE gor' = [gor EXCEPT ![s] = "fin"] /\ gerr' = [gerr EXCEPT ![GraphOf(s)] = TRUE]
       ELSE status' = [status EXCEPT ![s] = "D"] /\ gor' = [gor EXCEPT ![s] = "fin"] /\ UNCHANGED gerr
  /\ clean' = Dirty /\ chgd' = AllChanged

\* runner.Run returned (scheduler.go:81-91); under cancellation the run may have been interrupted
TaskReturn(s) ==
  /\ gor[s] = "running" /\ ~IsParent(s)
  /\ Mode \in {"barrier","serial"} => BarrierOpen
  /\ \E failed \in (IF cancelled THEN {cls[s] \in {"FAIL","FAILA"}, TRUE} ELSE {cls[s] \in {"FAIL","FAILA"}}) :
        /\ Finish(s, failed)
        /\ intr' = IF failed /\ cls[s] = "OK" THEN intr \cup {s} ELSE intr
  /\ UNCHANGED <<cfgv, cancelled, pc, todo, ran>>

\* nested Schedule returned (scheduler.go:126-128)
SubReturn(s) ==
  /\ gor[s] = "running" /\ IsParent(s) /\ pc[1] = "ret"
  /\ Finish(s, gerr[1])
  /\ UNCHANGED <<cfgv, cancelled, pc, todo, ran, intr>>

\* second store of scheduler.go:91 after an allowed failure
PublishDone(s) ==
  /\ gor[s] = "fa"
  /\ status' = [status EXCEPT ![s] = "D"] /\ gor' = [gor EXCEPT ![s] = "fin"] /\ clean' = Dirty /\ chgd' = AllChanged
  /\ UNCHANGED <<cfgv, cancelled, gerr, pc, todo, ran, intr>>

\* wg.Wait + return LastError (scheduler.go:98-100)
Return(g) ==
  /\ pc[g] = "wait" /\ \A s \in StagesOf(g) : gor[s] \in {"none","fin"}
  /\ pc' = [pc EXCEPT ![g] = "ret"]
  /\ UNCHANGED <<cfgv, status, cancelled, gerr, todo, clean, chgd, gor, ran, intr>>

CallerCancel ==
  /\ CallerCancels /\ ~cancelled /\ pc[0] # "ret"
  /\ cancelled' = TRUE
  /\ UNCHANGED <<cfgv, status, gerr, pc, todo, clean, chgd, gor, ran, intr>>

Next == \/ \E g \in Graphs : LoopTop(g) \/ Return(g) \/ \E s \in StagesOf(g) : Visit(g, s)
        \/ \E s \in Stages : TaskReturn(s) \/ SubReturn(s) \/ PublishDone(s)
        \/ CallerCancel

Fairness == /\ \A g \in Graphs : WF_vars(LoopTop(g)) /\ WF_vars(Return(g))
            /\ \A g \in Graphs, s \in Stages : WF_vars(Visit(g, s))
            /\ \A s \in Stages : WF_vars(TaskReturn(s)) /\ WF_vars(SubReturn(s)) /\ WF_vars(PublishDone(s))
Spec == Init /\ [][Next]_vars /\ Fairness

-----------------------------------------------------------------------------
\* reference outcome (C02), independent of the algorithm
RECURSIVE Exp(_)
SubFails == \E t \in inner : Exp(t) = "E"
Exp(s) == IF cls[s] = "CFALSE" THEN "S"
          ELSE IF \E d \in deps[s] : Exp(d) \in {"E","C"} THEN "C"
          ELSE IF IsParent(s) THEN (IF SubFails /\ ~Allow(s) THEN "E" ELSE "D")
          ELSE CASE cls[s] = "OK" -> "D" [] cls[s] = "FAIL" -> "E" [] cls[s] = "FAILA" -> "D" [] OTHER -> "E"
\* stages of the nested graph only exist for the run if their parent actually runs
Reached(s) == GraphOf(s) = 0 \/ Exp(parent) \in {"D","E"}
ExpFinal(s) == IF Reached(s) THEN Exp(s) ELSE "W"

NoCondErr == \A s \in Stages : cls[s] # "CERR"
Finished == pc[0] = "ret"

FinalOK == (Finished /\ ~cancelled /\ NoCondErr) =>
              /\ \A s \in Stages : status[s] = ExpFinal(s)
              /\ gerr[0] = (\E s \in StagesOf(0) : ExpFinal(s) = "E")
              /\ \A s \in Stages : ran[s] = IF ~IsParent(s) /\ ExpFinal(s) \in {"D","E"} THEN 1 ELSE 0
NoneLeft   == (Finished /\ ~cancelled) => \A s \in Stages : status[s] \notin {"R"} /\ (status[s] = "W" => ~Reached(s))
AtMostOnce == \A s \in Stages : ran[s] <= 1
DepsFinished == \A s \in Stages : gor[s] = "running" =>
                   /\ \A d \in deps[s] : gor[d] \in {"fin","fa"} \/ status[d] = "S"
                   /\ (GraphOf(s) = 1 => gor[parent] = "running")
NothingRunsAtReturn == Finished => \A s \in Stages : gor[s] \in {"none","fin"}
Quiescent == /\ \A g \in Graphs : pc[g] \in {"top","pass"} => clean[g]
             /\ \A s \in Stages : gor[s] # "fa"
             /\ ~cancelled /\ NoCondErr /\ ~Finished
QuiescentIsClosure == Quiescent => \A s \in Stages : CS(s) = status[s]
Terminates == <>Finished
\* With Nested = FALSE this module refines SchedFlat.tla (loop control hidden), whose safety
\* theorems are proved for every number of stages with TLAPS.
Flat == INSTANCE SchedFlat
FlatRefinement == Flat!Spec
=============================================================================
