---------------------------- MODULE Args ----------------------------
(* C10 (arguments): cmd/taskctl taskArgs and the "--" loops of rootAction / run.        *)
(* argv = targets, then optionally "--" and the task arguments.  Everything after the    *)
(* FIRST "--" reaches tasks verbatim and in order (.ArgsList, .Args = joined by a blank, *)
(* $ARGS) and is never treated as a target.                                              *)
EXTENDS Naturals, Sequences, FiniteSets, TLC, Json
CONSTANTS MaxTargets, MaxArgs
Words == {"t1", "t2", "plain", "k=v", "-x", "--long", "--"}      \* classes of words after the separator
Targets == {"t1", "t2"}
VARIABLES targets, hasSep, args, i, dash
vars == <<targets, hasSep, args, i, dash>>
Argv == targets \o (IF hasSep THEN <<"--">> \o args ELSE <<>>)
Init == /\ targets \in UNION {[1..n -> Targets] : n \in 1..MaxTargets}
        /\ hasSep \in BOOLEAN
        /\ args \in (IF hasSep THEN UNION {[1..n -> Words] : n \in 0..MaxArgs} ELSE {<<>>})
        /\ i = 1 /\ dash = 0
\* taskArgs: scan for the separator (run.go)
Scan == /\ i <= Len(Argv) /\ dash = 0
        /\ IF Argv[i] = "--" THEN dash' = i /\ i' = Len(Argv) + 1 ELSE dash' = 0 /\ i' = i + 1
        /\ UNCHANGED <<targets, hasSep, args>>
Next == Scan
Spec == Init /\ [][Next]_vars /\ WF_vars(Next)
Done == i > Len(Argv)
ImplArgs == IF dash > 0 /\ dash # Len(Argv) THEN SubSeq(Argv, dash + 1, Len(Argv)) ELSE <<>>
ImplTargets == IF dash > 0 THEN SubSeq(Argv, 1, dash - 1) ELSE Argv
\* the statement
ArgsVerbatim == Done => ImplArgs = args /\ ImplTargets = targets
Emit == Done => PrintT(<<"ARG", ToJson([targets |-> targets, sep |-> hasSep, args |-> args])>>)
=====================================================================
