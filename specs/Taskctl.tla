---------------------------- MODULE Taskctl ----------------------------
(* Composition: one pipeline run of the taskctl binary, end to end.                      *)
(*   Scheduler.Schedule (pkg/scheduler)  the loop decides, per stage: skip (condition    *)
(*        false), cancel (a dependency failed), or launch once every dependency is       *)
(*        satisfied; the stage goroutine calls TaskRunner.Run and publishes Done/Error.  *)
(*   TaskRunner.Run (pkg/runner)         registers the run, executes the task's commands *)
(*        one after another through the executor, stops at the first failing command,    *)
(*        de-registers.                                                                   *)
(* The modules Scheduler.tla and TaskRun.tla/Cancel.tla describe the two layers on their *)
(* own; this module composes them at the granularity of the events the verification      *)
(* tracers record (internal/veriftrace): stage status stores, enter/ret of the stage      *)
(* goroutine around Run, RunEnter/RunExit of the runner, CmdStart/CmdEnd of the executor.  *)
(* It states the end-to-end forms of C01, C02, C03 and C06 at COMMAND level: no command   *)
(* of a stage runs before every command of its dependencies is over; commands of one run  *)
(* never overlap and stop at the first failure; the final statuses are the reference ones. *)
EXTENDS Naturals, FiniteSets, Sequences, TLC
CONSTANTS N, MaxCmd
Stages == 1..N
Classes == {"OK", "FAIL", "FAILA", "CFALSE"}
VARIABLES deps, cls, ncmd, failAt,                       \* configuration
          status, gerr, loop,                            \* scheduler: stage statuses, g.error, loop alive
          gpc,                                           \* stage goroutine: none | launched | inrun | back | fin
          rpc, done, crun, rfail                         \* run: none | entered | exited; commands done; one running; failed
cfgv == <<deps, cls, ncmd, failAt>>
vars == <<deps, cls, ncmd, failAt, status, gerr, loop, gpc, rpc, done, crun, rfail>>

Allow(s) == cls[s] = "FAILA"
Fails(s) == cls[s] \in {"FAIL", "FAILA"}
Sat(d) == status[d] \in {"D", "S"} \/ (status[d] = "E" /\ Allow(d))
Blocked(d) == (status[d] = "E" /\ ~Allow(d)) \/ status[d] = "C"

Init == /\ deps \in {f \in [Stages -> SUBSET Stages] : \A s \in Stages : \A d \in f[s] : d < s}
        /\ cls \in [Stages -> Classes]
        /\ ncmd \in [Stages -> 1..MaxCmd]
        /\ failAt \in [Stages -> 1..MaxCmd] /\ \A s \in Stages : failAt[s] <= ncmd[s] /\ (~Fails(s) => failAt[s] = 1)
        /\ status = [s \in Stages |-> "W"] /\ gerr = FALSE /\ loop = TRUE
        /\ gpc = [s \in Stages |-> "none"] /\ rpc = [s \in Stages |-> "none"]
        /\ done = [s \in Stages |-> 0] /\ crun = [s \in Stages |-> FALSE] /\ rfail = [s \in Stages |-> FALSE]

\* --- scheduler layer (one iteration of the loop body for stage s; cf. Scheduler.tla VisitOutcome) ---
Visit(s) ==
  /\ loop /\ status[s] = "W"
  /\ IF cls[s] = "CFALSE" THEN status' = [status EXCEPT ![s] = "S"] /\ UNCHANGED gpc
     ELSE IF \E d \in deps[s] : Blocked(d) THEN status' = [status EXCEPT ![s] = "C"] /\ UNCHANGED gpc
     ELSE /\ \A d \in deps[s] : Sat(d)
          /\ status' = [status EXCEPT ![s] = "R"] /\ gpc' = [gpc EXCEPT ![s] = "launched"]
  /\ UNCHANGED <<cfgv, gerr, loop, rpc, done, crun, rfail>>
\* the stage goroutine calls runStage -> TaskRunner.Run
StageEnter(s) == /\ gpc[s] = "launched" /\ gpc' = [gpc EXCEPT ![s] = "inrun"]
                 /\ UNCHANGED <<cfgv, status, gerr, loop, rpc, done, crun, rfail>>
\* --- runner layer ---
RunEnter(s) == /\ gpc[s] = "inrun" /\ rpc[s] = "none" /\ rpc' = [rpc EXCEPT ![s] = "entered"]
               /\ UNCHANGED <<cfgv, status, gerr, loop, gpc, done, crun, rfail>>
CmdStart(s) == /\ rpc[s] = "entered" /\ ~crun[s] /\ ~rfail[s] /\ done[s] < ncmd[s]
               /\ crun' = [crun EXCEPT ![s] = TRUE]
               /\ UNCHANGED <<cfgv, status, gerr, loop, gpc, rpc, done, rfail>>
\* the command ends; the failing one (position failAt of a failing task) ends the run
CmdEnd(s) == /\ crun[s] /\ crun' = [crun EXCEPT ![s] = FALSE]
             /\ done' = [done EXCEPT ![s] = @ + 1]
             /\ rfail' = [rfail EXCEPT ![s] = Fails(s) /\ done[s] + 1 = failAt[s]]
             /\ UNCHANGED <<cfgv, status, gerr, loop, gpc, rpc>>
RunExit(s) == /\ rpc[s] = "entered" /\ ~crun[s] /\ (rfail[s] \/ done[s] = ncmd[s])
              /\ rpc' = [rpc EXCEPT ![s] = "exited"]
              /\ UNCHANGED <<cfgv, status, gerr, loop, gpc, done, crun, rfail>>
\* --- back in the stage goroutine: Run returned, the outcome is published (two stores for an allowed failure) ---
StageRet(s) == /\ gpc[s] = "inrun" /\ rpc[s] = "exited" /\ gpc' = [gpc EXCEPT ![s] = "back"]
               /\ UNCHANGED <<cfgv, status, gerr, loop, rpc, done, crun, rfail>>
Publish(s) == /\ gpc[s] = "back"
              /\ IF rfail[s] /\ status[s] = "R"
                   THEN /\ status' = [status EXCEPT ![s] = "E"]
                        /\ IF Allow(s) THEN UNCHANGED <<gpc, gerr>> ELSE gpc' = [gpc EXCEPT ![s] = "fin"] /\ gerr' = TRUE
                   ELSE status' = [status EXCEPT ![s] = "D"] /\ gpc' = [gpc EXCEPT ![s] = "fin"] /\ UNCHANGED gerr
              /\ UNCHANGED <<cfgv, loop, rpc, done, crun, rfail>>
\* the loop sees every stage terminal and leaves; Schedule returns after wg.Wait
LoopExit == /\ loop /\ \A s \in Stages : status[s] \notin {"W", "R"} /\ loop' = FALSE
            /\ UNCHANGED <<cfgv, status, gerr, gpc, rpc, done, crun, rfail>>
Next == LoopExit \/ \E s \in Stages : Visit(s) \/ StageEnter(s) \/ RunEnter(s) \/ CmdStart(s) \/ CmdEnd(s) \/ RunExit(s) \/ StageRet(s) \/ Publish(s)
Spec == Init /\ [][Next]_vars /\ WF_vars(Next)

\* --- end-to-end properties ---
RECURSIVE Exp(_)
Exp(s) == IF cls[s] = "CFALSE" THEN "S"
          ELSE IF \E d \in deps[s] : Exp(d) \in {"E", "C"} THEN "C"
          ELSE IF cls[s] = "FAIL" THEN "E" ELSE "D"
Returned == ~loop /\ \A s \in Stages : gpc[s] \in {"none", "fin"} /\ status[s] \notin {"W", "R"}
\* C01 at command level: while a command of s runs, every dependency's run is completely over
CommandsAfterDependencies == \A s \in Stages : (crun[s] \/ rpc[s] = "entered") =>
                                 \A d \in deps[s] : (rpc[d] = "exited" /\ ~crun[d]) \/ status[d] = "S"
\* C06: commands of one run never overlap (crun is a flag) and none starts after the failing one
StopsAtFailure == \A s \in Stages : Fails(s) => done[s] <= failAt[s]
\* C02 / C03 at the end of the run
FinalOK == Returned => /\ \A s \in Stages : status[s] = Exp(s)
                       /\ gerr = (\E s \in Stages : Exp(s) = "E")
                       /\ \A s \in Stages : done[s] = (IF Exp(s) \notin {"D", "E"} THEN 0 ELSE IF Fails(s) THEN failAt[s] ELSE ncmd[s])
RunOnlyWhileStageRunning == \A s \in Stages : rpc[s] = "entered" => gpc[s] = "inrun" /\ status[s] = "R"
Terminates == <>Returned
=======================================================================
