---------------------------- MODULE Taskctl ----------------------------
(* Composition: one pipeline run of the taskctl binary, end to end.                      *)
(*   Scheduler.Schedule (pkg/scheduler)  the loop decides, per stage: skip (condition    *)
(*        false), cancel (a dependency failed), or launch once every dependency is       *)
(*        satisfied; the stage goroutine calls TaskRunner.Run and publishes Done/Error.  *)
(*   TaskRunner.Run (pkg/runner)         registers the run, brings the task's execution  *)
(*        context up (once per context, concurrent callers wait), runs the context's     *)
(*        `before`, the task's `before` hook, the task's commands once per variation,    *)
(*        the task's `after` hook, the context's `after`; stops at the first failure     *)
(*        (the context's `after` still runs; a failing `after` hook is only logged);     *)
(*        de-registers.                                                                  *)
(*   TaskRunner.Finish (cmd/taskctl)     after Schedule returned: `down` of every        *)
(*        context that was used, once.                                                   *)
(* The modules Scheduler.tla, TaskRun.tla, Contexts.tla and Cancel.tla describe the      *)
(* layers on their own; this module composes them at the granularity of the events the   *)
(* verification tracers record (internal/veriftrace): stage status stores, enter/ret of   *)
(* the stage goroutine around Run, RunEnter/RunExit of the runner, CmdStart/CmdEnd of the  *)
(* executor (every hook and command is one executor job).                                 *)
(* It states the end-to-end forms of C01, C02, C03, C06 and C14 at COMMAND level.         *)
EXTENDS Naturals, FiniteSets, Sequences, TLC
CONSTANTS N, MaxCmd, MaxVar, NCtx, HookKinds,
          Nesting,     \* BOOLEAN: stages may belong to an included pipeline (graph 1) and outer stages may include it
          TaskAllow,   \* BOOLEAN: tasks may carry allow_failure themselves (besides the stage-level flag)
          AtomicLaunch, \* BOOLEAN: a loop moves a stage from Waiting to Running in one atomic step (compare-and-swap);
                       \*   FALSE transcribes the code before the repair: the status is read, then written
          CondErr,     \* BOOLEAN: stages may have a condition that cannot be evaluated (class CERR): the loop stores
                       \*   Error for such a stage and cancels the run (Scheduler.Cancel -> TaskRunner.Cancel)
          ErrFirst     \* BOOLEAN: a failing stage records the graph's error BEFORE it stores its Error status;
                       \*   FALSE transcribes the code before the repair cc0baab: the status first, the error after
Stages == 1..N
Ctxs == 1..NCtx
Classes == {"OK", "FAIL", "FAILA", "CFALSE"} \cup (IF CondErr THEN {"CERR"} ELSE {})
Graphs == {0, 1}
VARIABLES deps, cls, ncmd, failAt, nvar, ctx, hb, ha, upFails,   \* configuration
          tallow,                                        \* the TASK allows failure: a failing command does not end the run
          gr, inc,                                       \* graph of a stage (0 outer, 1 the included pipeline);
                                                         \*   inc[s]: outer stage s runs the included pipeline
          status, gerr, loop,                            \* scheduler: stage statuses, g.error per graph, outer loop alive
          want, twice,                                   \* (only with ~AtomicLaunch) stages a nested loop has decided to
                                                         \*   launch but not yet marked Running; a stage was launched twice
          want, twice, nl, by,                                        \* nested Schedule of an including stage: none|loop|ret;
                                                         \*   by[s]: the including stage whose loop launched inner stage s
          gpc,                                           \* stage goroutine: none | launched | inrun | back | fin
          rpc, pt, role, done, rfail, ran,               \* run: none | entered | exited; progress point; job
                                                         \*   in execution; commands done; failed; hooks run
          upst, dn,                                      \* context: up no|running|ok|failed; down no|running|done
          canc,                                          \* the loop's call of Scheduler.Cancel (it runs IN the loop's goroutine):
                                                         \*   no | pending (Error stored for a CERR stage) | called (flag set) |
                                                         \*   set (the runner's context is cancelled) | done (Cancel returned)
          ctxc, quiet                                    \* the runner's context has been cancelled; a Cancel call has returned
cfgv == <<deps, cls, ncmd, failAt, nvar, ctx, hb, ha, upFails, tallow, gr, inc>>
cvars == <<canc, ctxc, quiet>>
vars == <<deps, cls, ncmd, failAt, nvar, ctx, hb, ha, upFails, tallow, gr, inc, status, gerr, loop, want, twice, want, twice, nl, by, gpc, rpc, pt, role, done, rfail, ran, upst, dn, canc, ctxc, quiet>>

Allow(s) == cls[s] = "FAILA"
Fails(s) == cls[s] \in {"FAIL", "FAILA"}          \* the command at position failAt exits non-zero
Total(s) == ncmd[s] * nvar[s]
\* the command about to end is the failing one (position failAt of the command list, in every variation)
FailsNow(s) == Fails(s) /\ (done[s] % ncmd[s]) + 1 = failAt[s]
Sat(d) == status[d] \in {"D", "S"} \/ (status[d] = "E" /\ Allow(d))
Blocked(d) == (status[d] = "E" /\ ~Allow(d)) \/ status[d] = "C"

Inner == {s \in Stages : gr[s] = 1}
Init == /\ gr \in (IF Nesting THEN [Stages -> Graphs] ELSE {[s \in Stages |-> 0]})
        /\ inc \in [Stages -> BOOLEAN]
        /\ \A s \in Stages : inc[s] => gr[s] = 0 /\ Inner # {}
        /\ deps \in {f \in [Stages -> SUBSET Stages] : \A s \in Stages : \A d \in f[s] : d < s /\ gr[d] = gr[s]}
        /\ cls \in [Stages -> Classes]
        /\ \A s \in Stages : inc[s] => cls[s] # "FAIL"           \* an including stage fails iff the pipeline does
        /\ ncmd \in [Stages -> 1..MaxCmd]
        /\ failAt \in [Stages -> 1..MaxCmd] /\ \A s \in Stages : failAt[s] <= ncmd[s] /\ (~Fails(s) => failAt[s] = 1)
        /\ nvar \in [Stages -> 1..MaxVar]
        /\ ctx \in [Stages -> 0..NCtx]
        /\ hb \in [Stages -> HookKinds] /\ ha \in [Stages -> HookKinds]
        /\ upFails \in [Ctxs -> BOOLEAN]
        /\ tallow \in [Stages -> (IF TaskAllow THEN BOOLEAN ELSE {FALSE})]
        /\ status = [s \in Stages |-> "W"] /\ gerr = [g \in Graphs |-> FALSE] /\ loop = TRUE
        /\ nl = [s \in Stages |-> "none"] /\ by = [s \in Stages |-> 0]
        /\ want = [s \in Stages |-> {}] /\ twice = FALSE
        /\ gpc = [s \in Stages |-> "none"] /\ rpc = [s \in Stages |-> "none"]
        /\ pt = [s \in Stages |-> "start"] /\ role = [s \in Stages |-> "none"]
        /\ done = [s \in Stages |-> 0] /\ rfail = [s \in Stages |-> FALSE] /\ ran = [s \in Stages |-> {}]
        /\ upst = [c \in Ctxs |-> "no"] /\ dn = [c \in Ctxs |-> "no"]
        /\ canc = "no" /\ ctxc = FALSE /\ quiet = FALSE
        /\ \A s \in Stages : cls[s] = "CERR" => ~inc[s] /\ gr[s] = 0 /\ ~tallow[s]   \* (CERR on plain outer stages)
        /\ (\E s \in Stages : cls[s] = "CERR") => \A s \in Stages : ~tallow[s] /\ gr[s] = 0

\* the configuration of the negative control Taskctl_nest3_errlate.cfg (and of the scenario the harness
\* forces on the real scheduler): a failing stage in a pipeline that two stages without dependencies include
InitErrLate == /\ Init /\ gr = [s \in Stages |-> IF s = 1 THEN 1 ELSE 0] /\ inc = [s \in Stages |-> s # 1]
               /\ cls = [s \in Stages |-> IF s = 1 THEN "FAIL" ELSE "OK"] /\ deps = [s \in Stages |-> {}]

\* the configuration of the negative control Taskctl_nest3_pinned.cfg: a pipeline of one stage that two
\* stages without dependencies include
InitDouble == /\ Init /\ gr = [s \in Stages |-> IF s = 1 THEN 1 ELSE 0] /\ inc = [s \in Stages |-> s # 1]
              /\ cls = [s \in Stages |-> "OK"] /\ deps = [s \in Stages |-> {}]

\* --- scheduler layer (one iteration of the loop body for stage s; cf. Scheduler.tla VisitOutcome) ---
\* an outer stage is visited by the outer loop, a stage of the included pipeline by the loop of a
\* nested Schedule call that is in progress (one per including stage that is running)
LiveLoops(s) == IF gr[s] = 0 THEN {0} ELSE {i \in Stages : inc[i] /\ nl[i] = "loop"}
LoopFree == canc \in {"no", "done"}         \* the loop's goroutine is not inside Scheduler.Cancel
Visit(s) ==
  /\ (gr[s] = 0 => loop) /\ LiveLoops(s) # {} /\ status[s] = "W" /\ cls[s] # "CERR" /\ LoopFree
  /\ IF cls[s] = "CFALSE" THEN status' = [status EXCEPT ![s] = "S"] /\ UNCHANGED <<gpc, by>>
     ELSE IF \E d \in deps[s] : Blocked(d) THEN status' = [status EXCEPT ![s] = "C"] /\ UNCHANGED <<gpc, by>>
     ELSE /\ \A d \in deps[s] : Sat(d)
          /\ AtomicLaunch \/ gr[s] = 0
          /\ status' = [status EXCEPT ![s] = "R"] /\ gpc' = [gpc EXCEPT ![s] = "launched"]
          /\ \E i \in LiveLoops(s) : by' = [by EXCEPT ![s] = i]
  /\ UNCHANGED <<cfgv, cvars, gerr, loop, want, twice, nl, rpc, pt, role, done, rfail, ran, upst, dn>>
\* A condition that cannot be evaluated (whatever the stage's dependencies: conditions are evaluated first):
\* the loop stores Error and then calls Scheduler.Cancel itself - flag, TaskRunner.Cancel: the runner's context
\* is cancelled (CancelSet) and the call waits until no run is in flight (CancelDone); the rest of the pass
\* goes on after that (stages that are ready are still launched: their runs are refused), then the loop leaves
VisitCErr(s) == /\ loop /\ gr[s] = 0 /\ status[s] = "W" /\ cls[s] = "CERR" /\ LoopFree
                /\ status' = [status EXCEPT ![s] = "E"] /\ canc' = "pending"
                /\ UNCHANGED <<cfgv, ctxc, quiet, gerr, loop, want, twice, nl, by, gpc, rpc, pt, role, done, rfail, ran, upst, dn>>
CancelCall == /\ canc = "pending" /\ canc' = "called"
              /\ UNCHANGED <<cfgv, ctxc, quiet, status, gerr, loop, want, twice, nl, by, gpc, rpc, pt, role, done, rfail, ran, upst, dn>>
\* inside TaskRunner.Cancel: the context is cancelled (from here on runs are refused and jobs die), THEN the
\* event CancelSet is recorded - a job that the cancellation kills may record its end before that event
CtxCancel == /\ canc = "called" /\ ~ctxc /\ ctxc' = TRUE
             /\ UNCHANGED <<cfgv, canc, quiet, status, gerr, loop, want, twice, nl, by, gpc, rpc, pt, role, done, rfail, ran, upst, dn>>
CancelSet == /\ canc = "called" /\ ctxc /\ canc' = "set"
             /\ UNCHANGED <<cfgv, ctxc, quiet, status, gerr, loop, want, twice, nl, by, gpc, rpc, pt, role, done, rfail, ran, upst, dn>>
CancelDone == /\ canc = "set" /\ \A s \in Stages : rpc[s] # "entered"
              /\ canc' = "done" /\ quiet' = TRUE
              /\ UNCHANGED <<cfgv, ctxc, status, gerr, loop, want, twice, nl, by, gpc, rpc, pt, role, done, rfail, ran, upst, dn>>
\* The code before the repair (AtomicLaunch = FALSE): the nested loop of including stage i reads the
\* status of inner stage s and finds it ready ...
VisitDecide(i, s) ==
  /\ ~AtomicLaunch /\ inc[i] /\ nl[i] = "loop" /\ gr[s] = 1 /\ status[s] = "W" /\ s \notin want[i]
  /\ cls[s] # "CFALSE" /\ \A d \in deps[s] : Sat(d)
  /\ want' = [want EXCEPT ![i] = @ \cup {s}]
  /\ UNCHANGED <<cfgv, cvars, status, gerr, loop, twice, nl, by, gpc, rpc, pt, role, done, rfail, ran, upst, dn>>
\* ... and later stores Running and launches it - whether or not another loop has done so meanwhile
VisitCommit(i, s) ==
  /\ ~AtomicLaunch /\ s \in want[i]
  /\ want' = [want EXCEPT ![i] = @ \ {s}]
  /\ IF status[s] = "W"
       THEN status' = [status EXCEPT ![s] = "R"] /\ gpc' = [gpc EXCEPT ![s] = "launched"] /\ by' = [by EXCEPT ![s] = i] /\ UNCHANGED twice
       ELSE twice' = TRUE /\ UNCHANGED <<status, gpc, by>>
  /\ UNCHANGED <<cfgv, cvars, gerr, loop, nl, rpc, pt, role, done, rfail, ran, upst, dn>>
\* the stage goroutine calls runStage -> TaskRunner.Run
\* (an including stage: runStage -> Schedule of the included pipeline, whose loop is then alive)
StageEnter(s) == /\ gpc[s] = "launched" /\ gpc' = [gpc EXCEPT ![s] = "inrun"]
                 /\ nl' = IF inc[s] THEN [nl EXCEPT ![s] = "loop"] ELSE nl
                 /\ UNCHANGED <<cfgv, cvars, status, gerr, loop, want, twice, by, rpc, pt, role, done, rfail, ran, upst, dn>>
\* the nested Schedule of including stage i returns: every stage of the included pipeline is terminal
\* and the stage goroutines THIS call launched have finished (its own WaitGroup)
\* (it returns the graph's LastError as it is at that moment)
NReturn(i) == /\ inc[i] /\ nl[i] = "loop"
              /\ \A s \in Inner : status[s] \notin {"W", "R"} /\ (by[s] = i => gpc[s] \in {"none", "fin"})
              /\ nl' = [nl EXCEPT ![i] = "ret"] /\ rfail' = [rfail EXCEPT ![i] = gerr[1]]
              /\ UNCHANGED <<cfgv, cvars, status, gerr, loop, want, twice, by, gpc, rpc, pt, role, done, ran, upst, dn>>
\* --- runner layer ---
RunEnter(s) == /\ ~inc[s] /\ gpc[s] = "inrun" /\ rpc[s] = "none" /\ ~ctxc /\ rpc' = [rpc EXCEPT ![s] = "entered"]
               /\ UNCHANGED <<cfgv, cvars, status, gerr, loop, want, twice, nl, by, gpc, pt, role, done, rfail, ran, upst, dn>>
\* a run called once the context is cancelled is refused: it returns the error at once, nothing of it is executed
RunRefused(s) == /\ ~inc[s] /\ gpc[s] = "inrun" /\ rpc[s] = "none" /\ ctxc
                 /\ rpc' = [rpc EXCEPT ![s] = "exited"] /\ rfail' = [rfail EXCEPT ![s] = TRUE]
                 /\ UNCHANGED <<cfgv, cvars, status, gerr, loop, want, twice, nl, by, gpc, pt, role, done, ran, upst, dn>>

\* The next job of the run of s, as a function of how far it got (runner.go Run, contextForTask):
\*   "up"  context start-up (only the first run that needs the context executes it; the others wait)
\*   "cb" / "ca"  the context's before / after     "tb" / "ta"  the task's before / after hook
\*   "cmd" the next command      "wait"  blocked on another run's up      "exit"  Run returns
AfterTad(s)     == IF ctx[s] # 0 THEN "ca" ELSE "exit"
AfterCmds(s)    == IF ha[s] # "none" THEN "ta" ELSE AfterTad(s)
AfterCb(s)      == IF hb[s] # "none" THEN "tb" ELSE "cmd"
NextOp(s) ==
  CASE pt[s] = "start" -> IF ctx[s] = 0 THEN AfterCb(s)
                          ELSE CASE upst[ctx[s]] = "no" -> "up"
                                 [] upst[ctx[s]] = "running" -> "wait"
                                 [] upst[ctx[s]] = "failed" -> "exit"      \* Run returns the start-up error
                                 [] OTHER -> "cb"
    [] pt[s] = "cbd" -> AfterCb(s)
    [] pt[s] = "tbd" -> IF rfail[s] THEN AfterTad(s) ELSE "cmd"
    [] pt[s] = "cmd" -> IF rfail[s] THEN AfterTad(s) ELSE IF done[s] < Total(s) THEN "cmd" ELSE AfterCmds(s)
    [] pt[s] = "tad" -> AfterTad(s)
    [] OTHER -> "exit"

\* the executor starts a job of the run of s (runs of different stages interleave freely)
CmdStart(s) == /\ rpc[s] = "entered" /\ role[s] = "none" /\ NextOp(s) \notin {"wait", "exit"}
               /\ role' = [role EXCEPT ![s] = NextOp(s)]
               /\ upst' = IF NextOp(s) = "up" THEN [upst EXCEPT ![ctx[s]] = "running"] ELSE upst
               /\ UNCHANGED <<cfgv, cvars, status, gerr, loop, want, twice, nl, by, gpc, rpc, pt, done, rfail, ran, dn>>
\* the job ends; a failing one ends the run (the context's after still runs)
CmdEnd(s) ==
  /\ role[s] # "none" /\ role' = [role EXCEPT ![s] = "none"]
  /\ CASE role[s] = "up"  -> /\ upst' = [upst EXCEPT ![ctx[s]] = IF upFails[ctx[s]] THEN "failed" ELSE "ok"]
                             /\ UNCHANGED <<pt, done, rfail, ran>>
       [] role[s] = "cb"  -> pt' = [pt EXCEPT ![s] = "cbd"] /\ ran' = [ran EXCEPT ![s] = @ \cup {"cb"}] /\ UNCHANGED <<upst, done, rfail>>
       [] role[s] = "tb"  -> /\ pt' = [pt EXCEPT ![s] = "tbd"] /\ ran' = [ran EXCEPT ![s] = @ \cup {"tb"}]
                             /\ rfail' = [rfail EXCEPT ![s] = hb[s] = "fail"] /\ UNCHANGED <<upst, done>>
       [] role[s] = "cmd" -> /\ pt' = [pt EXCEPT ![s] = "cmd"] /\ done' = [done EXCEPT ![s] = @ + 1]
                             /\ rfail' = [rfail EXCEPT ![s] = FailsNow(s) /\ ~tallow[s]] /\ UNCHANGED <<upst, ran>>
       [] role[s] = "ta"  -> /\ pt' = [pt EXCEPT ![s] = "tad"] /\ ran' = [ran EXCEPT ![s] = @ \cup {"ta"}]
                             /\ UNCHANGED <<upst, done, rfail>>       \* a failing after hook is only logged
       [] OTHER           -> pt' = [pt EXCEPT ![s] = "cad"] /\ ran' = [ran EXCEPT ![s] = @ \cup {"ca"}] /\ UNCHANGED <<upst, done, rfail>>
  /\ UNCHANGED <<cfgv, cvars, status, gerr, loop, want, twice, nl, by, gpc, rpc, dn>>
\* a job of the task (hook or command; the context's own jobs do not use the runner's context) that is
\* running when the context is cancelled, or is started after that, ends with the context's error
CmdKilled(s) ==
  /\ ctxc /\ role[s] \in {"tb", "cmd", "ta"} /\ role' = [role EXCEPT ![s] = "none"]
  /\ CASE role[s] = "tb" -> /\ pt' = [pt EXCEPT ![s] = "tbd"] /\ ran' = [ran EXCEPT ![s] = @ \cup {"tb"}]
                            /\ rfail' = [rfail EXCEPT ![s] = TRUE] /\ UNCHANGED done
       [] role[s] = "cmd" -> /\ pt' = [pt EXCEPT ![s] = "cmd"] /\ done' = [done EXCEPT ![s] = @ + 1]
                             /\ rfail' = [rfail EXCEPT ![s] = TRUE] /\ UNCHANGED ran
       [] OTHER -> /\ pt' = [pt EXCEPT ![s] = "tad"] /\ ran' = [ran EXCEPT ![s] = @ \cup {"ta"}] /\ UNCHANGED <<done, rfail>>
  /\ UNCHANGED <<cfgv, cvars, status, gerr, loop, want, twice, nl, by, gpc, rpc, upst, dn>>
RunExit(s) == /\ rpc[s] = "entered" /\ role[s] = "none" /\ NextOp(s) = "exit"
              /\ rpc' = [rpc EXCEPT ![s] = "exited"]
              /\ rfail' = [rfail EXCEPT ![s] = @ \/ (pt[s] = "start" /\ ctx[s] # 0)]   \* the start-up error
              /\ UNCHANGED <<cfgv, cvars, status, gerr, loop, want, twice, nl, by, gpc, pt, role, done, ran, upst, dn>>
\* --- back in the stage goroutine: Run returned, the outcome is published (two stores for an allowed failure) ---
StageRet(s) == /\ gpc[s] = "inrun" /\ gpc' = [gpc EXCEPT ![s] = "back"]
               /\ IF inc[s] THEN nl[s] = "ret" ELSE rpc[s] = "exited"       \* (the nested Schedule returned LastError)
               /\ UNCHANGED rfail
               /\ UNCHANGED <<cfgv, cvars, status, gerr, loop, want, twice, nl, by, rpc, pt, role, done, ran, upst, dn>>
\* A failure that is not allowed is published in two separate steps, the graph's error and the stage's
\* Error status (gpc "errset" / "stset" in between): another Schedule call on the same graph may run
\* between them.
Publish(s) == /\ gpc[s] = "back"
              /\ IF rfail[s] /\ status[s] = "R"
                   THEN IF Allow(s) THEN status' = [status EXCEPT ![s] = "E"] /\ UNCHANGED <<gpc, gerr>>
                        ELSE IF ErrFirst THEN /\ gerr' = [gerr EXCEPT ![gr[s]] = TRUE] /\ gpc' = [gpc EXCEPT ![s] = "errset"] /\ UNCHANGED status
                                         ELSE /\ status' = [status EXCEPT ![s] = "E"] /\ gpc' = [gpc EXCEPT ![s] = "stset"] /\ UNCHANGED gerr
                   ELSE status' = [status EXCEPT ![s] = "D"] /\ gpc' = [gpc EXCEPT ![s] = "fin"] /\ UNCHANGED gerr
              /\ UNCHANGED <<cfgv, cvars, loop, want, twice, nl, by, rpc, pt, role, done, rfail, ran, upst, dn>>
PublishRest(s) == /\ gpc[s] \in {"errset", "stset"} /\ gpc' = [gpc EXCEPT ![s] = "fin"]
                  /\ IF gpc[s] = "errset" THEN status' = [status EXCEPT ![s] = "E"] /\ UNCHANGED gerr
                                          ELSE gerr' = [gerr EXCEPT ![gr[s]] = TRUE] /\ UNCHANGED status
                  /\ UNCHANGED <<cfgv, cvars, loop, want, twice, nl, by, rpc, pt, role, done, rfail, ran, upst, dn>>
\* both steps at once: what a log of status stores shows of the repaired code (the store of the Error
\* status is logged; the error was recorded just before it and is read by nobody until then)
PublishAtomic(s) ==
              /\ gpc[s] = "back"
              /\ IF rfail[s] /\ status[s] = "R"
                   THEN /\ status' = [status EXCEPT ![s] = "E"]
                        /\ IF Allow(s) THEN UNCHANGED <<gpc, gerr>> ELSE gpc' = [gpc EXCEPT ![s] = "fin"] /\ gerr' = [gerr EXCEPT ![gr[s]] = TRUE]
                   ELSE status' = [status EXCEPT ![s] = "D"] /\ gpc' = [gpc EXCEPT ![s] = "fin"] /\ UNCHANGED gerr
              /\ UNCHANGED <<cfgv, cvars, loop, want, twice, nl, by, rpc, pt, role, done, rfail, ran, upst, dn>>
\* the loop sees every stage terminal and leaves; Schedule returns after wg.Wait
LoopExit == /\ loop /\ LoopFree
            /\ canc = "done" \/ \A s \in Stages : gr[s] = 0 => status[s] \notin {"W", "R"}      \* (cancelled: it leaves at the top of the next pass)
            /\ loop' = FALSE
            /\ UNCHANGED <<cfgv, cvars, status, gerr, want, twice, nl, by, gpc, rpc, pt, role, done, rfail, ran, upst, dn>>
\* --- TaskRunner.Finish after Schedule returned: down of every context that was used ---
Returned == ~loop /\ \A s \in Stages : gr[s] = 0 => gpc[s] \in {"none", "fin"} /\ status[s] # "R" /\ (~ctxc => status[s] # "W")
DownStart(c) == /\ Returned /\ upst[c] # "no" /\ dn[c] = "no" /\ dn' = [dn EXCEPT ![c] = "running"]
                /\ UNCHANGED <<cfgv, cvars, status, gerr, loop, want, twice, nl, by, gpc, rpc, pt, role, done, rfail, ran, upst>>
DownEnd(c) == /\ dn[c] = "running" /\ dn' = [dn EXCEPT ![c] = "done"]
              /\ UNCHANGED <<cfgv, cvars, status, gerr, loop, want, twice, nl, by, gpc, rpc, pt, role, done, rfail, ran, upst>>
Next == \/ LoopExit
        \/ \E i, s \in Stages : VisitDecide(i, s) \/ VisitCommit(i, s)
        \/ CancelCall \/ CtxCancel \/ CancelSet \/ CancelDone
        \/ \E s \in Stages : VisitCErr(s) \/ RunRefused(s) \/ CmdKilled(s)
        \/ \E s \in Stages : Visit(s) \/ StageEnter(s) \/ NReturn(s) \/ RunEnter(s) \/ CmdStart(s) \/ CmdEnd(s) \/ RunExit(s) \/ StageRet(s) \/ Publish(s) \/ PublishRest(s)
        \/ \E c \in Ctxs : DownStart(c) \/ DownEnd(c)
Spec == Init /\ [][Next]_vars /\ WF_vars(Next)

\* --- end-to-end properties ---
UpOK(s) == ctx[s] = 0 \/ ~upFails[ctx[s]]
\* the reference outcome of a stage; Exp of an inner stage is its outcome once the included pipeline runs
RECURSIVE Exp(_)
InnerFails == \E t \in Inner : Exp(t) = "E"
TaskFails(s) == IF inc[s] THEN InnerFails
                ELSE ~UpOK(s) \/ hb[s] = "fail" \/ (Fails(s) /\ ~tallow[s])   \* not: a failing after hook, nor a
                                                                             \* failing command of a task that allows failure
Exp(s) == IF cls[s] = "CFALSE" THEN "S"
          ELSE IF \E d \in deps[s] : Exp(d) \in {"E", "C"} THEN "C"
          ELSE IF TaskFails(s) /\ ~Allow(s) THEN "E" ELSE "D"
\* the included pipeline runs iff some including stage is launched
Reached(s) == gr[s] = 0 \/ \E i \in Stages : inc[i] /\ Exp(i) \in {"D", "E"}
ExpFinal(s) == IF Reached(s) THEN Exp(s) ELSE "W"
Launched(s) == ExpFinal(s) \in {"D", "E"}
RunsTask(s) == Launched(s) /\ ~inc[s]
ExpDone(s) == IF ~RunsTask(s) \/ ~UpOK(s) \/ hb[s] = "fail" THEN 0 ELSE IF Fails(s) /\ ~tallow[s] THEN failAt[s] ELSE Total(s)
ExpRan(s) == IF ~RunsTask(s) \/ ~UpOK(s) THEN {}
             ELSE (IF ctx[s] # 0 THEN {"cb", "ca"} ELSE {}) \cup (IF hb[s] # "none" THEN {"tb"} ELSE {})
                  \cup (IF ha[s] # "none" /\ hb[s] # "fail" /\ (~Fails(s) \/ tallow[s]) THEN {"ta"} ELSE {})
AllOver == Returned /\ canc \in {"no", "done"} /\ \A c \in Ctxs : dn[c] \notin {"running"} /\ (upst[c] # "no" => dn[c] = "done")
Busy(s) == role[s] # "none" \/ rpc[s] = "entered"
\* what a dependency ran is completely over
Over(d) == \/ status[d] = "S"
           \/ IF inc[d] THEN nl[d] = "ret" ELSE rpc[d] = "exited" /\ role[d] = "none"
\* C01 at command level: while a job of s runs, everything its dependencies ran is completely over;
\* for a stage of the included pipeline also everything the including stage (whose loop launched
\* it) depends on
CommandsAfterDependencies ==
  \A s \in Stages : Busy(s) => /\ \A d \in deps[s] : Over(d)
                               /\ gr[s] = 1 => by[s] # 0 /\ \A d \in deps[by[s]] : Over(d)
\* C06: jobs of one run never overlap (role is one value) and none starts after the failing one
StopsAtFailure == \A s \in Stages : /\ (Fails(s) /\ ~tallow[s] => done[s] <= failAt[s])
                                    /\ (hb[s] = "fail" /\ "tb" \in ran[s] => done[s] = 0 /\ "ta" \notin ran[s])
\* C14: a context is up before anything of a task in it runs; down only after everything is over, once
UpBeforeUse == \A s \in Stages : (role[s] \notin {"none", "up"} /\ ctx[s] # 0) => upst[ctx[s]] = "ok"
DownAfterAll == \A c \in Ctxs : dn[c] # "no" => Returned /\ \A s \in Stages : rpc[s] # "entered"
OneUpAtATime == \A c \in Ctxs : Cardinality({s \in Stages : role[s] = "up" /\ ctx[s] = c}) <= 1
\* C03: when the run has returned nothing of the included pipeline is still going on
NothingRunsAtReturn == Returned => \A s \in Stages : gpc[s] \in {"none", "fin"} /\ status[s] # "R"
\* C03: no stage is launched twice (two nested loops over one included pipeline)
NoDoubleLaunch == ~twice
\* C02 / C03 / C14 at the end of the run
\* C12 at the level of the whole run: once a Cancel call has returned nothing is in flight and nothing starts
QuietAfterCancel == quiet => \A s \in Stages : rpc[s] # "entered" /\ role[s] = "none"
\* C12 / C03: a cancelled run returns with nothing left Running; what is Done ran to its end without an error,
\* every stage whose run was refused or interrupted is in Error; the stage with the condition is in Error
CancelledFinal == (Returned /\ ctxc) => /\ \A s \in Stages : status[s] \in {"W", "S", "D", "E", "C"}
                                        /\ \A s \in Stages : status[s] = "D" => /\ (~inc[s] => rpc[s] = "exited") /\ (~rfail[s] \/ Allow(s))
                                        /\ \A s \in Stages : cls[s] = "CERR" => status[s] \in {"E", "W"}
                                        /\ \A s \in Stages : (rpc[s] = "exited" /\ rfail[s] /\ ~Allow(s)) => status[s] = "E" /\ gerr[gr[s]]
\* reachability witnesses (negative controls: each MUST be violated, or the cancellation part is vacuous):
\* a Cancel call does return while some stage has been launched / a run is refused / a job is killed
InitCErr == /\ Init /\ cls = [s \in Stages |-> IF s = N THEN "CERR" ELSE "OK"] /\ deps = [s \in Stages |-> {}]
            /\ gr = [s \in Stages |-> 0] /\ inc = [s \in Stages |-> FALSE]
NeverQuietWithWork == ~(quiet /\ \E s \in Stages : rpc[s] = "exited" /\ rfail[s] /\ done[s] > 0)
NeverRefused == ~(\E s \in Stages : rpc[s] = "exited" /\ rfail[s] /\ done[s] = 0 /\ ran[s] = {} /\ ctxc /\ cls[s] = "OK" /\ hb[s] = "none")
FinalOK == (Returned /\ ~ctxc) =>
                       /\ \A s \in Stages : status[s] = ExpFinal(s)
                       /\ gerr[0] = (\E s \in Stages : gr[s] = 0 /\ Exp(s) = "E")
                       /\ \A s \in Stages : done[s] = ExpDone(s) /\ ran[s] = ExpRan(s)
                       /\ \A c \in Ctxs : (upst[c] # "no") = (\E s \in Stages : RunsTask(s) /\ ctx[s] = c)
RunOnlyWhileStageRunning == \A s \in Stages : rpc[s] = "entered" => gpc[s] = "inrun" /\ status[s] = "R"
Terminates == <>AllOver
=======================================================================
