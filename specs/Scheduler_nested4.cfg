CONSTANTS
  N = 4
  Classes = {"OK","FAIL","FAILA","CFALSE"}
  Nested = TRUE
  CallerCancels = FALSE
  Mode = "normal"
SPECIFICATION Spec
INVARIANTS FinalOK NoneLeft AtMostOnce DepsFinished NothingRunsAtReturn QuiescentIsClosure

CHECK_DEADLOCK FALSE
