---------------------------- MODULE TaskRunTable ----------------------------
(* Call/return table validation (C06/C07) for random larger tasks: rows recorded from   *)
(* the real TaskRunner.Run are judged against the statement-level definitions.          *)
(* Row: {nb, na, cond, nv, nc, allow, F (list of <<v,c>>), K, trace (list of token       *)
(* strings "b", "a", "j.v.c"), ret, errored, exitCode (+1), skipped}.                    *)
EXTENDS Naturals, Sequences, FiniteSets, TLC, Json
Rows == ndJsonDeserialize("rows.ndjson")
VARIABLE x
RECURSIVE JobsFrom(_, _, _)
JobsFrom(r, v, c) == IF r.nc = 0 \/ v > r.nv THEN <<>>
                     ELSE <<<<v, c>>>> \o (IF c < r.nc THEN JobsFrom(r, v, c + 1) ELSE JobsFrom(r, v + 1, 1))
AllJobs(r) == JobsFrom(r, 1, 1)
Fset(r) == {<<r.F[i][1], r.F[i][2]>> : i \in DOMAIN r.F}
FailIdx(r) == {i \in 1..Len(AllJobs(r)) : AllJobs(r)[i] \in Fset(r)}
FirstFail(r) == CHOOSE i \in FailIdx(r) : \A j \in FailIdx(r) : i <= j
Tok(j) == "j." \o ToString(j[1]) \o "." \o ToString(j[2])
Toks(js) == [i \in 1..Len(js) |-> Tok(js[i])]
HSeq(h) == CASE h = "none" -> <<>> [] h = "ok" -> <<"ok">> [] h = "fail" -> <<"fail">>
             [] h = "okok" -> <<"ok", "ok">> [] h = "okfail" -> <<"ok", "fail">> [] OTHER -> <<"fail", "ok">>
HasFail(h) == \E i \in DOMAIN HSeq(h) : HSeq(h)[i] = "fail"
FirstFailIdx(h) == CHOOSE i \in DOMAIN HSeq(h) : HSeq(h)[i] = "fail" /\ \A j \in 1..(i - 1) : HSeq(h)[j] = "ok"
HToks(tag, n) == [i \in 1..n |-> tag \o "." \o ToString(i)]
B(r) == HToks("b", Len(HSeq(r.nb)))
A(r) == HToks("a", Len(HSeq(r.na)))
Stops(r) == ~r.allow /\ FailIdx(r) # {}
ExpTrace(r) == IF r.cond = "false" THEN <<>>
               ELSE IF HasFail(r.nb) THEN HToks("b", FirstFailIdx(r.nb))
               ELSE IF Stops(r) THEN B(r) \o Toks(SubSeq(AllJobs(r), 1, FirstFail(r)))
               ELSE B(r) \o Toks(AllJobs(r)) \o A(r)
ExpErr(r) == r.cond # "false" /\ (HasFail(r.nb) \/ Stops(r))
ExpErrored(r) == r.cond # "false" /\ ~HasFail(r.nb) /\ Stops(r)
ExpSkipped(r) == r.cond = "false"
ExpExit(r) == IF ExpSkipped(r) THEN 0 ELSE IF ExpErrored(r) THEN r.K + 1 ELSE 1   \* exitCode + 1
RowOK(r) == /\ r.trace = ExpTrace(r)
            /\ (r.ret = "err") = ExpErr(r)
            /\ r.errored = ExpErrored(r)
            /\ r.skipped = ExpSkipped(r)
            /\ r.exitCode = ExpExit(r)
Bad == {i \in DOMAIN Rows : ~RowOK(Rows[i])}
Init == x = 0
Next == UNCHANGED x
Report == PrintT(<<"BAD", ToJson([bad |-> Bad, rows |-> Len(Rows)])>>)
=============================================================================
