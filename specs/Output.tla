---------------------------- MODULE Output ----------------------------
(* C11: a task's output is captured exactly and handed to the stages that depend on it. *)
(*   pkg/runner/runner.go storeTaskOutput: the export name and the runner-wide env      *)
(*   pkg/runner/runner.go Run: Store happens before Run returns, i.e. before the stage   *)
(*   goroutine publishes Done (pkg/scheduler/scheduler.go), and a dependant is launched  *)
(*   only after that status is read - so every dependant sees the export.                *)
(* AtomicStore = FALSE is a negative control: the export is added by copying the shared  *)
(* container and assigning the copy back (two steps), which loses one of two exports     *)
(* stored at about the same time.                                                        *)
EXTENDS Naturals, FiniteSets, Sequences, TLC
CONSTANTS N, AtomicStore
Stages == 1..N
VARIABLES deps, pc, exports, tmp, seen
vars == <<deps, pc, exports, tmp, seen>>
Init == /\ deps \in {f \in [Stages -> SUBSET Stages] : \A s \in Stages : \A d \in f[s] : d < s}
        /\ pc = [s \in Stages |-> "wait"] /\ exports = {} /\ tmp = [s \in Stages |-> {}]
        /\ seen = [s \in Stages |-> {}]
\* the scheduler launches a stage whose dependencies are all Done; its commands get the runner env
Launch(s) == /\ pc[s] = "wait" /\ \A d \in deps[s] : pc[d] = "done"
             /\ pc' = [pc EXCEPT ![s] = "run"] /\ seen' = [seen EXCEPT ![s] = exports]
             /\ UNCHANGED <<deps, exports, tmp>>
\* storeTaskOutput (runner.go): r.env.Set(name, output)
Store(s) == /\ pc[s] = "run" /\ AtomicStore
            /\ exports' = exports \cup {s} /\ pc' = [pc EXCEPT ![s] = "stored"]
            /\ UNCHANGED <<deps, tmp, seen>>
Copy(s) == /\ pc[s] = "run" /\ ~AtomicStore
           /\ tmp' = [tmp EXCEPT ![s] = exports] /\ pc' = [pc EXCEPT ![s] = "copied"]
           /\ UNCHANGED <<deps, exports, seen>>
Assign(s) == /\ pc[s] = "copied"
             /\ exports' = tmp[s] \cup {s} /\ pc' = [pc EXCEPT ![s] = "stored"]
             /\ UNCHANGED <<deps, tmp, seen>>
\* Run returned; the stage goroutine publishes Done
Publish(s) == /\ pc[s] = "stored" /\ pc' = [pc EXCEPT ![s] = "done"]
              /\ UNCHANGED <<deps, exports, tmp, seen>>
Next == \E s \in Stages : Launch(s) \/ Store(s) \/ Copy(s) \/ Assign(s) \/ Publish(s)
Spec == Init /\ [][Next]_vars

RECURSIVE Anc(_)
Anc(s) == deps[s] \cup UNION {Anc(d) : d \in deps[s]}
DependantSees == \A s \in Stages : pc[s] # "wait" => Anc(s) \subseteq seen[s]

\* --- the export name: <NAME>_OUTPUT, upper-cased, everything outside [A-Za-z0-9_] replaced by _ ---
\* character classes: "l" lower, "u" upper, "d" digit, "_" underscore, "o" any other printable
MapClass(c) == CASE c = "l" -> "u" [] c = "u" -> "u" [] c = "d" -> "d" [] c = "_" -> "_" [] OTHER -> "_"
EnvName(name) == [i \in 1..Len(name) |-> MapClass(name[i])]
=======================================================================
