CONSTANTS
  N = 3
  MaxCmd = 2
  MaxVar = 1
  NCtx = 0
  Nesting = FALSE
  HookKinds = {"none"}
SPECIFICATION Spec
INVARIANTS CommandsAfterDependencies StopsAtFailure FinalOK RunOnlyWhileStageRunning UpBeforeUse DownAfterAll OneUpAtATime NothingRunsAtReturn
PROPERTY Terminates
CHECK_DEADLOCK FALSE
