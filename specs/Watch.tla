---------------------------- MODULE Watch ----------------------------
(* C20, event part: internal/watch/watch.go Run loop and handle.                         *)
(* The loop takes one delivered event per iteration (after a one-second pause), starts a  *)
(* handler for it and goes on; the handler runs the watcher's task iff the event's type is *)
(* subscribed (all five types when none is listed), with EventName / EventPath set.        *)
EXTENDS Naturals, Sequences, FiniteSets, TLC
CONSTANTS MaxEv
Types == {"create", "write", "remove", "rename", "chmod"}
Paths == {"f1", "f2"}
VARIABLES listed, queue, handling, runs, alive, delivered
vars == <<listed, queue, handling, runs, alive, delivered>>
Subscribed == IF listed = {} THEN Types ELSE listed
Init == /\ listed \in SUBSET Types /\ queue = <<>> /\ handling = {} /\ runs = <<>> /\ alive = TRUE /\ delivered = <<>>
\* fsnotify delivers an event for an observed path
Deliver(t, p) == /\ alive /\ Len(delivered) < MaxEv
                 /\ queue' = Append(queue, [t |-> t, p |-> p]) /\ delivered' = Append(delivered, [t |-> t, p |-> p])
                 /\ UNCHANGED <<listed, handling, runs, alive>>
\* one loop iteration: take the next event and start its handler
Take == /\ alive /\ queue # <<>>
        /\ handling' = handling \cup {[e |-> Head(queue), n |-> Len(delivered) - Len(queue) + 1]}
        /\ queue' = Tail(queue)
        /\ UNCHANGED <<listed, runs, alive, delivered>>
\* handle(): filter by type, then run the task with the event's name and path
Handle(h) == /\ h \in handling /\ handling' = handling \ {h}
             /\ runs' = IF h.e.t \in Subscribed THEN Append(runs, [name |-> h.e.t, path |-> h.e.p]) ELSE runs
             /\ UNCHANGED <<listed, queue, alive, delivered>>
Close == /\ alive /\ alive' = FALSE /\ UNCHANGED <<listed, queue, handling, runs, delivered>>
Next == (\E t \in Types, p \in Paths : Deliver(t, p)) \/ Take \/ (\E h \in handling : Handle(h)) \/ Close
Spec == Init /\ [][Next]_vars /\ WF_vars(Take) /\ \A t \in Types, p \in Paths, n \in 1..MaxEv : WF_vars(Handle([e |-> [t |-> t, p |-> p], n |-> n]))

Count(seq, x) == Cardinality({i \in DOMAIN seq : seq[i] = x})
\* a run exists only for a delivered, subscribed event and describes it
RunsAreDeliveredSubscribed == \A i \in DOMAIN runs : runs[i].name \in Subscribed /\
                                  Count(runs, runs[i]) <= Count(delivered, [t |-> runs[i].name, p |-> runs[i].path])
\* when everything delivered has been handled: exactly one run per subscribed event, none for the others
Quiet == queue = <<>> /\ handling = {}
FiresIffSubscribed == Quiet => \A t \in Types, p \in Paths :
                         Count(runs, [name |-> t, path |-> p]) = (IF t \in Subscribed THEN Count(delivered, [t |-> t, p |-> p]) ELSE 0)
\* the watcher keeps serving: whatever was delivered while it is alive is eventually handled
KeepsServing == []((alive /\ queue # <<>>) => <>(queue = <<>> \/ ~alive))
=======================================================================
