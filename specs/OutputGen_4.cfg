CONSTANTS
  N = 4
  AtomicStore = TRUE
INIT GInit
NEXT GNext
INVARIANTS EmitGraph EmitNames
CHECK_DEADLOCK FALSE
