CONSTANTS
  MaxTargets = 2
  MaxArgs = 4
SPECIFICATION Spec
INVARIANTS ArgsVerbatim Emit
CHECK_DEADLOCK FALSE
