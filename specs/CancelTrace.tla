---------------------------- MODULE CancelTrace ----------------------------
(* Trace validation for the cancel hand-shake (C12): hook events recorded in the worker *)
(* processes (runner events are emitted under the runner's own mutex, executor events   *)
(* around the interpreter call) are replayed through the actions of Cancel.tla.         *)
(*   cfg                       a new execution (runner level: UseSched = FALSE)         *)
(*   RunEnter / RunRefused / RunExit {t}                                                *)
(*   CancelEnter / CancelSet / CancelExit                                               *)
(*   CmdStart {t,k}            the job is about to be handed to the interpreter        *)
(*   CmdEnd {t,k,completed}    the interpreter returned; completed = its end marker exists *)
EXTENDS Cancel, Json, TLCExt

Log == ndJsonDeserialize("trace.ndjson")
VARIABLE l
tvars == <<vars, l>>
Ev == Log[l]
Is(e) == l <= Len(Log) /\ Log[l].e = e
Consume == l' = l + 1

TInit == TLCSet(1, 1) /\ l = 1 /\ Init
TReset == /\ Is("cfg")
          /\ rpc' = [i \in Runs |-> "idle"] /\ cmd' = [i \in Runs |-> 1] /\ cpc' = [j \in Cans |-> "idle"]
          /\ ctxCancelled' = FALSE /\ canceling' = FALSE /\ chClosed' = FALSE /\ inflight' = 0
          /\ panicked' = FALSE /\ rerr' = [i \in Runs |-> "none"] /\ ncompleted' = [i \in Runs |-> 0]
          /\ cmdAfter' = FALSE /\ spc' = "off" /\ schedCancelled' = FALSE
          /\ Consume

\* Run entry under the mutex: the call and the registration are one observable step
TRunEnter == /\ Is("RunEnter") /\ rpc[Ev.t] = "idle" /\ ~ctxCancelled
             /\ rpc' = [rpc EXCEPT ![Ev.t] = "before"] /\ inflight' = inflight + 1
             /\ Consume /\ UNCHANGED <<cmd, cpc, ctxCancelled, canceling, chClosed, panicked, rerr, ncompleted, cmdAfter, spc, schedCancelled>>
TRunRefused == /\ Is("RunRefused") /\ rpc[Ev.t] = "idle" /\ ctxCancelled
               /\ rpc' = [rpc EXCEPT ![Ev.t] = "done"] /\ rerr' = [rerr EXCEPT ![Ev.t] = "ctx"]
               /\ Consume /\ UNCHANGED <<cmd, cpc, ctxCancelled, canceling, chClosed, inflight, panicked, ncompleted, cmdAfter, spc, schedCancelled>>
TRunExit == /\ Is("RunExit") /\ RunDefer(Ev.t) /\ Consume

KindPc(k) == CASE k = "b" -> "before" [] k = "a" -> "after" [] OTHER -> "cmd"
TCmdStart == /\ Is("CmdStart") /\ rpc[Ev.t] = KindPc(Ev.k)
             /\ (Ev.k = "1" => cmd[Ev.t] = 1) /\ (Ev.k = "2" => cmd[Ev.t] = 2)
             /\ \/ Ev.k = "b" /\ BeforeStart(Ev.t)
                \/ Ev.k \in {"1", "2"} /\ CmdStart(Ev.t)
                \/ Ev.k = "a" /\ AfterStart(Ev.t)
             /\ Consume
\* the interpreter returned: normally (end marker written) or interrupted / refused
TCmdEnd == /\ Is("CmdEnd")
           /\ \/ /\ rpc[Ev.t] = "defer" /\ ~Ev.completed           \* refused at the start: already accounted for
                 /\ UNCHANGED vars
              \/ /\ rpc[Ev.t] = "beforeRun" /\ Ev.k = "b" /\ BeforeEnd(Ev.t)
                 /\ (Ev.completed <=> rpc'[Ev.t] = "cmd")
              \/ /\ rpc[Ev.t] = "running" /\ Ev.k \in {"1", "2"} /\ CmdEnd(Ev.t)
                 /\ (Ev.completed <=> ncompleted'[Ev.t] = ncompleted[Ev.t] + 1)
              \/ /\ rpc[Ev.t] = "afterRun" /\ Ev.k = "a" /\ AfterEnd(Ev.t)
                 /\ (~Ev.completed => ctxCancelled)
           /\ Consume
TCancelEnter == /\ Is("CancelEnter") /\ \E j \in Cans : CancelCall(j) /\ Consume
TCancelSet == /\ Is("CancelSet") /\ \E j \in Cans : CancelSet(j) /\ Consume
TCancelExit == /\ Is("CancelExit") /\ \E j \in Cans : CancelWait(j) /\ Consume

TNext == TReset \/ TRunEnter \/ TRunRefused \/ TRunExit \/ TCmdStart \/ TCmdEnd \/ TCancelEnter \/ TCancelSet \/ TCancelExit
TSpec == TInit /\ [][TNext]_tvars

HW == TLCSet(1, IF TLCGet(1) < l THEN l ELSE TLCGet(1))
Accepted == TLCGet(1) = Len(Log) + 1
Matched == PrintT(<<"MATCHED", ToJson([upto |-> TLCGet(1) - 1, of |-> Len(Log)])>>)
PostCond == Matched /\ Accepted
=============================================================================
