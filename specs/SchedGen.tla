---------------------------- MODULE SchedGen ----------------------------
(* Behaviour generator for the lock-step replay (DESIGN.md 3.2/1, C01-C04).           *)
(* Big-step semantics of Scheduler.tla: Release(s) = the Run call of stage s returns, *)
(* followed by the closure of the scheduling loop (CSx) and, when the nested pipeline *)
(* has finished, the return of the nested Schedule.  That the fine-grained loop       *)
(* reaches exactly this closure at its quiescent points is invariant                  *)
(* QuiescentIsClosure of Scheduler.tla.  Every terminal state prints one behaviour:   *)
(* configuration, the observation predicted initially and after every release, and    *)
(* the final error flag.                                                              *)
EXTENDS Scheduler, Json

VARIABLE hist
gvars == <<vars, hist>>

RunSet(st) == {t \in Stages : st[t] = "R" /\ ~IsParent(t)}

Settle(st) ==
  LET c1 == [s \in Stages |-> CSx(st, s)]
  IN IF parent # 0 /\ c1[parent] = "R" /\ \A t \in inner : c1[t] \notin {"W", "R"}
       THEN LET subFail == \E t \in inner : c1[t] = "E"
                c2 == [c1 EXCEPT ![parent] = IF subFail /\ ~Allow(parent) THEN "E" ELSE "D"]
            IN [s \in Stages |-> CSx(c2, s)]
       ELSE c1

Obs(st) == [st |-> st, run |-> RunSet(st)]

GInit == /\ CfgInit
         /\ status = Settle([s \in Stages |-> "W"])
         /\ cancelled = FALSE /\ gerr = [g \in Graphs |-> FALSE]
         /\ pc = [g \in Graphs |-> "idle"]
         /\ todo = [g \in Graphs |-> {}] /\ clean = [g \in Graphs |-> FALSE] /\ chgd = [g \in Graphs |-> FALSE]
         /\ gor = [s \in Stages |-> "none"] /\ ran = [s \in Stages |-> 0] /\ intr = {}
         /\ hist = <<>>

Release(s) ==
  /\ s \in RunSet(status)
  /\ LET st1 == [status EXCEPT ![s] = IF cls[s] = "FAIL" THEN "E" ELSE "D"]
         st2 == Settle(st1)
     IN /\ status' = st2
        /\ hist' = Append(hist, [rel |-> s, failed |-> cls[s] \in {"FAIL", "FAILA"}, st |-> st2, run |-> RunSet(st2)])
  /\ UNCHANGED <<cfgv, cancelled, gerr, pc, todo, clean, chgd, gor, ran, intr>>

GNext == \E s \in Stages : Release(s)
GSpec == GInit /\ [][GNext]_gvars

Terminal == RunSet(status) = {}
RootErr == \E s \in StagesOf(0) : status[s] = "E"

\* the big-step result is the reference outcome of C02
GenFinalOK == Terminal => \A s \in Stages : status[s] = ExpFinal(s)
\* nothing is left running or waiting-but-reachable
GenNoneLeft == Terminal => \A s \in Stages : status[s] # "R" /\ (status[s] = "W" => ~Reached(s))

InitObs == Obs(Settle([s \in Stages |-> "W"]))
Emit == Terminal =>
          PrintT(<<"BEH", ToJson([n |-> N, deps |-> deps, cls |-> cls, parent |-> parent, inner |-> inner,
                                  init |-> InitObs, steps |-> hist, err |-> RootErr, final |-> status])>>)
=========================================================================
