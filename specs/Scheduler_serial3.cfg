CONSTANTS
  N = 3
  Classes = {"OK","FAIL","FAILA","CFALSE"}
  Nested = FALSE
  CallerCancels = FALSE
  Mode = "serial"
SPECIFICATION Spec
INVARIANTS FinalOK NoneLeft AtMostOnce DepsFinished NothingRunsAtReturn QuiescentIsClosure
PROPERTY Terminates FlatRefinement
CHECK_DEADLOCK FALSE
