---------------------------- MODULE WatchTable ----------------------------
(* C20, code -> model: rows recorded from the real watcher are judged by the definitions.  *)
(*  kind "match":  {pattern (segments), path (segments), matched}   doublestar.PathMatch    *)
(*                 - calibration of Glob.tla against the library (a mismatch is a spec error) *)
(*  kind "select": {paths (every path of the tree, as segments), inc, exc (patterns),        *)
(*                 observed (indices into paths the watcher reports it waits on)}            *)
(*  kind "events": {listed (event types), delivered [{t,p}], runs [{name,path}],            *)
(*                 touchedSelected, touchedOther (paths the checker operated on)}            *)
EXTENDS Glob, FiniteSets, Json
Rows == ndJsonDeserialize("rows.ndjson")
VARIABLE x
Types == {"create", "write", "remove", "rename", "chmod"}
ToSet(q) == {q[i] : i \in DOMAIN q}
Selected(r) == {i \in DOMAIN r.paths : (\E k \in DOMAIN r.inc : PathMatch(r.inc[k], r.paths[i]))
                                       /\ ~(\E k \in DOMAIN r.exc : PathMatch(r.exc[k], r.paths[i]))}
Count(seq, t, p) == Cardinality({i \in DOMAIN seq : seq[i].t = t /\ seq[i].p = p})
CountR(seq, t, p) == Cardinality({i \in DOMAIN seq : seq[i].name = t /\ seq[i].path = p})
Sub(r) == IF r.listed = <<>> THEN Types ELSE ToSet(r.listed)
AllPaths(r) == {r.delivered[i].p : i \in DOMAIN r.delivered} \cup {r.runs[i].path : i \in DOMAIN r.runs}
RowOK(r) ==
  CASE r.kind = "match" -> r.matched = PathMatch(r.pattern, r.path)
    [] r.kind = "select" -> ToSet(r.observed) = Selected(r)
    [] OTHER ->
        /\ \A p \in AllPaths(r) : \A t \in Types :
              CountR(r.runs, t, p) = (IF t \in Sub(r) THEN Count(r.delivered, t, p) ELSE 0)
        /\ \A i \in DOMAIN r.runs : r.runs[i].name \in Types
        /\ \A p \in ToSet(r.touchedSelected) : \E i \in DOMAIN r.delivered : r.delivered[i].p = p
        /\ \A p \in ToSet(r.touchedOther) : ~\E i \in DOMAIN r.delivered : r.delivered[i].p = p
Bad == {i \in DOMAIN Rows : ~RowOK(Rows[i])}
Init == x = 0
Next == UNCHANGED x
Report == PrintT(<<"BAD", ToJson([bad |-> Bad, rows |-> Len(Rows)])>>)
=============================================================================
