CONSTANTS
  N = 2
  MaxCmd = 1
  MaxVar = 1
  NCtx = 0
  Nesting = FALSE
  TaskAllow = TRUE
  AtomicLaunch = TRUE
  CondErr = FALSE
  ErrFirst = TRUE
  HookKinds = {"none", "ok", "fail"}
SPECIFICATION Spec
INVARIANTS CommandsAfterDependencies StopsAtFailure FinalOK RunOnlyWhileStageRunning UpBeforeUse DownAfterAll OneUpAtATime NothingRunsAtReturn NoDoubleLaunch
PROPERTY Terminates
CHECK_DEADLOCK FALSE
