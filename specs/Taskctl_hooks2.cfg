CONSTANTS
  N = 2
  MaxCmd = 1
  MaxVar = 2
  NCtx = 0
  Nesting = FALSE
  AtomicLaunch = TRUE
  HookKinds = {"none", "ok", "fail"}
SPECIFICATION Spec
INVARIANTS CommandsAfterDependencies StopsAtFailure FinalOK RunOnlyWhileStageRunning UpBeforeUse DownAfterAll OneUpAtATime NothingRunsAtReturn NoDoubleLaunch
PROPERTY Terminates
CHECK_DEADLOCK FALSE
