------------------------- MODULE CancelFlatProofs -------------------------
(* TLAPS proof that CancelFlat!Spec keeps NothingStartsAfterCancel (and QuietAfterCancel,        *)
(* Registered) invariant, for EVERY set of runs and of Cancel calls.                             *)
EXTENDS CancelFlat, TLAPS

LEMMA InitInd == Init => IndInv
  BY DEF Init, IndInv, TypeOK, Registered, QuietAfterCancel, NothingStartsAfterCancel, AnyReturned, RunStates, CanStates

LEMMA StepInd == IndInv /\ [Next]_vars => IndInv'
<1> SUFFICES ASSUME IndInv, [Next]_vars PROVE IndInv'
  OBVIOUS
<1> USE DEF IndInv, TypeOK, Registered, QuietAfterCancel, NothingStartsAfterCancel, AnyReturned, RunStates, CanStates
<1>1. CASE UNCHANGED vars
  BY <1>1 DEF vars
<1>2. ASSUME NEW i \in Runs, Call(i) PROVE IndInv'
  BY <1>2 DEF Call
<1>3. ASSUME NEW i \in Runs, Enter(i) PROVE IndInv'
  BY <1>3 DEF Enter
<1>4. ASSUME NEW i \in Runs, StartCmd(i) PROVE IndInv'
  BY <1>4 DEF StartCmd
<1>5. ASSUME NEW i \in Runs, Finish(i) PROVE IndInv'
  BY <1>5 DEF Finish
<1>6. ASSUME NEW i \in Runs, Exit(i) PROVE IndInv'
  BY <1>6 DEF Exit
<1>7. ASSUME NEW j \in Cans, CancelCall(j) PROVE IndInv'
  BY <1>7 DEF CancelCall
<1>8. ASSUME NEW j \in Cans, CancelSet(j) PROVE IndInv'
  BY <1>8 DEF CancelSet
<1>9. ASSUME NEW j \in Cans, CancelWait(j) PROVE IndInv'
  BY <1>9 DEF CancelWait
<1> QED BY <1>1, <1>2, <1>3, <1>4, <1>5, <1>6, <1>7, <1>8, <1>9 DEF Next

THEOREM Safety == Spec => [](NothingStartsAfterCancel /\ QuietAfterCancel /\ Registered)
<1>1. IndInv => NothingStartsAfterCancel /\ QuietAfterCancel /\ Registered
  BY DEF IndInv
<1> QED BY InitInd, StepInd, <1>1, PTL DEF Spec
=============================================================================
