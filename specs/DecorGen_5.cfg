CONSTANTS
  MaxTok = 5
  MaxCuts = 2
  HoldBack = TRUE
SPECIFICATION Spec
INVARIANTS PerTask Emit
CHECK_DEADLOCK FALSE
