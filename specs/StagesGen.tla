---------------------------- MODULE StagesGen ----------------------------
EXTENDS Stages, Json
GInit == Init
GNext == UNCHANGED vars
Emit == PrintT(<<"STG", ToJson([ns |-> NS, ov |-> ov, deps |-> deps])>>)
==========================================================================
