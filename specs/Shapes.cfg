INIT Init
NEXT Next
INVARIANTS Total Emit
CHECK_DEADLOCK FALSE
