CONSTANTS
  NF = 2
  Pinned = FALSE
  MarkAfterRead = FALSE
INIT GInit
NEXT GNext
INVARIANT Emit
CHECK_DEADLOCK FALSE
