CONSTANTS
  MaxTok = 3
  MaxCuts = 2
  HoldBack = FALSE
SPECIFICATION Spec
INVARIANTS PerTask 
CHECK_DEADLOCK FALSE
