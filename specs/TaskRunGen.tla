---------------------------- MODULE TaskRunGen ----------------------------
(* One implementation test per configuration of TaskRun.tla (C06, C07): every terminal *)
(* state prints the configuration, the expected token trace and the expected result.   *)
EXTENDS TaskRun, Json
AllStatuses == 1..255
Emit == Done => PrintT(<<"TR", ToJson([nb |-> nb, na |-> na, cond |-> cond, nv |-> nv, nc |-> nc, allow |-> allow,
                                         F |-> F, K |-> K, trace |-> trace, ret |-> ret, errored |-> errored,
                                         exitCode |-> exitCode + 1, skipped |-> skipped])>>)
===========================================================================
