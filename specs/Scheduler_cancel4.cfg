CONSTANTS
  N = 4
  Classes = {"OK","FAIL","CFALSE","CERR"}
  Nested = FALSE
  CallerCancels = TRUE
  Mode = "normal"
SPECIFICATION Spec
INVARIANTS FinalOK NoneLeft AtMostOnce DepsFinished NothingRunsAtReturn QuiescentIsClosure

PROPERTY FlatRefinement
CHECK_DEADLOCK FALSE
