---------------------------- MODULE OutputGen ----------------------------
(* emits (a) every dependency arrangement of N stages with the ancestor sets, (b) every   *)
(* task-name shape of length <= 3 over the five character classes with its export name.  *)
EXTENDS Output, Json
Classes == {"l", "u", "d", "_", "o"}
Names == UNION {[1..n -> Classes] : n \in 1..3}
GInit == Init
GNext == UNCHANGED vars
EmitGraph == PrintT(<<"DAG", ToJson([n |-> N, deps |-> deps, anc |-> [s \in Stages |-> Anc(s)]])>>)
EmitNames == (deps = [s \in Stages |-> {}]) => \A nm \in Names : PrintT(<<"NAME", ToJson([name |-> nm, env |-> EnvName(nm)])>>)
==========================================================================
