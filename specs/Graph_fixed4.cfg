CONSTANT N = 4
INIT Init
NEXT Next
INVARIANTS IffFixed EdgesExact
CHECK_DEADLOCK FALSE
