---------------------------- MODULE Contexts ----------------------------
(* pkg/runner/context.go Up/Down/Before/After, runner.go contextForTask/Finish; K concurrent runs *)
EXTENDS Naturals, FiniteSets, Sequences, TLC
CONSTANTS K, Ctxs, Shapes, Pinned
Runs == 1..K
VARIABLES ctxOf, upFails, shape,                       \* configuration
          up, rpc, ret, nUp, nBefore, nAfter, nDown, used, bodyStarted, bodyDone, finished
cfgv == <<ctxOf, upFails, shape>>
vars == <<ctxOf, upFails, shape, up, rpc, ret, nUp, nBefore, nAfter, nDown, used, bodyStarted, bodyDone, finished>>

Zero == [c \in Ctxs |-> 0]
Init == /\ ctxOf \in [Runs -> Ctxs] /\ upFails \in [Ctxs -> BOOLEAN] /\ shape \in [Runs -> Shapes]
        /\ up = [c \in Ctxs |-> "no"] /\ rpc = [r \in Runs |-> "idle"] /\ ret = [r \in Runs |-> "none"]
        /\ nUp = Zero /\ nBefore = Zero /\ nAfter = Zero /\ nDown = Zero /\ used = {}
        /\ bodyStarted = Zero /\ bodyDone = Zero /\ finished = FALSE

C(r) == ctxOf[r]
Go(r, p) == rpc' = [rpc EXCEPT ![r] = p]
Inc(f, c) == [f EXCEPT ![c] = @ + 1]
\* how often the pinned code re-enters contextForTask (and hence c.Before) at a phase
Extra(r, phase) == IF Pinned /\ shape[r][phase] THEN 1 ELSE 0

Call(r)    == /\ rpc[r] = "idle" /\ ~finished /\ Go(r, "wantUp") /\ used' = used \cup {C(r)}
              /\ UNCHANGED <<cfgv, up, ret, nUp, nBefore, nAfter, nDown, bodyStarted, bodyDone, finished>>
UpBegin(r) == /\ rpc[r] = "wantUp" /\ up[C(r)] = "no" /\ up' = [up EXCEPT ![C(r)] = "running"] /\ Go(r, "inUp")
              /\ UNCHANGED <<cfgv, ret, nUp, nBefore, nAfter, nDown, used, bodyStarted, bodyDone, finished>>
UpEnd(r)   == /\ rpc[r] = "inUp" /\ nUp' = Inc(nUp, C(r))
              /\ up' = [up EXCEPT ![C(r)] = IF upFails[C(r)] THEN "failed" ELSE "ok"] /\ Go(r, "afterUp")
              /\ UNCHANGED <<cfgv, ret, nBefore, nAfter, nDown, used, bodyStarted, bodyDone, finished>>
UpWait(r)  == /\ rpc[r] = "wantUp" /\ up[C(r)] \in {"ok", "failed"} /\ Go(r, "afterUp")
              /\ UNCHANGED <<cfgv, up, ret, nUp, nBefore, nAfter, nDown, used, bodyStarted, bodyDone, finished>>
AfterUp(r) == /\ rpc[r] = "afterUp"
              /\ IF up[C(r)] = "failed" THEN Go(r, "done") /\ ret' = [ret EXCEPT ![r] = "err"] /\ UNCHANGED nBefore
                 ELSE Go(r, "cond") /\ nBefore' = Inc(nBefore, C(r)) /\ UNCHANGED ret
              /\ UNCHANGED <<cfgv, up, nUp, nAfter, nDown, used, bodyStarted, bodyDone, finished>>
Cond(r)    == /\ rpc[r] = "cond"
              /\ nBefore' = [nBefore EXCEPT ![C(r)] = @ + Extra(r, "hasCond")]
              /\ IF shape[r].condFalse THEN Go(r, "ctxAfter") /\ ret' = [ret EXCEPT ![r] = "skipped"]
                                       ELSE Go(r, "tBefore") /\ UNCHANGED ret
              /\ UNCHANGED <<cfgv, up, nUp, nAfter, nDown, used, bodyStarted, bodyDone, finished>>
TBefore(r) == /\ rpc[r] = "tBefore" /\ nBefore' = [nBefore EXCEPT ![C(r)] = @ + Extra(r, "hasBefore")] /\ Go(r, "body")
              /\ bodyStarted' = Inc(bodyStarted, C(r))
              /\ UNCHANGED <<cfgv, up, ret, nUp, nAfter, nDown, used, bodyDone, finished>>
Body(r)    == /\ rpc[r] = "body" /\ bodyDone' = Inc(bodyDone, C(r))
              /\ IF shape[r].fails THEN Go(r, "ctxAfter") /\ ret' = [ret EXCEPT ![r] = "err"]
                                   ELSE Go(r, "tAfter") /\ UNCHANGED ret
              /\ UNCHANGED <<cfgv, up, nUp, nBefore, nAfter, nDown, used, bodyStarted, finished>>
TAfter(r)  == /\ rpc[r] = "tAfter" /\ nBefore' = [nBefore EXCEPT ![C(r)] = @ + Extra(r, "hasAfter")] /\ Go(r, "ctxAfter")
              /\ ret' = [ret EXCEPT ![r] = "ok"]
              /\ UNCHANGED <<cfgv, up, nUp, nAfter, nDown, used, bodyStarted, bodyDone, finished>>
CtxAfter(r) == /\ rpc[r] = "ctxAfter" /\ nAfter' = Inc(nAfter, C(r)) /\ Go(r, "done")
               /\ UNCHANGED <<cfgv, up, ret, nUp, nBefore, nDown, used, bodyStarted, bodyDone, finished>>
\* TaskRunner.Finish after all runs (runner.go:195-201)
Finish == /\ ~finished /\ \A r \in Runs : rpc[r] \in {"idle", "done"}
          /\ finished' = TRUE /\ nDown' = [c \in Ctxs |-> IF c \in used THEN nDown[c] + 1 ELSE nDown[c]]
          /\ UNCHANGED <<cfgv, up, rpc, ret, nUp, nBefore, nAfter, used, bodyStarted, bodyDone>>
Next == Finish \/ \E r \in Runs : Call(r) \/ UpBegin(r) \/ UpEnd(r) \/ UpWait(r) \/ AfterUp(r) \/ Cond(r)
                                   \/ TBefore(r) \/ Body(r) \/ TAfter(r) \/ CtxAfter(r)
Spec == Init /\ [][Next]_vars

Entered(c) == {r \in Runs : C(r) = c /\ (rpc[r] \in {"cond", "tBefore", "body", "tAfter", "ctxAfter"} \/ (rpc[r] = "done" /\ up[c] = "ok"))}
Passed(c) == Cardinality(Entered(c))
Completed(c) == Cardinality({r \in Runs : C(r) = c /\ rpc[r] = "done" /\ up[c] = "ok"})
UpOnce == \A c \in Ctxs : nUp[c] <= 1
UpFirst == \A c \in Ctxs : (nBefore[c] > 0 \/ bodyStarted[c] > 0 \/ nAfter[c] > 0) => up[c] = "ok"
UpFailedRunsNothing == \A r \in Runs : (rpc[r] = "done" /\ up[C(r)] = "failed") => ret[r] = "err"
BeforeOncePerExecution == \A c \in Ctxs : nBefore[c] = Passed(c)
BeforePrecedesBody == \A c \in Ctxs : nBefore[c] >= bodyStarted[c]
AfterOncePerExecution == \A c \in Ctxs : nAfter[c] = Completed(c)
AfterFollowsBody == \A c \in Ctxs : nAfter[c] <= Passed(c)
DownOnceOnlyUsed == /\ \A c \in Ctxs : nDown[c] = (IF finished /\ c \in used THEN 1 ELSE 0)
Sh(c, b, a, cf, f) == [hasCond |-> c, hasBefore |-> b, hasAfter |-> a, condFalse |-> cf, fails |-> f]
ShapesDef == {Sh(FALSE, FALSE, FALSE, FALSE, FALSE), Sh(TRUE, TRUE, TRUE, FALSE, FALSE),
              Sh(TRUE, FALSE, FALSE, TRUE, FALSE), Sh(FALSE, TRUE, FALSE, FALSE, TRUE)}
=========================================================================
