---------------------------- MODULE Shapes ----------------------------
(* C15: loading configuration never crashes.                                            *)
(* The configuration schema (internal/config/definitions.go, context.go) as a tree of     *)
(* positions; a mutation replaces the value at one position by a value of another shape.  *)
(* The loader (Loader.load / decode with WeaklyTypedInput + ErrorUnused / the builders)   *)
(* must be TOTAL: for every mutated document the outcome is Loaded or Rejected - never a  *)
(* crash or a hang.  Where the rules determine the outcome it is predicted:               *)
(*   an unknown key inside a structured entry is rejected (ErrorUnused);                  *)
(*   env_file lines: NAME=value, NAME=, NAME=a=b, blank and # comment lines load,         *)
(*   "=value" and a line without "=" and a missing file are rejected (utils.ReadEnvFile).  *)
EXTENDS Naturals, Sequences, FiniteSets, TLC, Json
Sections == {"contexts", "tasks", "pipelines", "watchers"}
FieldsOf(s) == CASE s = "contexts" -> {"dir", "up", "down", "before", "after", "env", "variables", "executable", "quote"}
                 [] s = "tasks" -> {"name", "description", "condition", "command", "after", "before", "context", "variations", "dir",
                                    "timeout", "allow_failure", "interactive", "exportas", "env", "env_file", "variables"}
                 [] s = "pipelines" -> {"name", "condition", "task", "pipeline", "depends_on", "allow_failure", "dir", "env", "variables"}
                 [] OTHER -> {"events", "watch", "exclude", "task", "variables"}
TopLevel == {"import", "import[0]", "variables", "debug", "output", "dryrun", "summary"}
Shapes == {"null", "int", "string", "bool", "list", "map", "deleted", "duplicated", "unknownkey", "emptystring", "listofmaps", "nestedlist",
           "intkey", "boolkey", "nullkey"}     \* a key that is not a string (YAML only): 2024, true, ~
\* position: <<section>> | <<section, "entry">> | <<section, "entry", field>> | <<"top", key>>
Positions == {<<"top", k>> : k \in TopLevel}
        \cup {<<s>> : s \in Sections}
        \cup {<<s, "entry">> : s \in Sections}
        \cup UNION {{<<s, "entry", f>> : f \in FieldsOf(s)} : s \in Sections}
LineClasses == {"kv", "kempty", "emptykey", "blankkey", "nokv", "blank", "kvv", "comment", "spaces", "crlf", "dq", "sq", "quoted"}
VARIABLES kind, pos, shape, lines, missing
vars == <<kind, pos, shape, lines, missing>>
Init == \/ /\ kind = "doc" /\ pos \in Positions /\ shape \in Shapes /\ lines = <<>> /\ missing = FALSE
        \/ /\ kind = "envfile" /\ pos = <<>> /\ shape = "none" /\ missing = FALSE
           /\ lines \in UNION {[1..n -> LineClasses] : n \in 0..3}
        \/ /\ kind = "envfile" /\ pos = <<>> /\ shape = "none" /\ missing = TRUE /\ lines = <<>>
Next == UNCHANGED vars
Outcomes == {"Loaded", "Rejected"}
\* (dq / sq: the value is a single quote character; quoted: a value in double quotes)
LineOK(c) == c \in {"kv", "kempty", "blankkey", "blank", "kvv", "comment", "spaces", "crlf", "dq", "sq", "quoted"}   \* (a name of blanks only is a name)
\* predicted outcome, "any" where the weak-typing rules are not transcribed
Predicted == IF kind = "envfile"
               THEN (IF missing \/ \E i \in DOMAIN lines : ~LineOK(lines[i]) THEN "Rejected" ELSE "Loaded")
               ELSE IF shape = "unknownkey" /\ Len(pos) = 2 /\ pos[1] # "top" THEN "Rejected"
               ELSE "any"
\* the transcription is total
Total == Predicted \in Outcomes \cup {"any"}
Emit == PrintT(<<"SHP", ToJson([kind |-> kind, pos |-> pos, shape |-> shape, lines |-> lines, missing |-> missing, predicted |-> Predicted])>>)
=======================================================================
