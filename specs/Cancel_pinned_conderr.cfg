CONSTANTS
  NR = 1
  NC = 1
  NCmd = 1
  Hooks = FALSE
  Fixed = FALSE
  UseSched = TRUE
  CondErr = TRUE
SPECIFICATION Spec
INVARIANTS NoPanic NoStartAfterCancel InterruptedReportsError DoneHasResult CancelReturnedMeansIdle
PROPERTIES ScheduleReturns
CHECK_DEADLOCK FALSE
