CONSTANT MaxEv = 3
SPECIFICATION Spec
INVARIANTS RunsAreDeliveredSubscribed FiresIffSubscribed
PROPERTY KeepsServing
CHECK_DEADLOCK FALSE
