---------------------------- MODULE Cli ----------------------------
(* C07 (process level): cmd/taskctl run.go / taskctl.go - targets are run left to right,  *)
(* a pipeline name wins over a task name, the first failing target ends the run, the      *)
(* process exit status is 0 exactly when every requested target succeeded.                *)
(* Three entry forms: the root action (`taskctl T..`), `taskctl run T..` and              *)
(* `taskctl run task T..` (tasks only: a pipeline name is an unknown task there).         *)
EXTENDS Naturals, Sequences, FiniteSets, TLC, Json
CONSTANT MaxLen
\* failHook: a task that fails without any command exiting non-zero (its before hook fails);
\* failVar: a task whose command refers to an undefined variable
Kinds == {"okTask", "failTask", "failHook", "failVar", "okPipe", "failPipe", "skipTask", "unknown"}
Forms == {"root", "run", "runtask"}
VARIABLES argv, form, i, ran, exit
vars == <<argv, form, i, ran, exit>>

Init == /\ argv \in UNION {[1..n -> Kinds] : n \in 1..MaxLen} /\ form \in Forms
        /\ i = 1 /\ ran = <<>> /\ exit = "running"
Eff(k) == IF form = "runtask" /\ k \in {"okPipe", "failPipe"} THEN "unknown" ELSE k
Succeeds(k) == Eff(k) \in {"okTask", "okPipe", "skipTask"}

\* run.go runTarget / the `run task` loop: one target
RunTarget == /\ exit = "running" /\ i <= Len(argv)
             /\ LET k == Eff(argv[i]) IN
                CASE k \in {"okTask", "okPipe", "skipTask"} -> ran' = Append(ran, i) /\ i' = i + 1 /\ UNCHANGED exit
                  [] k \in {"failTask", "failHook", "failVar", "failPipe"} -> ran' = Append(ran, i) /\ exit' = "1" /\ UNCHANGED i
                  [] OTHER -> exit' = "1" /\ UNCHANGED <<ran, i>>
             /\ UNCHANGED <<argv, form>>
\* every target done: app.Run returns nil
End == /\ exit = "running" /\ i > Len(argv) /\ exit' = "0" /\ UNCHANGED <<argv, form, i, ran>>
Next == RunTarget \/ End
Spec == Init /\ [][Next]_vars /\ WF_vars(Next)

Finished == exit # "running"
FirstBad == IF \E j \in 1..Len(argv) : ~Succeeds(argv[j])
              THEN CHOOSE j \in 1..Len(argv) : ~Succeeds(argv[j]) /\ \A m \in 1..(j - 1) : Succeeds(argv[m])
              ELSE 0
\* the statement, independent of the loop above
ExitZeroIffAllSucceeded == Finished => ((exit = "0") <=> \A j \in 1..Len(argv) : Succeeds(argv[j]))
InOrderNothingAfterFailure == Finished =>
    ran = [j \in 1..(IF FirstBad = 0 THEN Len(argv) ELSE IF Eff(argv[FirstBad]) = "unknown" THEN FirstBad - 1 ELSE FirstBad) |-> j]
Terminates == <>Finished
Emit == Finished => PrintT(<<"CLI", ToJson([argv |-> argv, form |-> form, ran |-> ran, exit |-> exit])>>)
=====================================================================
