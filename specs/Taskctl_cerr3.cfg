CONSTANTS
  N = 3
  MaxCmd = 1
  MaxVar = 1
  NCtx = 0
  Nesting = FALSE
  TaskAllow = FALSE
  AtomicLaunch = TRUE
  CondErr = TRUE
  ErrFirst = TRUE
  HookKinds = {"none"}
SPECIFICATION Spec
INVARIANTS CommandsAfterDependencies StopsAtFailure FinalOK CancelledFinal QuietAfterCancel RunOnlyWhileStageRunning UpBeforeUse DownAfterAll OneUpAtATime NothingRunsAtReturn NoDoubleLaunch
PROPERTY Terminates
CHECK_DEADLOCK FALSE
