CONSTANTS
  N = 4
  AtomicStore = TRUE
SPECIFICATION Spec
INVARIANT DependantSees
CHECK_DEADLOCK FALSE
