CONSTANTS
  MaxTok = 4
  MaxCuts = 3
  HoldBack = TRUE
SPECIFICATION Spec
PROPERTY Terminates
INVARIANTS PerTask 
CHECK_DEADLOCK FALSE
