CONSTANTS
  N = 4
  Classes = {"OK","FAIL","FAILA","CFALSE"}
  Nested = TRUE
  CallerCancels = FALSE
  Mode = "normal"
INIT GInit
NEXT GNext
INVARIANTS GenFinalOK GenNoneLeft Emit
CHECK_DEADLOCK FALSE
