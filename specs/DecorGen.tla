---------------------------- MODULE DecorGen ----------------------------
EXTENDS Decor, Json
Emit == done => PrintT(<<"DEC", ToJson([stream |-> stream, cuts |-> cuts, sink |-> sink])>>)
=========================================================================
