CONSTANT N = 4
INIT Init
NEXT Next
INVARIANTS IffPinned
CHECK_DEADLOCK FALSE
