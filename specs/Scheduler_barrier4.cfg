CONSTANTS
  N = 4
  Classes = {"OK","FAIL","FAILA","CFALSE"}
  Nested = FALSE
  CallerCancels = FALSE
  Mode = "barrier"
SPECIFICATION Spec
INVARIANTS FinalOK NoneLeft AtMostOnce DepsFinished NothingRunsAtReturn QuiescentIsClosure

PROPERTY FlatRefinement
CHECK_DEADLOCK FALSE
