CONSTANTS
  NF = 3
  Pinned = TRUE
  MarkAfterRead = FALSE
SPECIFICATION Spec
INVARIANTS Bounded ResultIsClosure BrokenFails
PROPERTY Terminates
CHECK_DEADLOCK FALSE
