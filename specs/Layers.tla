---------------------------- MODULE Layers ----------------------------
(* environment precedence (C09): intended Resolve vs. the chain of merges in the code *)
EXTENDS Naturals, Sequences, FiniteSets, TLC
CONSTANT FixedDedup
Levels == 1..6   \* 1 parent, 2 context, 3 env_file, 4 task env, 5 stage env, 6 variation
VARIABLES defs, val, mode
vars == <<defs, val, mode>>
\* values are numbers so that "sorts above/below" is meaningful; two orders: ascending / descending with the level
Init == /\ defs \in (SUBSET Levels) \ {{}}
        /\ val \in {[l \in Levels |-> l], [l \in Levels |-> 7 - l]}
        /\ mode \in {"direct", "stage"}
Next == UNCHANGED vars
Eff == IF mode = "direct" THEN defs \ {5} ELSE defs
Max(S) == CHOOSE x \in S : \A y \in S : y <= x
Resolve == IF Eff = {} THEN 0 ELSE val[Max(Eff)]
\* code: runner env < ctx env < task env(+env_file under it, +stage over it) < variation are merged into ONE map
\* (variables.Merge: argument wins), then appended to os.Environ() and de-duplicated by expand.ListEnviron
JobEnvLevels == Eff \ {1}
JobEnv == IF JobEnvLevels = {} THEN 0 ELSE val[Max(JobEnvLevels)]     \* pairwise Merge chain = highest level wins
Candidates == (IF 1 \in Eff THEN {val[1]} ELSE {}) \cup (IF JobEnv # 0 THEN {JobEnv} ELSE {})
DedupPinned == IF Candidates = {} THEN 0 ELSE Max(Candidates)           \* sort "NAME=value", keep the last of equal names
DedupFixed  == IF JobEnv # 0 THEN JobEnv ELSE IF 1 \in Eff THEN val[1] ELSE 0
Impl == IF FixedDedup THEN DedupFixed ELSE DedupPinned
ImplEqualsResolve == Impl = Resolve
=======================================================================
