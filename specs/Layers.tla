---------------------------- MODULE Layers ----------------------------
(* C09 / C10 (precedence): the intended resolution "the highest defining level wins"    *)
(* against the exact chain of Merge / With calls the code performs.                     *)
(* Environment levels: 1 parent process, 2 context env, 3 env_file, 4 task env,         *)
(*                     5 stage env, 6 variation.                                         *)
(*   internal/config/task.go:   FromMap(env_file).Merge(task env)                        *)
(*   pkg/scheduler/stage.go:    task env .Merge(stage env)          (stage mode only)    *)
(*   pkg/runner/runner.go:      runner env .Merge(context env) .With(TASK_NAME) .Merge(task env) *)
(*   pkg/runner/compiler.go:    env .Merge(variation)                                    *)
(*   pkg/executor/executor.go:  parent environment minus the job's names, plus the job env *)
(* Variable levels: 1 configuration, 2 --set, 3 task, 4 stage.                           *)
(*   internal/config/config.go merge, cmd/taskctl (--set), runner.go vars, stage.go      *)
(* Dir levels: stage, task (rendered), context, start directory.                        *)
(* Negative controls: PinnedEnv (duplicates resolved by sorting NAME=value),             *)
(* PinnedVars (configuration variables dropped; stage variables replace task variables), *)
(* EmptyYields (a merge that lets an EMPTY value yield to the value underneath it).      *)
(* Values: a defined value is a positive number; Empty stands for the empty string, which *)
(* is a value like any other ("regardless of the values involved"): in the third value    *)
(* order, "empty", the highest effective level gives the name the empty value.            *)
EXTENDS Naturals, Sequences, FiniteSets, TLC
CONSTANTS PinnedEnv, PinnedVars,
          Accumulate,     \* negative control: a variation's values stay in the environment of later variations
          EmptyYields     \* negative control: merging skips empty values when the name is already defined
VARIABLES kind, defs, ord, mode
vars == <<kind, defs, ord, mode>>
No == 0
Empty == 100                                     \* the empty string: defined, and sorts below every other value
\* variables.Merge for one name: the argument wins (whatever its value)
Over(a, b) == IF b # No /\ ~(EmptyYields /\ b = Empty /\ a # No) THEN b ELSE a
Max(S) == CHOOSE x \in S : \A y \in S : y <= x

Init == /\ kind \in {"env", "var", "dir"}
        /\ mode \in {"direct", "stage"}
        /\ ord \in (IF kind = "dir" THEN {"asc", "desc"} ELSE {"asc", "desc", "empty"})
        /\ defs \in CASE kind = "env" -> (SUBSET (1..6)) \ {{}}
                      [] kind = "var" -> (SUBSET (1..4)) \ {{}}
                      [] OTHER -> SUBSET (1..3)            \* dir: 1 context, 2 task, 3 stage
Next == UNCHANGED vars

Top == CASE kind = "env" -> 6 [] kind = "var" -> 4 [] OTHER -> 3
StageLevel == CASE kind = "env" -> 5 [] kind = "var" -> 4 [] OTHER -> 3
\* a stage-level definition exists only when the task runs as a stage
Eff == IF mode = "direct" THEN defs \ {StageLevel} ELSE defs
\* the value given at level l: ascending or descending with the level, so that a higher level's
\* value sorts both above and below a lower level's
EmptyLevel == IF ord = "empty" /\ Eff # {} THEN Max(Eff) ELSE 0      \* the level that gives the empty value
Val(l) == IF l = EmptyLevel THEN Empty ELSE IF ord = "desc" THEN Top + 1 - l ELSE l
Def(l) == IF l \in Eff THEN Val(l) ELSE No
Gt(a, b) == a # Empty /\ (b = Empty \/ a > b)                          \* order of the NAME=value strings

\* intended
Resolve == IF Eff = {} THEN No ELSE Val(Max(Eff))
\* intended, for a later variation of the same task that does not define the name ("the CURRENT
\* variation"), and for a direct run of the task after the pipeline (stage level gone)
EffLater == IF kind = "env" THEN Eff \ {6} ELSE defs \ {StageLevel}
ResolveLater == IF EffLater = {} THEN No ELSE Val(Max(EffLater))

\* --- environment, as the code computes it ---
TaskEnv == Over(Def(3), Def(4))
StageTaskEnv == IF mode = "stage" THEN Over(TaskEnv, Def(5)) ELSE TaskEnv
JobEnv == Over(Over(Def(2), StageTaskEnv), Def(6))
ImplEnv == IF PinnedEnv
             THEN (IF Def(1) = No THEN JobEnv ELSE IF JobEnv = No THEN Def(1)
                   ELSE IF Gt(Def(1), JobEnv) THEN Def(1) ELSE JobEnv)      \* sort NAME=value, keep the last
             ELSE Over(Def(1), JobEnv)
\* --- template variables ---
CfgVars == IF PinnedVars THEN No ELSE Def(1)
RunnerVars == Over(CfgVars, Def(2))
TaskVars == IF mode = "stage" /\ Def(4) # No
              THEN (IF PinnedVars THEN Def(4) ELSE Over(Def(3), Def(4)))     \* pinned: t.Env.Merge(stage.Variables)
              ELSE Def(3)
ImplVar == Over(RunnerVars, TaskVars)
\* --- working directory (0 = the directory taskctl was started in) ---
StageTaskDir == IF mode = "stage" /\ Def(3) # No THEN Def(3) ELSE Def(2)
ImplDir == IF StageTaskDir # No THEN StageTaskDir ELSE Def(1)

\* a second variation that does not define X: compiler.go merges each variation into the task's
\* env afresh (env.Merge(variant) per command), nothing of the first variation remains
JobEnvLater == IF Accumulate THEN JobEnv ELSE Over(Def(2), StageTaskEnv)
ImplEnvLater == Over(Def(1), JobEnvLater)
\* a direct run after the pipeline: the task object itself was never touched by the stage
ImplVarLater == Over(RunnerVars, Def(3))
ImplDirLater == IF Def(2) # No THEN Def(2) ELSE Def(1)

Impl == CASE kind = "env" -> ImplEnv [] kind = "var" -> ImplVar [] OTHER -> ImplDir
ImplLater == CASE kind = "env" -> ImplEnvLater [] kind = "var" -> ImplVarLater [] OTHER -> ImplDirLater
ImplEqualsResolve == Impl = Resolve /\ ImplLater = ResolveLater
=======================================================================
