--------------------------- MODULE SpinnerStart ---------------------------
(* pkg/output/cockpit.go baseCockpit.add / start: the first task under the cockpit format      *)
(* creates the spinner.  spinner.New(..., WithColor) already starts the drawing goroutine;     *)
(* every frame that goroutine takes the spinner's lock and, holding it, calls PreUpdate, which  *)
(* takes the cockpit's mutex b.mu; add() then calls Start(), which takes the spinner's lock.    *)
(* Variant (constant Add):                                                                      *)
(*   "underMu"   : add() does all of this with b.mu held          (the code before the fix)     *)
(*   "outsideMu" : b.mu is released before the spinner is created (the code after the fix)      *)
(* Adds == number of tasks added one after another (only the first creates the spinner); with   *)
(* Frames drawing-goroutine frames at most (bounds the model).                                  *)
EXTENDS Naturals, TLC
CONSTANTS Add, Adds, Frames
VARIABLES bmu, slock,          \* holders: "free" | "add" | "draw"
          apc, todo, created,  \* add(): program counter, tasks still to add, spinner created
          dpc, frames          \* drawing goroutine
vars == <<bmu, slock, apc, todo, created, dpc, frames>>
Init == /\ bmu = "free" /\ slock = "free" /\ apc = "idle" /\ todo = Adds /\ created = FALSE
        /\ dpc = "unborn" /\ frames = 0

\* ---- add(t) ----
AddLockMu   == /\ apc = "idle" /\ todo > 0 /\ bmu = "free" /\ bmu' = "add" /\ apc' = "listed"
               /\ UNCHANGED <<slock, todo, created, dpc, frames>>
\* tasks = append(tasks, t); the fixed code releases b.mu here
AddListed   == /\ apc = "listed"
               /\ bmu' = (IF Add = "outsideMu" THEN "free" ELSE bmu)
               /\ apc' = (IF created THEN "unlock" ELSE "new")
               /\ UNCHANGED <<slock, todo, created, dpc, frames>>
\* spinner.New(..., WithColor(..)) : Color() restarts, i.e. starts, the spinner; PreUpdate is set
AddNew      == /\ apc = "new" /\ created' = TRUE /\ dpc' = "loop" /\ apc' = "start"
               /\ UNCHANGED <<bmu, slock, todo, frames>>
\* s.Start(): lock; already active; unlock
AddStartLk  == /\ apc = "start" /\ slock = "free" /\ slock' = "add" /\ apc' = "started"
               /\ UNCHANGED <<bmu, todo, created, dpc, frames>>
AddStarted  == /\ apc = "started" /\ slock' = "free" /\ apc' = "unlock"
               /\ UNCHANGED <<bmu, todo, created, dpc, frames>>
AddUnlock   == /\ apc = "unlock" /\ bmu' = (IF bmu = "add" THEN "free" ELSE bmu)
               /\ apc' = "idle" /\ todo' = todo - 1
               /\ UNCHANGED <<slock, created, dpc, frames>>
\* ---- the drawing goroutine: one frame ----
DrawLock    == /\ dpc = "loop" /\ frames < Frames /\ slock = "free" /\ slock' = "draw" /\ dpc' = "pre"
               /\ UNCHANGED <<bmu, apc, todo, created, frames>>
PreLockMu   == /\ dpc = "pre" /\ bmu = "free" /\ bmu' = "draw" /\ dpc' = "preIn"
               /\ UNCHANGED <<slock, apc, todo, created, frames>>
PreUnlockMu == /\ dpc = "preIn" /\ bmu' = "free" /\ dpc' = "print"
               /\ UNCHANGED <<slock, apc, todo, created, frames>>
DrawUnlock  == /\ dpc = "print" /\ slock' = "free" /\ dpc' = "loop" /\ frames' = frames + 1
               /\ UNCHANGED <<bmu, apc, todo, created>>
Next == AddLockMu \/ AddListed \/ AddNew \/ AddStartLk \/ AddStarted \/ AddUnlock
        \/ DrawLock \/ PreLockMu \/ PreUnlockMu \/ DrawUnlock
Spec == Init /\ [][Next]_vars /\ WF_vars(AddListed) /\ WF_vars(AddNew) /\ WF_vars(AddStarted) /\ WF_vars(AddUnlock)
             /\ SF_vars(AddLockMu) /\ SF_vars(AddStartLk)
             /\ WF_vars(PreUnlockMu) /\ WF_vars(DrawUnlock) /\ SF_vars(PreLockMu)

\* add() waits for the spinner's lock held by the drawing goroutine, which waits for b.mu held by add()
LockCycle == apc = "start" /\ slock = "draw" /\ dpc = "pre" /\ bmu = "add"
NoLockCycle == ~LockCycle
AllAdded == <>(todo = 0 /\ apc = "idle")
=============================================================================
