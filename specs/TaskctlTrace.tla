---------------------------- MODULE TaskctlTrace ----------------------------
(* Whole-binary trace validation: the unified event log of one `taskctl <pipeline>` process *)
(* (internal/veriftrace, build tag verif) replayed through the actions of Taskctl.tla.       *)
(*   cfg {n, deps, cls, ncmd, failAt}     st {s, v}      enter {s} / ret {s, failed}          *)
(*   RunEnter {s} / RunExit {s}           CmdStart {s} / CmdEnd {s, err}    done {err, final} *)
EXTENDS Taskctl, Json, TLCExt
Log == ndJsonDeserialize("trace.ndjson")
VARIABLE l
tvars == <<vars, l>>
Ev == Log[l]
Is(e) == l <= Len(Log) /\ Log[l].e = e
Consume == l' = l + 1
ToSet(q) == {q[i] : i \in DOMAIN q}

TInit == /\ TLCSet(1, 1) /\ l = 1
         /\ deps = [s \in Stages |-> {}] /\ cls = [s \in Stages |-> "OK"] /\ ncmd = [s \in Stages |-> 1] /\ failAt = [s \in Stages |-> 1]
         /\ status = [s \in Stages |-> "W"] /\ gerr = FALSE /\ loop = FALSE
         /\ gpc = [s \in Stages |-> "none"] /\ rpc = [s \in Stages |-> "none"]
         /\ done = [s \in Stages |-> 0] /\ crun = [s \in Stages |-> FALSE] /\ rfail = [s \in Stages |-> FALSE]
TReset == /\ Is("cfg") /\ (IF l = 1 THEN TRUE ELSE Log[l - 1].e = "done") /\ Ev.n = N
          /\ deps' = [s \in Stages |-> ToSet(Ev.deps[s])] /\ cls' = [s \in Stages |-> Ev.cls[s]]
          /\ ncmd' = [s \in Stages |-> Ev.ncmd[s]] /\ failAt' = [s \in Stages |-> Ev.failAt[s]]
          /\ status' = [s \in Stages |-> "W"] /\ gerr' = FALSE /\ loop' = TRUE
          /\ gpc' = [s \in Stages |-> "none"] /\ rpc' = [s \in Stages |-> "none"]
          /\ done' = [s \in Stages |-> 0] /\ crun' = [s \in Stages |-> FALSE] /\ rfail' = [s \in Stages |-> FALSE]
          /\ Consume
TStLoop == /\ Is("st") /\ gpc[Ev.s] = "none" /\ Visit(Ev.s) /\ status'[Ev.s] = Ev.v /\ Consume
TStDupCancel == /\ Is("st") /\ Ev.v = "C" /\ status[Ev.s] = "C" /\ Consume /\ UNCHANGED vars
TStPublish == /\ Is("st") /\ gpc[Ev.s] = "back" /\ Publish(Ev.s) /\ status'[Ev.s] = Ev.v /\ Consume
TEnter == /\ Is("enter") /\ StageEnter(Ev.s) /\ Consume
TRet == /\ Is("ret") /\ StageRet(Ev.s) /\ Ev.failed = rfail[Ev.s] /\ Consume
TRunEnter == /\ Is("RunEnter") /\ RunEnter(Ev.s) /\ Consume
TRunExit == /\ Is("RunExit") /\ RunExit(Ev.s) /\ Consume
TCmdStart == /\ Is("CmdStart") /\ CmdStart(Ev.s) /\ Consume
TCmdEnd == /\ Is("CmdEnd") /\ CmdEnd(Ev.s) /\ ((Ev.err # "nil") = rfail'[Ev.s]) /\ Consume
TDone == /\ Is("done") /\ loop /\ (\A s \in Stages : status[s] \notin {"W", "R"} /\ gpc[s] \in {"none", "fin"})
         /\ gerr = Ev.err /\ (\A s \in Stages : status[s] = Ev.final[s])
         /\ loop' = FALSE /\ Consume
         /\ UNCHANGED <<cfgv, status, gerr, gpc, rpc, done, crun, rfail>>
TNext == TReset \/ TStLoop \/ TStDupCancel \/ TStPublish \/ TEnter \/ TRet \/ TRunEnter \/ TRunExit \/ TCmdStart \/ TCmdEnd \/ TDone
HW == TLCSet(1, IF TLCGet(1) < l THEN l ELSE TLCGet(1))
Accepted == TLCGet(1) = Len(Log) + 1
Matched == PrintT(<<"MATCHED", ToJson([upto |-> TLCGet(1) - 1, of |-> Len(Log)])>>)
PostCond == Matched /\ Accepted
=============================================================================
