---------------------------- MODULE TaskctlTrace ----------------------------
(* Whole-binary trace validation: the unified event log of one `taskctl <pipeline>` process *)
(* (internal/veriftrace, build tag verif) replayed through the actions of Taskctl.tla.       *)
(*   cfg {n, deps, cls, ncmd, failAt, nvar, ctx, hb, ha, upFails, gr, inc}   st {s, v}   enter {s} / ret {s, failed} *)
(*   nret {}  a nested Schedule call (of some including stage) returned                                        *)
(*   RunEnter {s} / RunExit {s}     CmdStart {s, role} / CmdEnd {s, role, err}  (role tb cmd ta)             *)
(*   CmdStart {c, role} / CmdEnd {c, role, err}  (role up cb ca down) done {err, final}      end {}          *)
(*   summary {printed, exitfail, lines}  what the process printed and returned (from its stdout / exit status)  *)
EXTENDS Taskctl, Json, TLCExt
Log == ndJsonDeserialize("trace.ndjson")
VARIABLE l
tvars == <<vars, l>>
Ev == Log[l]
Is(e) == l <= Len(Log) /\ Log[l].e = e
Consume == l' = l + 1
ToSet(q) == {q[i] : i \in DOMAIN q}

Zs == [s \in Stages |-> 0]
RunInit0 == /\ status = [s \in Stages |-> "W"] /\ gerr = [g \in Graphs |-> FALSE]
            /\ nl = [s \in Stages |-> "none"] /\ by = Zs /\ want = [s \in Stages |-> {}] /\ twice = FALSE
            /\ gpc = [s \in Stages |-> "none"] /\ rpc = [s \in Stages |-> "none"]
            /\ pt = [s \in Stages |-> "start"] /\ role = [s \in Stages |-> "none"]
            /\ done = Zs /\ rfail = [s \in Stages |-> FALSE] /\ ran = [s \in Stages |-> {}]
            /\ upst = [c \in Ctxs |-> "no"] /\ dn = [c \in Ctxs |-> "no"]
            /\ canc = "no" /\ ctxc = FALSE /\ quiet = FALSE
TInit == /\ TLCSet(1, 1) /\ l = 1
         /\ deps = [s \in Stages |-> {}] /\ cls = [s \in Stages |-> "OK"] /\ ncmd = [s \in Stages |-> 1] /\ failAt = [s \in Stages |-> 1]
         /\ nvar = [s \in Stages |-> 1] /\ ctx = Zs /\ hb = [s \in Stages |-> "none"] /\ ha = [s \in Stages |-> "none"]
         /\ upFails = [c \in Ctxs |-> FALSE] /\ tallow = [s \in Stages |-> FALSE] /\ gr = Zs /\ inc = [s \in Stages |-> FALSE]
         /\ RunInit0 /\ loop = FALSE
TReset == /\ Is("cfg") /\ (IF l = 1 THEN TRUE ELSE Log[l - 1].e = "end") /\ Ev.n = N
          /\ deps' = [s \in Stages |-> ToSet(Ev.deps[s])] /\ cls' = [s \in Stages |-> Ev.cls[s]]
          /\ ncmd' = [s \in Stages |-> Ev.ncmd[s]] /\ failAt' = [s \in Stages |-> Ev.failAt[s]]
          /\ nvar' = [s \in Stages |-> Ev.nvar[s]] /\ ctx' = [s \in Stages |-> Ev.ctx[s]]
          /\ hb' = [s \in Stages |-> Ev.hb[s]] /\ ha' = [s \in Stages |-> Ev.ha[s]]
          /\ upFails' = [c \in Ctxs |-> Ev.upFails[c]] /\ tallow' = [s \in Stages |-> Ev.tallow[s]]
          /\ gr' = [s \in Stages |-> Ev.gr[s]] /\ inc' = [s \in Stages |-> Ev.inc[s]]
          /\ status' = [s \in Stages |-> "W"] /\ gerr' = [g \in Graphs |-> FALSE] /\ loop' = TRUE
          /\ nl' = [s \in Stages |-> "none"] /\ by' = Zs /\ want' = [s \in Stages |-> {}] /\ twice' = FALSE
          /\ gpc' = [s \in Stages |-> "none"] /\ rpc' = [s \in Stages |-> "none"]
          /\ pt' = [s \in Stages |-> "start"] /\ role' = [s \in Stages |-> "none"]
          /\ done' = Zs /\ rfail' = [s \in Stages |-> FALSE] /\ ran' = [s \in Stages |-> {}]
          /\ upst' = [c \in Ctxs |-> "no"] /\ dn' = [c \in Ctxs |-> "no"]
          /\ canc' = "no" /\ ctxc' = FALSE /\ quiet' = FALSE
          /\ Consume
TStLoop == /\ Is("st") /\ gpc[Ev.s] = "none" /\ (Visit(Ev.s) \/ VisitCErr(Ev.s)) /\ status'[Ev.s] = Ev.v /\ Consume
\* the loop's own Scheduler.Cancel: the call, the moment the runner's context is cancelled, the return
TCancel == /\ Is("cancel") /\ CancelCall /\ Consume
TCSet == /\ Is("cset") /\ CancelSet /\ Consume
TCExit == /\ Is("cexit") /\ CancelDone /\ Consume
TRefused == /\ Is("refused") /\ RunRefused(Ev.s) /\ Consume
TStDupCancel == /\ Is("st") /\ Ev.v = "C" /\ status[Ev.s] = "C" /\ Consume /\ UNCHANGED vars
\* two nested loops over one included pipeline may both find a condition false and both store Skipped
TStDupSkip == /\ Is("st") /\ Ev.v = "S" /\ status[Ev.s] = "S" /\ gr[Ev.s] = 1 /\ cls[Ev.s] = "CFALSE"
              /\ Cardinality({i \in Stages : inc[i]}) > 1 /\ Consume /\ UNCHANGED vars
TStPublish == /\ Is("st") /\ gpc[Ev.s] = "back" /\ PublishAtomic(Ev.s) /\ status'[Ev.s] = Ev.v /\ Consume
TEnter == /\ Is("enter") /\ StageEnter(Ev.s) /\ Consume
TRet == /\ Is("ret") /\ StageRet(Ev.s) /\ Ev.failed = rfail'[Ev.s] /\ Consume
TNRet == /\ Is("nret") /\ (\E i \in Stages : NReturn(i)) /\ Consume
TRunEnter == /\ Is("RunEnter") /\ RunEnter(Ev.s) /\ Consume
TRunExit == /\ Is("RunExit") /\ RunExit(Ev.s) /\ Consume
\* a job of a stage's run (task hooks and commands carry the stage's name): the recorded role must
\* be the one the run is at
TCmdStart == /\ Is("CmdStart") /\ Ev.role \in {"tb", "cmd", "ta"} /\ NextOp(Ev.s) = Ev.role /\ CmdStart(Ev.s) /\ Consume
TCmdEnd == /\ Is("CmdEnd") /\ Ev.role \in {"tb", "cmd", "ta"} /\ role[Ev.s] = Ev.role /\ CmdEnd(Ev.s)
           /\ (Ev.err # "nil") = (CASE Ev.role = "ta" -> ha[Ev.s] = "fail"
                                    [] Ev.role = "cmd" -> FailsNow(Ev.s)                                \* (tolerated or not)
                                    [] OTHER -> rfail'[Ev.s])
           /\ Consume
\* a job that ends with an error once the runner's context has been cancelled was interrupted
TCmdKilled == /\ Is("CmdEnd") /\ Ev.role \in {"tb", "cmd", "ta"} /\ role[Ev.s] = Ev.role /\ Ev.err # "nil"
              /\ CmdKilled(Ev.s) /\ Consume
\* a job of a context (up, before, after): executed on behalf of some run that is at that point
\* (the log names the context, not the run)
TCtxStart == /\ Is("CmdStart") /\ Ev.role \in {"up", "cb", "ca"}
             /\ \E s \in Stages : ctx[s] = Ev.c /\ NextOp(s) = Ev.role /\ CmdStart(s)
             /\ Consume
TCtxEnd == /\ Is("CmdEnd") /\ Ev.role \in {"up", "cb", "ca"}
           /\ \E s \in Stages : ctx[s] = Ev.c /\ role[s] = Ev.role /\ CmdEnd(s)
           /\ ((Ev.err # "nil") = (Ev.role = "up" /\ upFails[Ev.c])) /\ Consume
TDownStart == /\ Is("CmdStart") /\ Ev.role = "down" /\ DownStart(Ev.c) /\ Consume
TDownEnd == /\ Is("CmdEnd") /\ Ev.role = "down" /\ DownEnd(Ev.c) /\ Consume
TDone == /\ Is("done") /\ loop /\ canc \in {"no", "done"}
         /\ (\A s \in Stages : gr[s] = 0 => status[s] # "R" /\ (canc = "no" => status[s] # "W") /\ gpc[s] \in {"none", "fin"})
         /\ gerr[0] = Ev.err /\ (\A s \in Stages : status[s] = Ev.final[s])
         /\ loop' = FALSE /\ Consume
         /\ UNCHANGED <<cfgv, cvars, status, gerr, want, twice, nl, by, gpc, rpc, pt, role, done, rfail, ran, upst, dn>>
\* what the user is told when the process exits: a failed run exits non-zero and prints no summary; a
\* run that succeeded lists every stage of the pipeline that was asked for, once, with its final status
\* (completed or skipped: nothing else can be left), and no stage of an included pipeline
TSummary == /\ Is("summary") /\ ~loop /\ Ev.exitfail = gerr[0]
            /\ Ev.printed \in (IF gerr[0] THEN {"no"} ELSE {"yes", "unknown"})    \* (unknown: no header recognised)
            /\ (Ev.printed = "yes" => \A s \in Stages : Ev.lines[s] \in {"?", IF gr[s] = 0 THEN status[s] ELSE "-"}
                                                                        \cup (IF status[s] = "W" THEN {"-"} ELSE {}))   \* (left Waiting by a cancelled run)
            /\ (\A s \in Stages : gr[s] = 0 /\ ~gerr[0] /\ ~ctxc => status[s] \in {"D", "S"})
            /\ Consume /\ UNCHANGED vars
\* the process has exited: every context that was used has been taken down
TEnd == /\ Is("end") /\ AllOver /\ Consume /\ UNCHANGED vars
\* not recorded: the moment the runner's context is cancelled (between the events cancel and cset)
TSilentCtxCancel == CtxCancel /\ UNCHANGED l
TNext == TSilentCtxCancel \/ TCancel \/ TCSet \/ TCExit \/ TRefused \/ TCmdKilled \/ TReset \/ TStLoop \/ TStDupCancel \/ TStDupSkip \/ TStPublish \/ TEnter \/ TRet \/ TNRet \/ TRunEnter \/ TRunExit \/ TCmdStart \/ TCmdEnd
         \/ TCtxStart \/ TCtxEnd \/ TDownStart \/ TDownEnd \/ TDone \/ TSummary \/ TEnd
HW == TLCSet(1, IF TLCGet(1) < l THEN l ELSE TLCGet(1))
Accepted == TLCGet(1) = Len(Log) + 1
Matched == PrintT(<<"MATCHED", ToJson([upto |-> TLCGet(1) - 1, of |-> Len(Log)])>>)
PostCond == Matched /\ Accepted
=============================================================================
