---------------------------- MODULE TimedRun ----------------------------
(* C13: a task timeout bounds every one of its commands.                               *)
(* TaskRunner.Run with a discrete clock: pkg/executor/executor.go wraps the context of  *)
(* EVERY job (before hooks, commands, after hooks) in its own context.WithTimeout, so   *)
(* each command gets the full timeout.  PerTask = TRUE is the negative control: one     *)
(* deadline fixed when the task starts.                                                 *)
(* Steps: before hooks (a failure - also an expiry - ends the task with an error),      *)
(* commands (an expiry is not an exit status: it fails the task even with allow_failure *)
(* and nothing further starts), after hooks (failures and expiries are only logged;     *)
(* every after hook is attempted).                                                      *)
EXTENDS Naturals, Sequences, FiniteSets, TLC

CONSTANTS T,         \* timeout in ticks
          MaxJ,      \* commands per task: 1..MaxJ
          PerTask    \* negative control
Durs == {"short", "near", "over"}          \* 1 tick, T-1 ticks, longer than anything (never ends by itself)
Ticks(d) == CASE d = "short" -> 1 [] d = "near" -> T - 1 [] OTHER -> 10 * T
VARIABLES bdur, jdur, adur, allow,          \* configuration: durations of hooks (sequences) and commands
          phase, idx, running, started, deadline, now,
          tokens, ret, errored, expired, t0
cfgv == <<bdur, jdur, adur, allow>>
vars == <<bdur, jdur, adur, allow, phase, idx, running, started, deadline, now, tokens, ret, errored, expired, t0>>

SeqsUpTo(S, n) == UNION {[1..k -> S] : k \in 0..n}
Init == /\ bdur \in SeqsUpTo({"short", "over"}, 1)
        /\ jdur \in UNION {[1..k -> Durs] : k \in 1..MaxJ}
        /\ adur \in SeqsUpTo({"short", "over"}, 2)
        /\ allow \in BOOLEAN
        /\ phase = "before" /\ idx = 1 /\ running = FALSE /\ started = 0 /\ deadline = 0 /\ now = 0
        /\ tokens = <<>> /\ ret = "none" /\ errored = FALSE /\ expired = <<>> /\ t0 = 0

List == CASE phase = "before" -> bdur [] phase = "jobs" -> jdur [] phase = "after" -> adur [] OTHER -> <<>>
Tag == CASE phase = "before" -> "b" [] phase = "jobs" -> "j" [] OTHER -> "a"
NextPhase == CASE phase = "before" -> "jobs" [] phase = "jobs" -> "after" [] OTHER -> "done"

\* the list of the current phase is exhausted
Advance == /\ ~running /\ phase # "done" /\ idx > Len(List)
           /\ phase' = NextPhase /\ idx' = 1
           /\ ret' = IF phase = "jobs" /\ ret = "none" THEN "nil" ELSE ret
           /\ UNCHANGED <<cfgv, running, started, deadline, now, tokens, errored, expired, t0>>
\* executor.Execute: context.WithTimeout per job
Start == /\ ~running /\ phase # "done" /\ idx <= Len(List)
         /\ running' = TRUE /\ started' = now
         /\ deadline' = IF PerTask THEN t0 + T ELSE now + T
         /\ tokens' = Append(tokens, <<Tag, idx, "start">>)
         /\ UNCHANGED <<cfgv, phase, idx, now, ret, errored, expired, t0>>
\* the command ends by itself
Finish == /\ running /\ now - started >= Ticks(List[idx]) /\ now < deadline
          /\ running' = FALSE /\ tokens' = Append(tokens, <<Tag, idx, "end">>)
          /\ idx' = idx + 1
          /\ UNCHANGED <<cfgv, phase, started, deadline, now, ret, errored, expired, t0>>
\* the timeout expires while it runs: the command is terminated
Expire == /\ running /\ now >= deadline
          /\ running' = FALSE /\ expired' = Append(expired, <<Tag, idx>>)
          /\ CASE phase = "before" -> ret' = "err" /\ phase' = "done" /\ UNCHANGED <<idx, errored>>
               [] phase = "jobs" -> ret' = "err" /\ errored' = TRUE /\ phase' = "done" /\ UNCHANGED idx
               [] OTHER -> idx' = idx + 1 /\ UNCHANGED <<phase, ret, errored>>
          /\ UNCHANGED <<cfgv, started, deadline, now, tokens, t0>>
\* time passes while a command runs, but neither beyond its own duration nor beyond its deadline
\* (it ends, or is terminated, promptly)
Tick == /\ phase # "done" /\ running /\ now < deadline /\ now - started < Ticks(List[idx])
        /\ now' = now + 1
        /\ UNCHANGED <<cfgv, phase, idx, running, started, deadline, tokens, ret, errored, expired, t0>>
Next == Advance \/ Start \/ Finish \/ Expire \/ Tick
Spec == Init /\ [][Next]_vars /\ WF_vars(Next)

Done == phase = "done"
\* --- the statement ---
\* a running command never outlives its timeout
Bounded == running => now <= started + T
\* a command that needs less than the timeout is unaffected, whatever ran before it
FullTimeoutEach == \A i \in 1..Len(expired) :
      LET e == expired[i] IN
        (e[1] = "b" => bdur[e[2]] = "over") /\ (e[1] = "j" => jdur[e[2]] = "over") /\ (e[1] = "a" => adur[e[2]] = "over")
\* an expiry among the commands fails the task, also with allow_failure, and nothing else starts
FirstOverJ == IF \E q \in DOMAIN jdur : jdur[q] = "over" THEN CHOOSE q \in DOMAIN jdur : jdur[q] = "over" /\ \A m \in 1..(q - 1) : jdur[m] # "over" ELSE 0
BeforeOver == \E q \in DOMAIN bdur : bdur[q] = "over"
Started(tag, q) == \E i \in DOMAIN tokens : tokens[i] = <<tag, q, "start">>
FailsOnExpiry == Done =>
      /\ (BeforeOver => ret = "err" /\ (\A k \in DOMAIN jdur : ~Started("j", k)))
      /\ (~BeforeOver /\ FirstOverJ # 0 => /\ ret = "err" /\ errored
                                            /\ (\A k \in DOMAIN jdur : Started("j", k) <=> k <= FirstOverJ)
                                            /\ (\A k \in DOMAIN adur : ~Started("a", k)))
      /\ (~BeforeOver /\ FirstOverJ = 0 => /\ ret = "nil" /\ ~errored
                                            /\ (\A k \in DOMAIN jdur : Started("j", k))
                                            /\ (\A k \in DOMAIN adur : Started("a", k)))   \* an overrunning after hook is merely cut short
Terminates == <>Done
=========================================================================
