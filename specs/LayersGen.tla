---------------------------- MODULE LayersGen ----------------------------
EXTENDS Layers, Json
Emit == PrintT(<<"LAY", ToJson([kind |-> kind, defs |-> defs, ord |-> ord, mode |-> mode, expect |-> Resolve, top |-> Top])>>)
==========================================================================
