---------------------------- MODULE LayersGen ----------------------------
EXTENDS Layers, Json
Emit == PrintT(<<"LAY", ToJson([kind |-> kind, defs |-> defs, ord |-> ord, mode |-> mode, expect |-> Resolve, later |-> ResolveLater, top |-> Top, empty |-> EmptyLevel])>>)
==========================================================================
