CONSTANTS
  NF = 3
  Pinned = FALSE
  MarkAfterRead = TRUE
SPECIFICATION Spec
INVARIANTS Bounded ResultIsClosure BrokenFails
PROPERTY Terminates
CHECK_DEADLOCK FALSE
