CONSTANTS
  NS = 2
  Pinned = TRUE
SPECIFICATION Spec
INVARIANTS Isolation NoResidue
CHECK_DEADLOCK FALSE
