CONSTANTS
  NR = 4
  NC = 2
  NCmd = 2
  Hooks = TRUE
  Fixed = TRUE
  UseSched = FALSE
  CondErr = FALSE
INIT TInit
NEXT TNext
CONSTRAINT HW
INVARIANTS NoPanic NoStartAfterCancel InterruptedReportsError DoneHasResult CancelReturnedMeansIdle
POSTCONDITION PostCond
CHECK_DEADLOCK FALSE
