CONSTANTS
  PinnedEnv = FALSE
  PinnedVars = FALSE
INIT Init
NEXT Next
INVARIANTS ImplEqualsResolve Emit
CHECK_DEADLOCK FALSE
