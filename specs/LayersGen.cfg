CONSTANTS
  EmptyYields = FALSE
  PinnedEnv = FALSE
  Accumulate = FALSE
  PinnedVars = FALSE
INIT Init
NEXT Next
INVARIANTS ImplEqualsResolve Emit
CHECK_DEADLOCK FALSE
