---------------------------- MODULE Glob ----------------------------
(* Glob matching as github.com/bmatcuk/doublestar v1 does it, on paths split into segments. *)
(* A pattern segment is a sequence of one-character strings; "*" matches any run of          *)
(* characters within a segment, "?" exactly one; the segment <<"*","*">> is the doublestar   *)
(* segment and matches zero or more whole segments - except that a trailing one needs at     *)
(* least one segment (doublestar: "a/**" does not match "a").                                 *)
EXTENDS Naturals, Sequences, TLC
RECURSIVE SegMatch(_, _)
SegMatch(p, n) ==
  IF p = <<>> THEN n = <<>>
  ELSE IF Head(p) = "*" THEN SegMatch(Tail(p), n) \/ (n # <<>> /\ SegMatch(p, Tail(n)))
  ELSE IF n = <<>> THEN FALSE
  ELSE (Head(p) = "?" \/ Head(p) = Head(n)) /\ SegMatch(Tail(p), Tail(n))
IsDS(seg) == seg = <<"*", "*">>
RECURSIVE PathMatch(_, _)
PathMatch(P, Q) ==
  IF P = <<>> THEN Q = <<>>
  ELSE IF IsDS(Head(P)) THEN
         IF Tail(P) = <<>> THEN Q # <<>>                                       \* trailing **: one segment or more
         ELSE PathMatch(Tail(P), Q) \/ (Q # <<>> /\ PathMatch(P, Tail(Q)))
  ELSE Q # <<>> /\ SegMatch(Head(P), Head(Q)) /\ PathMatch(Tail(P), Tail(Q))
=====================================================================
