---------------------------- MODULE Glob ----------------------------
EXTENDS Naturals, Sequences, TLC
\* a name / pattern segment is a sequence of one-character strings; "*" and "?" are wildcards; <<"**">> is the doublestar segment
RECURSIVE SegMatch(_, _)
SegMatch(p, n) ==
  IF p = <<>> THEN n = <<>>
  ELSE IF Head(p) = "*" THEN SegMatch(Tail(p), n) \/ (n # <<>> /\ SegMatch(p, Tail(n)))
  ELSE IF n = <<>> THEN FALSE
  ELSE (Head(p) = "?" \/ Head(p) = Head(n)) /\ SegMatch(Tail(p), Tail(n))
RECURSIVE PathMatch(_, _)
PathMatch(P, Q) ==
  IF P = <<>> THEN Q = <<>>
  ELSE IF Head(P) = <<"**">> THEN PathMatch(Tail(P), Q) \/ (Q # <<>> /\ PathMatch(P, Tail(Q)))
  ELSE Q # <<>> /\ SegMatch(Head(P), Head(Q)) /\ PathMatch(Tail(P), Tail(Q))

S(str) == str   \* placeholder
a == <<"a">>  b == <<"b">>  ab == <<"a","b">>  star == <<"*">>  q == <<"?">>  dstar == <<"**">>
astar == <<"a","*">>
Tests == <<
  PathMatch(<<a, dstar, b>>, <<a, b>>),            \* TRUE  a/**/b ~ a/b
  PathMatch(<<a, dstar, b>>, <<a, ab, b>>),        \* TRUE  a/**/b ~ a/ab/b
  PathMatch(<<a, star>>, <<a, ab>>),               \* TRUE  a/* ~ a/ab
  PathMatch(<<a, star>>, <<a, ab, b>>),            \* FALSE a/* !~ a/ab/b
  PathMatch(<<astar>>, <<ab>>),                    \* TRUE  a* ~ ab
  PathMatch(<<q>>, <<ab>>),                        \* FALSE ? !~ ab
  PathMatch(<<dstar, b>>, <<b>>),                  \* TRUE  **/b ~ b
  PathMatch(<<dstar>>, <<a, b>>)                   \* TRUE  ** ~ a/b
>>
ASSUME PrintT(Tests)
VARIABLE x
Init == x = 0
Next == UNCHANGED x
=====================================================================
