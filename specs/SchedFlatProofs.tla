------------------------- MODULE SchedFlatProofs -------------------------
(* TLAPS proofs (tlapm --threads 8 SchedFlatProofs.tla; 105 obligations) that SchedFlat!Spec   *)
(* keeps DepsFinished and AtMostOnce invariant and that "over" is stable, for EVERY set of     *)
(* stages, dependency relation, class assignment and schedule.                                 *)
EXTENDS SchedFlat, TLAPS

LEMMA InitInd == Init => IndInv
  BY DEF Init, IndInv, TypeOK, DepsFinished, ClassSet, StatusSet, GorSet, Over, Allow

LEMMA OverStable == IndInv /\ [Next]_vars => \A d \in Stages : Over(d) => Over(d)'
<1> SUFFICES ASSUME IndInv, [Next]_vars, NEW d \in Stages, Over(d) PROVE Over(d)'
  OBVIOUS
<1>1. CASE Cancel
  BY <1>1 DEF Cancel, Over
<1>2. CASE UNCHANGED vars
  BY <1>2 DEF vars, Over
<1>3. ASSUME NEW s \in Stages, Step(s) PROVE Over(d)'
  <2>1. CASE VisitCondErr(s) BY <2>1 DEF VisitCondErr, Over, IndInv, TypeOK
  <2>2. CASE VisitSkip(s)    BY <2>2 DEF VisitSkip, Over, IndInv, TypeOK
  <2>3. CASE VisitCancel(s)  BY <2>3 DEF VisitCancel, Over, IndInv, TypeOK
  <2>4. CASE VisitLaunch(s)  BY <2>4 DEF VisitLaunch, Over, IndInv, TypeOK
  <2>5. CASE ReturnOK(s)     BY <2>5 DEF ReturnOK, Over, IndInv, TypeOK
  <2>6. CASE ReturnErr(s)    BY <2>6 DEF ReturnErr, Over, IndInv, TypeOK
  <2>7. CASE PublishDone(s)  BY <2>7 DEF PublishDone, Over, IndInv, TypeOK
  <2> QED BY <1>3, <2>1, <2>2, <2>3, <2>4, <2>5, <2>6, <2>7 DEF Step
<1> QED BY <1>1, <1>2, <1>3 DEF Next

LEMMA StepInd == IndInv /\ [Next]_vars => IndInv'
<1> SUFFICES ASSUME IndInv, [Next]_vars PROVE IndInv'
  OBVIOUS
<1>0. \A d \in Stages : Over(d) => Over(d)'
  BY OverStable
<1>1. CASE Cancel
  BY <1>1 DEF Cancel, IndInv, TypeOK, DepsFinished, Over, Allow
<1>2. CASE UNCHANGED vars
  BY <1>2 DEF vars, IndInv, TypeOK, DepsFinished, Over, Allow
<1>3. ASSUME NEW s \in Stages, Step(s) PROVE IndInv'
  <2>1. CASE VisitCondErr(s)
    BY <2>1 DEF VisitCondErr, IndInv, TypeOK, DepsFinished, Over, Allow, StatusSet, GorSet
  <2>2. CASE VisitSkip(s)
    BY <2>2 DEF VisitSkip, IndInv, TypeOK, DepsFinished, Over, Allow, StatusSet, GorSet
  <2>3. CASE VisitCancel(s)
    BY <2>3 DEF VisitCancel, IndInv, TypeOK, DepsFinished, Over, Allow, StatusSet, GorSet
  <2>4. CASE VisitLaunch(s)
    <3>1. \A d \in deps[s] : Over(d)
      BY <2>4 DEF VisitLaunch, Sat, IndInv, TypeOK, Over, Allow
    <3>2. TypeOK'
      BY <2>4 DEF VisitLaunch, IndInv, TypeOK, StatusSet, GorSet
    <3>3. DepsFinished'
      BY <2>4, <3>1, <1>0 DEF VisitLaunch, IndInv, TypeOK, DepsFinished
    <3> QED
      BY <2>4, <3>2, <3>3 DEF VisitLaunch, IndInv, TypeOK, Allow, StatusSet, GorSet
  <2>5. CASE ReturnOK(s)
    <3>1. DepsFinished'
      BY <2>5, <1>0 DEF ReturnOK, IndInv, TypeOK, DepsFinished
    <3> QED
      BY <2>5, <3>1 DEF ReturnOK, IndInv, TypeOK, Allow, StatusSet, GorSet
  <2>6. CASE ReturnErr(s)
    <3>1. DepsFinished'
      BY <2>6, <1>0 DEF ReturnErr, IndInv, TypeOK, DepsFinished
    <3> QED
      BY <2>6, <3>1 DEF ReturnErr, IndInv, TypeOK, Allow, StatusSet, GorSet
  <2>7. CASE PublishDone(s)
    <3>1. DepsFinished'
      BY <2>7, <1>0 DEF PublishDone, IndInv, TypeOK, DepsFinished
    <3> QED
      BY <2>7, <3>1 DEF PublishDone, IndInv, TypeOK, Allow, StatusSet, GorSet
  <2> QED BY <1>3, <2>1, <2>2, <2>3, <2>4, <2>5, <2>6, <2>7 DEF Step
<1> QED BY <1>1, <1>2, <1>3 DEF Next

THEOREM Safety == Spec => [](DepsFinished /\ AtMostOnce)
<1>1. IndInv => DepsFinished /\ AtMostOnce
  BY DEF IndInv, AtMostOnce
<1> QED BY InitInd, StepInd, <1>1, PTL DEF Spec

THEOREM Stability == Spec => OverIsStable
<1>1. IndInv /\ [Next]_vars => [\A d \in Stages : Over(d) => Over(d)']_vars
  BY OverStable
<1>2. Spec => []IndInv
  BY InitInd, StepInd, PTL DEF Spec
<1> QED BY <1>1, <1>2, PTL DEF Spec, OverIsStable
=============================================================================
