module verif/harness

go 1.21

require (
	github.com/pelletier/go-toml v1.8.0
	github.com/sirupsen/logrus v1.4.2
	github.com/taskctl/taskctl v0.0.0
	gopkg.in/yaml.v2 v2.3.0
	github.com/bmatcuk/doublestar v1.1.5
)

require (
	github.com/briandowns/spinner v0.0.0-20200215035459-6dc224009eae // indirect
	github.com/fatih/color v1.7.0 // indirect
	github.com/logrusorgru/aurora v0.0.0-20191017060258-dc85c304c434 // indirect
	github.com/mattn/go-colorable v0.1.4 // indirect
	github.com/mattn/go-isatty v0.0.10 // indirect
	golang.org/x/sync v0.0.0-20190911185100-cd5d95a43a6e // indirect
	golang.org/x/sys v0.0.0-20200217220822-9197077df867 // indirect
	golang.org/x/term v0.0.0-20191110171634-ad39bd3f0407 // indirect
	golang.org/x/xerrors v0.0.0-20191204190536-9bdfabe68543 // indirect
	mvdan.cc/sh/v3 v3.1.1 // indirect
)

replace github.com/taskctl/taskctl => /repo
