// Package taskrun binds TaskRun.tla and Cli.tla (C06, C07) to the real TaskRunner and to
// the taskctl binary.
package taskrun

import (
	"bytes"
	"encoding/json"
	"fmt"
	"io/ioutil"
	"math/rand"
	"os"
	"path/filepath"
	"strings"
	"sync"
	"sync/atomic"
	"time"

	"github.com/sirupsen/logrus"
	"github.com/taskctl/taskctl/pkg/runner"
	"github.com/taskctl/taskctl/pkg/scheduler"
	"github.com/taskctl/taskctl/pkg/task"
	"github.com/taskctl/taskctl/pkg/variables"

	"verif/harness/internal/core"
)

// Case is one configuration of TaskRun.tla with the expected observation.
type Case struct {
	Nb       string            `json:"nb"`
	Na       string            `json:"na"`
	Cond     string            `json:"cond"`
	Nv       int               `json:"nv"`
	Nc       int               `json:"nc"`
	Allow    bool              `json:"allow"`
	F        [][]int           `json:"F"`
	K        int               `json:"K"`
	RawTrace []json.RawMessage `json:"trace"`
	Ret      string            `json:"ret"`
	Errored  bool              `json:"errored"`
	ExitCode int               `json:"exitCode"` // model's exitCode + 1
	Skipped  bool              `json:"skipped"`
}

func (c *Case) tokens() []string {
	var out []string
	for _, r := range c.RawTrace {
		var a []interface{}
		if json.Unmarshal(r, &a) != nil || len(a) == 0 {
			continue
		}
		var p []string
		for _, x := range a {
			switch v := x.(type) {
			case string:
				p = append(p, v)
			case float64:
				p = append(p, fmt.Sprint(int(v)))
			}
		}
		out = append(out, strings.Join(p, "."))
	}
	return out
}

func (c *Case) cfgKey() string {
	return fmt.Sprintf("%s/%s/%s/%d/%d/%v/%v/%d", c.Nb, c.Na, c.Cond, c.Nv, c.Nc, c.Allow, c.F, c.K)
}

func init() { logrus.SetOutput(ioutil.Discard) }

// Observed is what the real TaskRunner did for a case.
type Observed struct {
	Trace    []string `json:"trace"`
	Stdout   []string `json:"stdout_tokens"`
	Ret      string   `json:"ret"`
	Errored  bool     `json:"errored"`
	ExitCode int      `json:"exitCode"` // + 1
	Skipped  bool     `json:"skipped"`
	Overlap  bool     `json:"overlap"` // start/end markers not properly nested
	ErrText  string   `json:"errtext,omitempty"`
}

// buildTask materialises a configuration as a real task. Every command appends
// "S", its token and "E" to the trace file and prints its token; its exit status comes
// from the variation's own environment (F<c>), as the design prescribes.
func buildTask(c *Case, trace string, explicitSingleVariation bool) *task.Task {
	var cmds []string
	for k := 1; k <= c.Nc; k++ {
		// (a command is one script: a statement in the middle that ends non-zero - `false;`, a grep that
		// finds nothing - does not end it; its status is the status of its last statement)
		mid := ""
		if k%2 == 0 {
			mid = " false;"
		} else {
			mid = " false | cat;" // (nor does a pipeline whose last part succeeds)
		}
		cmds = append(cmds, fmt.Sprintf(`echo S >> "$TRACE";%s echo "j.${V:-1}.%d" >> "$TRACE"; echo "j.${V:-1}.%d"; echo E >> "$TRACE"; exit ${F%d:-0}`, mid, k, k, k))
	}
	t := task.FromCommands(cmds...)
	t.Name = "t"
	t.Env = variables.FromMap(map[string]string{"TRACE": trace})
	isF := func(v, k int) bool {
		for _, p := range c.F {
			if len(p) == 2 && p[0] == v && p[1] == k {
				return true
			}
		}
		return false
	}
	if c.Nv > 1 || explicitSingleVariation {
		for v := 1; v <= c.Nv; v++ {
			m := map[string]string{"V": fmt.Sprint(v)}
			for k := 1; k <= c.Nc; k++ {
				if isF(v, k) {
					m[fmt.Sprintf("F%d", k)] = fmt.Sprint(c.K)
				}
			}
			t.Variations = append(t.Variations, m)
		}
	} else {
		for k := 1; k <= c.Nc; k++ {
			if isF(1, k) {
				t.Env.Set(fmt.Sprintf("F%d", k), fmt.Sprint(c.K))
			}
		}
	}
	hook := func(tok, shape string) []string {
		var seq []string
		switch shape {
		case "ok":
			seq = []string{"ok"}
		case "fail":
			seq = []string{"fail"}
		case "okok":
			seq = []string{"ok", "ok"}
		case "okfail":
			seq = []string{"ok", "fail"}
		case "failok":
			seq = []string{"fail", "ok"}
		}
		var out []string
		for i, o := range seq {
			cmd := fmt.Sprintf(`echo %s.%d >> "$TRACE"; echo %s.%d`, tok, i+1, tok, i+1)
			if i == 1 {
				cmd = "false; " + cmd
			}
			if o == "fail" {
				cmd += "; exit 1"
			} else if i == 0 {
				// the status of a pipeline is the status of its LAST part
				cmd += "; false | cat"
			}
			out = append(out, cmd)
		}
		return out
	}
	t.Before = hook("b", c.Nb)
	t.After = hook("a", c.Na)
	switch c.Cond {
	case "true":
		t.Condition = "exit 0"
	case "false":
		// any non-zero status of the condition skips the task: it exits with the case's status K
		t.Condition = fmt.Sprintf("exit %d", c.K)
	}
	t.AllowFailure = c.Allow
	return t
}

func readTrace(path string) (tokens []string, overlap bool) {
	b, _ := ioutil.ReadFile(path)
	depth := 0
	for _, l := range strings.Split(string(b), "\n") {
		switch l {
		case "":
		case "S":
			depth++
			if depth > 1 {
				overlap = true
			}
		case "E":
			depth--
			if depth < 0 {
				overlap = true
			}
		default:
			if strings.HasPrefix(l, "j.") && depth != 1 {
				overlap = true
			}
			tokens = append(tokens, l)
		}
	}
	return
}

// RunCase executes the real TaskRunner on the case.
func RunCase(c *Case, dir string, explicitSingle bool) (*Observed, *task.Task) {
	trace := filepath.Join(dir, "trace")
	_ = os.Remove(trace)
	t := buildTask(c, trace, explicitSingle)
	r, err := runner.NewTaskRunner()
	if err != nil {
		core.Broken("NewTaskRunner: %v", err)
	}
	var so bytes.Buffer
	r.Stdout, r.Stderr = &so, ioutil.Discard
	e := r.Run(t)
	o := &Observed{Ret: "nil", Errored: t.Errored, ExitCode: int(t.ExitCode) + 1, Skipped: t.Skipped}
	if e != nil {
		o.Ret = "err"
		o.ErrText = e.Error()
	}
	o.Trace, o.Overlap = readTrace(trace)
	for _, l := range strings.Split(so.String(), "\n") {
		if l != "" {
			o.Stdout = append(o.Stdout, l)
		}
	}
	if o.Trace == nil {
		o.Trace = []string{}
	}
	return o, t
}

func eq(a, b []string) bool {
	if len(a) != len(b) {
		return false
	}
	for i := range a {
		if a[i] != b[i] {
			return false
		}
	}
	return true
}

// judge compares observation and model; returns findings as (property, kind, text).
func judge(c *Case, o *Observed) [][3]string {
	var out [][3]string
	exp := c.tokens()
	if exp == nil {
		exp = []string{}
	}
	if !eq(o.Trace, exp) {
		kind := "order-or-extent-of-commands"
		if len(o.Trace) > len(exp) {
			kind = "command-ran-that-must-not-run"
		} else if len(o.Trace) < len(exp) {
			kind = "command-missing"
		}
		out = append(out, [3]string{"C06", kind, fmt.Sprintf("commands ran %v, model %v", o.Trace, exp)})
	} else if !eq(o.Stdout, exp) {
		out = append(out, [3]string{"C06", "stdout-tokens-differ-from-trace", fmt.Sprintf("stdout tokens %v, trace %v", o.Stdout, exp)})
	}
	if o.Overlap {
		out = append(out, [3]string{"C06", "commands-overlap", "start/end markers of commands are not properly nested: commands did not run one at a time"})
	}
	if o.Skipped != c.Skipped {
		out = append(out, [3]string{"C06", "skipped-flag", fmt.Sprintf("Skipped=%v, model %v", o.Skipped, c.Skipped)})
		out = append(out, [3]string{"C07", "skipped-flag", fmt.Sprintf("Skipped=%v, model %v", o.Skipped, c.Skipped)})
	}
	if o.Ret != c.Ret {
		out = append(out, [3]string{"C07", "returned-error", fmt.Sprintf("Run returned %s (%s), model %s", o.Ret, o.ErrText, c.Ret)})
	}
	if o.Errored != c.Errored {
		out = append(out, [3]string{"C07", "errored-flag", fmt.Sprintf("Errored=%v, model %v", o.Errored, c.Errored)})
		out = append(out, [3]string{"C06", "errored-flag", fmt.Sprintf("Errored=%v, model %v", o.Errored, c.Errored)})
	}
	if o.ExitCode != c.ExitCode {
		out = append(out, [3]string{"C07", "exit-code", fmt.Sprintf("ExitCode=%d, model %d", o.ExitCode-1, c.ExitCode-1)})
	}
	return out
}

func parseCases(ps []string) []*Case {
	var out []*Case
	for _, p := range ps {
		c := &Case{}
		if err := json.Unmarshal([]byte(p), c); err != nil {
			core.Broken("TaskRunGen: %v: %s", err, p)
		}
		out = append(out, c)
	}
	return out
}

type shared struct {
	env      *core.Env
	rep      *core.Report
	samples  *core.Samples
	distinct *core.Distinct
	mu       sync.Mutex
	model    []map[string]interface{}
}

func (s *shared) note(name string, r *core.TLCResult, what string) {
	s.mu.Lock()
	s.model = append(s.model, map[string]interface{}{"config": name, "generated": r.Generated, "distinct": r.Distinct, "wall_s": r.Wall.Seconds(), "result": what})
	s.mu.Unlock()
}

func (s *shared) replay(cases []*Case, label string) (int, int) {
	dirs := make(chan string, 64)
	for i := 0; i < 64; i++ {
		dirs <- s.env.Sub("tr")
	}
	var n, nt int64
	core.Parallel(len(cases), 32, func(i int) {
		c := cases[i]
		d := <-dirs
		defer func() { dirs <- d }()
		o, _ := RunCase(c, d, i%2 == 0)
		atomic.AddInt64(&n, 1)
		if len(c.F) > 0 || c.Nb != "none" || c.Cond != "none" {
			atomic.AddInt64(&nt, 1)
		}
		s.distinct.Add(c.cfgKey())
		if i%3001 == 7 {
			s.samples.Add(map[string]interface{}{"kind": "lockstep:" + label, "config": map[string]interface{}{"before": c.Nb, "after": c.Na, "condition": c.Cond, "variations": c.Nv, "commands": c.Nc, "allow_failure": c.Allow, "failing": c.F, "status": c.K}, "expected_trace": c.tokens(), "expected": map[string]interface{}{"ret": c.Ret, "errored": c.Errored, "exitCode": c.ExitCode - 1, "skipped": c.Skipped}})
		}
		for _, f := range judge(c, o) {
			s.rep.Add(core.Finding{Prop: f[0], Key: f[0] + ":api:" + f[1], What: f[2] + fmt.Sprintf(" [before=%s after=%s cond=%s nv=%d nc=%d allow=%v F=%v K=%d]", c.Nb, c.Na, c.Cond, c.Nv, c.Nc, c.Allow, c.F, c.K),
				Detail: map[string]interface{}{"case": c, "observed": o}})
		}
	})
	return int(n), int(nt)
}

// randomRows runs random larger tasks and has TLC judge the table.
func (s *shared) randomRows(n int) (int, map[string]interface{}) {
	rng := s.env.Rand("taskrun-rows")
	cases := make([]*Case, n)
	for i := range cases {
		shapes := []string{"none", "ok", "fail", "okok", "okfail", "failok"}
		c := &Case{Nb: shapes[weighted(rng, 5, 4, 1, 2, 1, 1)], Na: shapes[weighted(rng, 4, 4, 2, 2, 1, 1)],
			Cond: []string{"none", "true", "false"}[weighted(rng, 6, 3, 1)], Nv: 1 + rng.Intn(5), Nc: rng.Intn(9), Allow: rng.Intn(3) == 0, K: 1 + rng.Intn(255), F: [][]int{}}
		for v := 1; v <= c.Nv; v++ {
			for k := 1; k <= c.Nc; k++ {
				if rng.Intn(12) == 0 {
					c.F = append(c.F, []int{v, k})
				}
			}
		}
		cases[i] = c
	}
	type row struct {
		*Case
		Trace    []string `json:"trace"`
		Ret      string   `json:"ret"`
		Errored  bool     `json:"errored"`
		ExitCode int      `json:"exitCode"`
		Skipped  bool     `json:"skipped"`
	}
	rows := make([]row, n)
	obs := make([]*Observed, n)
	dirs := make(chan string, 64)
	for i := 0; i < 64; i++ {
		dirs <- s.env.Sub("trr")
	}
	core.Parallel(n, 32, func(i int) {
		d := <-dirs
		defer func() { dirs <- d }()
		o, _ := RunCase(cases[i], d, i%2 == 0)
		obs[i] = o
		rows[i] = row{Case: cases[i], Trace: o.Trace, Ret: o.Ret, Errored: o.Errored, ExitCode: o.ExitCode, Skipped: o.Skipped}
		if o.Overlap {
			s.rep.Add(core.Finding{Prop: "C06", Key: "C06:api:commands-overlap", What: "commands of a random task did not run one at a time", Detail: cases[i]})
		}
	})
	var buf bytes.Buffer
	for _, r := range rows {
		m := map[string]interface{}{"nb": r.Nb, "na": r.Na, "cond": r.Cond, "nv": r.Nv, "nc": r.Nc, "allow": r.Allow, "F": r.F, "K": r.K,
			"trace": r.Trace, "ret": r.Ret, "errored": r.Errored, "exitCode": r.ExitCode, "skipped": r.Skipped}
		b, _ := json.Marshal(m)
		buf.Write(b)
		buf.WriteByte('\n')
	}
	res := core.MustHold(s.env, core.TLCOpts{Module: "TaskRunTable", Config: "TaskRunTable.cfg", Workers: 1, Files: map[string][]byte{"rows.ndjson": buf.Bytes()}, Timeout: 20 * time.Minute})
	ps := res.Tagged("BAD")
	var v struct {
		Bad  []int `json:"bad"`
		Rows int   `json:"rows"`
	}
	if len(ps) == 0 || json.Unmarshal([]byte(ps[0]), &v) != nil || v.Rows != n {
		core.Broken("TaskRunTable verdict unreadable: %v", ps)
	}
	for _, bi := range v.Bad {
		c, o := cases[bi-1], obs[bi-1]
		s.rep.Add(core.Finding{Prop: "C06", Key: "C06:table:row-contradicts-TaskRun.tla", What: fmt.Sprintf("random task: observed trace %v ret=%s errored=%v exit=%d skipped=%v is not what the statement-level definitions of TaskRun.tla give", o.Trace, o.Ret, o.Errored, o.ExitCode-1, o.Skipped), Detail: map[string]interface{}{"case": c, "observed": o}})
		s.rep.Add(core.Finding{Prop: "C07", Key: "C07:table:row-contradicts-TaskRun.tla", What: fmt.Sprintf("random task: observed ret=%s errored=%v exit=%d skipped=%v (trace %v) is not what TaskRun.tla gives", o.Ret, o.Errored, o.ExitCode-1, o.Skipped, o.Trace), Detail: map[string]interface{}{"case": c, "observed": o}})
	}
	if n > 0 {
		s.samples.Add(map[string]interface{}{"kind": "random-row", "row": rows[0]})
	}
	// self-test: a corrupted row is flagged
	bad := rows[0]
	m := map[string]interface{}{"nb": bad.Nb, "na": bad.Na, "cond": bad.Cond, "nv": bad.Nv, "nc": bad.Nc, "allow": bad.Allow, "F": bad.F, "K": bad.K,
		"trace": append(append([]string{}, bad.Trace...), "j.9.9"), "ret": bad.Ret, "errored": bad.Errored, "exitCode": bad.ExitCode, "skipped": bad.Skipped}
	b, _ := json.Marshal(m)
	r2 := core.MustHold(s.env, core.TLCOpts{Module: "TaskRunTable", Config: "TaskRunTable.cfg", Workers: 1, Files: map[string][]byte{"rows.ndjson": append(b, '\n')}})
	if p2 := r2.Tagged("BAD"); len(p2) == 0 || !strings.Contains(p2[0], `"bad":[1]`) {
		core.Broken("binding self-test: a row with an extra token was not flagged by TaskRunTable.tla: %v", p2)
	}
	return n, map[string]interface{}{"corruption": "extra token appended to the first random row", "flagged": true}
}

func weighted(rng *rand.Rand, w ...int) int {
	t := 0
	for _, x := range w {
		t += x
	}
	r := rng.Intn(t)
	for i, x := range w {
		if r < x {
			return i
		}
		r -= x
	}
	return 0
}

// stageLevel runs sampled cases as single-stage pipelines with the real scheduler and runner.
func (s *shared) stageLevel(cases []*Case, k int) int {
	rng := s.env.Rand("stage-level")
	pick := make([]*Case, 0, k)
	for i := 0; i < k && len(cases) > 0; i++ {
		pick = append(pick, cases[rng.Intn(len(cases))])
	}
	dirs := make(chan string, 32)
	for i := 0; i < 32; i++ {
		dirs <- s.env.Sub("st")
	}
	var n int64
	core.Parallel(len(pick), 16, func(i int) {
		c := pick[i]
		d := <-dirs
		defer func() { dirs <- d }()
		trace := filepath.Join(d, "trace")
		_ = os.Remove(trace)
		t := buildTask(c, trace, false)
		stageAllow := i%3 == 0
		st := &scheduler.Stage{Name: "s", Task: t, AllowFailure: stageAllow}
		if i%2 == 0 {
			// as every stage built from a configuration file: stage-level variables, so that the
			// stage executes a private copy of its task
			st.Variables = variables.FromMap(map[string]string{".Stage.Name": "s"})
		}
		g, err := scheduler.NewExecutionGraph(st)
		if err != nil {
			core.Broken("graph: %v", err)
		}
		r, _ := runner.NewTaskRunner()
		r.Stdout, r.Stderr = ioutil.Discard, ioutil.Discard
		sd := scheduler.NewScheduler(r)
		sd.VerifSetPause(time.Millisecond)
		done := make(chan error, 1)
		go func() { done <- sd.Schedule(g) }()
		var serr error
		select {
		case serr = <-done:
		case <-time.After(20 * time.Second):
			s.rep.Add(core.Finding{Prop: "C07", Key: "C07:stage:schedule-does-not-return", What: "single-stage pipeline did not return", Detail: c})
			return
		}
		atomic.AddInt64(&n, 1)
		failed := c.Ret == "err"
		wantStatus := int32(scheduler.StatusDone)
		wantErr := false
		if failed {
			wantStatus = scheduler.StatusError
			wantErr = true
			if stageAllow {
				wantStatus, wantErr = scheduler.StatusDone, false
			}
		}
		if st.ReadStatus() != wantStatus || (serr != nil) != wantErr {
			s.rep.Add(core.Finding{Prop: "C07", Key: "C07:stage:status-or-error-not-faithful",
				What:   fmt.Sprintf("task as pipeline stage (stage allow_failure=%v): status %d error %v; the task's model result is ret=%s, so status %d error=%v expected", stageAllow, st.ReadStatus(), serr, c.Ret, wantStatus, wantErr),
				Detail: c})
		}
		tr, _ := readTrace(trace)
		if exp := c.tokens(); !eq(tr, exp) && !(len(tr) == 0 && len(exp) == 0) {
			s.rep.Add(core.Finding{Prop: "C06", Key: "C06:stage:order-or-extent-of-commands", What: fmt.Sprintf("as a stage the commands ran %v, model %v", tr, exp), Detail: c})
		}
	})
	// history: ONE task object used by two stages, the second after the first. The first run fails (a
	// marker file is missing; it creates it) and the stage allows that; the second run succeeds. What a
	// run reports is about that run: the second stage is Done, the pipeline returns no error, and the
	// second run's commands all ran.
	for k := 0; k < 4; k++ {
		d := s.env.Sub("hist")
		marker, logf := filepath.Join(d, "marker"), filepath.Join(d, "log")
		t := task.FromCommands(fmt.Sprintf(`if [ ! -f %s ]; then : > %s; echo first-run-fails >> %s; exit 3; fi`, marker, marker, logf), fmt.Sprintf("echo second-command >> %s", logf))
		t.Name = "flaky"
		t.After = []string{fmt.Sprintf("echo after >> %s", logf)}
		first := &scheduler.Stage{Name: "first", Task: t, AllowFailure: true}
		second := &scheduler.Stage{Name: "second", Task: t, DependsOn: []string{"first"}}
		if k%2 == 1 {
			second.Env = variables.FromMap(map[string]string{"ONLY_SECOND": "1"}) // (a private copy, taken after the first run)
		}
		g, err := scheduler.NewExecutionGraph(first, second)
		if err != nil {
			core.Broken("graph: %v", err)
		}
		r, _ := runner.NewTaskRunner()
		r.Stdout, r.Stderr = ioutil.Discard, ioutil.Discard
		sd := scheduler.NewScheduler(r)
		sd.VerifSetPause(time.Millisecond)
		done := make(chan error, 1)
		go func() { done <- sd.Schedule(g) }()
		var serr error
		select {
		case serr = <-done:
		case <-time.After(20 * time.Second):
			s.rep.Add(core.Finding{Prop: "C07", Key: "C07:stage:schedule-does-not-return", What: "two stages on one task object did not return", Detail: nil})
			return int(n)
		}
		n++
		b, _ := ioutil.ReadFile(logf)
		got := strings.Join(strings.Fields(string(b)), " ")
		if serr != nil || second.ReadStatus() != scheduler.StatusDone || got != "first-run-fails second-command after" {
			s.rep.Add(core.Finding{Prop: "C07", Key: "C07:stage:earlier-failure-of-the-task-object-reported-again",
				What:   fmt.Sprintf("one task object run by two stages (the first run fails and its stage allows it, the second run succeeds): second stage status %d, pipeline error %v, log %q; expected Done, no error, \"first-run-fails second-command after\"", second.ReadStatus(), serr, got),
				Detail: nil})
			break
		}
	}
	return int(n)
}
