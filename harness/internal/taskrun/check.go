package taskrun

import (
	"encoding/json"
	"fmt"
	"io/ioutil"
	"path/filepath"
	"strings"
	"sync"
	"sync/atomic"
	"time"

	"verif/harness/internal/core"
	"verif/harness/internal/sched"
)

type cliCase struct {
	Argv []string `json:"argv"`
	Form string   `json:"form"`
	Ran  []int    `json:"ran"`
	Exit string   `json:"exit"`
}

func cliYAML(trace string) string {
	var b strings.Builder
	b.WriteString("tasks:\n")
	for i := 1; i <= 3; i++ {
		fmt.Fprintf(&b, "  okTask%d:\n    command: [\"echo okTask%d >> %s\"]\n", i, i, trace)
		fmt.Fprintf(&b, "  failTask%d:\n    command: [\"echo failTask%d >> %s; exit 3\"]\n", i, i, trace)
		fmt.Fprintf(&b, "  failHook%d:\n    before: [\"echo failHook%d >> %s; exit 1\"]\n    command: [\"true\"]\n", i, i, trace)
		fmt.Fprintf(&b, "  failVar%d:\n    command: [\"echo failVar%d >> %s\", \"echo {{.nosuchvariable}}\"]\n", i, i, trace)
		fmt.Fprintf(&b, "  skipTask%d:\n    condition: \"exit 1\"\n    command: [\"echo skipTask%d >> %s\"]\n", i, i, trace)
		fmt.Fprintf(&b, "  pok%d:\n    command: [\"echo okPipe%d >> %s\"]\n", i, i, trace)
		fmt.Fprintf(&b, "  pfail%d:\n    command: [\"echo failPipe%d >> %s; exit 4\"]\n", i, i, trace)
		fmt.Fprintf(&b, "  pslow%d:\n    command: [\"sleep 0.25\"]\n", i)
	}
	b.WriteString("  quietFail:\n    command: [\"exit 4\"]\n  quietOk:\n    command: [\"true\"]\n")
	b.WriteString("pipelines:\n")
	for i := 1; i <= 3; i++ {
		switch i {
		case 2:
			// a pipeline that succeeds although a pipeline it includes fails: that stage allows failure
			fmt.Fprintf(&b, "  okPipe%d:\n    - task: pok%d\n    - name: inc\n      pipeline: innerFail\n      allow_failure: true\n", i, i)
		case 3:
			fmt.Fprintf(&b, "  okPipe%d:\n    - name: inc\n      pipeline: innerOk\n      allow_failure: true\n    - task: pok%d\n      depends_on: [inc]\n", i, i)
		default:
			fmt.Fprintf(&b, "  okPipe%d:\n    - task: pok%d\n", i, i)
		}
		// a failing stage and an independent stage that succeeds later: the pipeline still fails
		if i == 3 {
			// (the failing stage is an included pipeline)
			fmt.Fprintf(&b, "  failPipe%d:\n    - name: inc\n      pipeline: innerFailT\n    - task: pslow%d\n", i, i)
			fmt.Fprintf(&b, "  innerFailT:\n    - task: pfail%d\n", i)
		} else {
			fmt.Fprintf(&b, "  failPipe%d:\n    - task: pfail%d\n    - task: pslow%d\n", i, i, i)
		}
	}
	b.WriteString("  innerFail:\n    - task: quietFail\n  innerOk:\n    - task: quietOk\n")
	return b.String()
}

func (s *shared) cliLevel(cases []cliCase) int {
	home := s.env.Sub("home")
	var n int64
	core.Parallel(len(cases), 16, func(i int) {
		c := cases[i]
		d := s.env.Sub("cli")
		trace := filepath.Join(d, "trace")
		cfg := filepath.Join(d, "tasks.yaml")
		_ = ioutil.WriteFile(cfg, []byte(cliYAML(trace)), 0o644)
		count := map[string]int{}
		var names []string
		for _, k := range c.Argv {
			count[k]++
			if k == "unknown" {
				names = append(names, fmt.Sprintf("nosuch%d", count[k]))
			} else {
				names = append(names, fmt.Sprintf("%s%d", k, count[k]))
			}
		}
		args := []string{"-c", cfg}
		if i%3 == 1 {
			args = append(args, "--quiet") // flags that only concern what is printed leave the exit status alone
		}
		switch c.Form {
		case "run":
			args = append(args, "run")
		case "runtask":
			args = append(args, "run", "task")
		}
		args = append(args, names...)
		if i%4 == 2 {
			// words after `--` are for the tasks: they are no targets and leave the exit status alone
			args = append(args, "--", "extra", "k=v")
		}
		res := core.RunBin(d, core.CleanEnv(home), 30*time.Second, "", s.env.Taskctl, args...)
		atomic.AddInt64(&n, 1)
		detail := map[string]interface{}{"argv": names, "form": c.Form, "model": c, "exit": res.Exit, "stderr": tailS(res.Stderr, 600)}
		add := func(kind, what string) {
			s.rep.Add(core.Finding{Prop: "C07", Key: "C07:cli:" + kind, What: what + fmt.Sprintf(" [taskctl %s]", strings.Join(args[2:], " ")), Detail: detail})
		}
		if res.TimedOut || res.Crashed() {
			add("crash-or-hang", "taskctl crashed or hung")
			return
		}
		wantExit := 0
		if c.Exit == "1" {
			wantExit = 1
		}
		if (res.Exit == 0) != (wantExit == 0) {
			add("exit-status-not-faithful", fmt.Sprintf("process exit status %d, model: %s", res.Exit, map[bool]string{true: "zero", false: "non-zero"}[wantExit == 0]))
		}
		var want []string
		for _, idx := range c.Ran {
			k := c.Argv[idx-1]
			if k != "skipTask" {
				want = append(want, names[idx-1])
			}
		}
		b, _ := ioutil.ReadFile(trace)
		var got []string
		for _, l := range strings.Split(string(b), "\n") {
			if l != "" {
				got = append(got, l)
			}
		}
		if !eq(got, want) {
			kind := "targets-order-or-extent"
			if len(got) > len(want) {
				kind = "target-ran-after-failure"
			}
			add(kind, fmt.Sprintf("targets executed %v, model %v", got, want))
		}
		if i%131 == 5 {
			s.samples.Add(map[string]interface{}{"kind": "cli", "form": c.Form, "argv": names, "expected_executed": want, "expected_exit": wantExit})
		}
	})
	return int(n)
}

func tailS(s string, n int) string {
	if len(s) > n {
		return s[len(s)-n:]
	}
	return s
}

func run(env *core.Env, rep *core.Report, prop string) *core.Result {
	thorough := env.Thorough()
	s := &shared{env: env, rep: rep, samples: core.NewSamples(12), distinct: core.NewDistinct()}
	var wg sync.WaitGroup
	par := func(f func()) { wg.Add(1); go func() { defer wg.Done(); f() }() }
	var grammar, status []*Case
	var clis []cliCase
	par(func() {
		r := core.MustHold(env, core.TLCOpts{Module: "TaskRunGen", Config: "TaskRunGen_grammar.cfg", Workers: 6, Timeout: 20 * time.Minute})
		grammar = parseCases(r.Tagged("TR"))
		s.note("TaskRunGen_grammar", r, fmt.Sprintf("%d configurations; OrderKept, CondFalseSkips, BeforeFailBlocks, StopsAtFirstFailure, RunsAll, ErrIffFailed, ExitCodeFaithful, Terminates hold", len(grammar)))
	})
	par(func() {
		r := core.MustHold(env, core.TLCOpts{Module: "TaskRunGen", Config: "TaskRunGen_status.cfg", Workers: 2})
		status = parseCases(r.Tagged("TR"))
		s.note("TaskRunGen_status", r, fmt.Sprintf("%d configurations (every status 1..255 at every position of a 3-command task, with and without allow_failure)", len(status)))
	})
	par(func() {
		r := core.MustHold(env, core.TLCOpts{Module: "Cli", Config: "Cli.cfg", Workers: 1})
		for _, p := range r.Tagged("CLI") {
			var c cliCase
			if err := json.Unmarshal([]byte(p), &c); err != nil {
				core.Broken("Cli: %v", err)
			}
			clis = append(clis, c)
		}
		s.note("Cli", r, fmt.Sprintf("%d (argument list, entry form) cases; ExitZeroIffAllSucceeded, InOrderNothingAfterFailure, Terminates hold", len(clis)))
	})
	wg.Wait()
	if len(grammar) != 147960 || len(status) != 3064 || len(clis) != 1752 {
		core.Broken("generators emitted %d/%d/%d cases, expected 147960/3064/1752", len(grammar), len(status), len(clis))
	}
	replayed, nontrivial := 0, 0
	gsel := grammar
	if !thorough {
		rng := env.Rand("grammar-sample")
		gsel = append([]*Case{}, grammar...)
		rng.Shuffle(len(gsel), func(i, j int) { gsel[i], gsel[j] = gsel[j], gsel[i] })
		gsel = gsel[:6000]
	}
	n, nt := s.replay(gsel, "grammar")
	replayed, nontrivial = replayed+n, nontrivial+nt
	ssel := status
	n, nt = s.replay(ssel, "status")
	replayed, nontrivial = replayed+n, nontrivial+nt
	nRows := 600
	if thorough {
		nRows = 6000
	}
	rows, selftest := s.randomRows(nRows)
	stageN := 200
	if thorough {
		stageN = 2000
	}
	stages := s.stageLevel(grammar, stageN)
	stages += s.unsupportedBuiltins(prop)
	stages += s.hooksOnly()
	cliRuns := 0
	if prop == "C07" {
		csel := clis
		if !thorough {
			csel = nil
			rng := env.Rand("cli-sample")
			for _, c := range clis {
				if len(c.Argv) <= 1 || len(c.Argv) == 2 && rng.Intn(2) == 0 || rng.Intn(6) == 0 {
					csel = append(csel, c)
				}
			}
		}
		cliRuns = s.cliLevel(csel)
	}
	// the composed specification (scheduler + runner + contexts, Taskctl.tla) against whole-binary
	// event logs: hooks, variations and commands of every stage's run in the right order
	var composeInfo map[string]interface{}
	if prop == "C06" {
		composeInfo = sched.ComposeCheck(env, rep, map[bool]int{false: 30, true: 400}[thorough], "hooks2")
		if a, ok := composeInfo["accepted"].(int); ok {
			cliRuns += a
		}
	}
	gen, dist, runs, cmds := core.TLCTotals()
	cov := map[string]interface{}{
		"whole_binary_traces_against_Taskctl_tla": composeInfo,
		"states": dist, "transitions": gen, "tlc_runs": runs,
		"traces_validated_against_impl": replayed + rows + stages + cliRuns,
		"lockstep_configurations":       replayed,
		"random_rows_judged_by_tlc":     rows,
		"stage_level_runs":              stages,
		"cli_runs":                      cliRuns,
		"evaluations":                   replayed + rows + stages + cliRuns,
		"distinct_nontrivial":           nontrivial,
		"distinct_configurations":       s.distinct.N(),
		"rule":                          "configurations of TaskRun.tla (before/after none|ok|fail, condition none|true|false, 1..3 variations, 0..3 commands, any subset of positions failing, allow_failure) emitted by TLC with expected trace and result, one real TaskRunner.Run each; every status 1..255 at every position; random larger tasks (<=8 commands, <=5 variations) judged by TLC as a table; sampled configurations as pipeline stages; C07 additionally every target list of length <=3 over 6 target kinds x 3 entry forms through the binary. non-trivial = some failing position, hook or condition present",
		"model_runs":                    s.model,
		"binding_selftest":              selftest,
		"samples":                       s.samples.List(),
		"checker_cmds":                  cmds,
		"exhaustive":                    thorough,
	}
	return &core.Result{Level: "model_checking", Coverage: cov, Assumptions: []string{
		"commands are interpreted in-process by mvdan/sh; tokens are appended with O_APPEND",
		"for a failing before hook only the returned error is constrained by the statement (Errored/ExitCode follow the transcription)",
	}}
}

// CheckC06 is the engine behind C06.
func CheckC06(env *core.Env, rep *core.Report) *core.Result { return run(env, rep, "C06") }

// CheckC07 is the engine behind C07.
func CheckC07(env *core.Env, rep *core.Report) *core.Result { return run(env, rep, "C07") }

// unsupportedBuiltins: a command the embedded shell cannot execute (it panics on builtins it does not
// implement: umask, trap, ...) is a command that FAILS - the task reports an error, its remaining
// commands and its after hook do not run, the process neither dies of a panic nor reports success.
// Through the binary (a panic must not take the check down).
func (s *shared) unsupportedBuiltins(prop string) int {
	n := 0
	for _, bad := range []string{"umask 022", "trap 'echo bye' EXIT", "echo x; umask 077; echo y"} {
		for _, allow := range []bool{false, true} {
			d := s.env.Sub("builtin")
			home := s.env.Sub("bhome")
			trace := filepath.Join(d, "trace")
			y := fmt.Sprintf("tasks:\n  t:\n    allow_failure: %v\n    command:\n      - echo first >> %s\n      - %q\n      - echo third >> %s\n    after: [\"echo after >> %s\"]\n", allow, trace, bad, trace, trace)
			_ = ioutil.WriteFile(filepath.Join(d, "tasks.yaml"), []byte(y), 0o644)
			res := core.RunBin(d, core.CleanEnv(home), 20*time.Second, "", s.env.Taskctl, "--raw", "t")
			n++
			b, _ := ioutil.ReadFile(trace)
			got := strings.Join(strings.Fields(string(b)), " ")
			detail := map[string]interface{}{"yaml": y, "exit": res.Exit, "trace": got, "stderr": tailS(res.Stderr, 600)}
			switch {
			case res.TimedOut || res.Crashed():
				for _, p := range []string{"C06", "C07"} {
					s.rep.Add(core.Finding{Prop: p, Key: p + ":builtin:process-dies-on-a-command-the-shell-cannot-execute", What: fmt.Sprintf("a task whose second command is %q: taskctl died (%s) instead of reporting the task as failed", bad, firstLineOf(res.Stderr)), Detail: detail})
				}
			case !allow && (res.Exit == 0 || got != "first"):
				s.rep.Add(core.Finding{Prop: "C07", Key: "C07:builtin:unexecutable-command-not-reported-as-a-failure", What: fmt.Sprintf("a task whose second command is %q (the embedded shell cannot execute it): exit %d, executed %q; expected a failure after \"first\"", bad, res.Exit, got), Detail: detail})
				s.rep.Add(core.Finding{Prop: "C06", Key: "C06:builtin:commands-ran-after-an-unexecutable-command", What: fmt.Sprintf("a task whose second command is %q: executed %q; expected \"first\" only", bad, got), Detail: detail})
			}
		}
	}
	return n
}

func firstLineOf(s string) string {
	for _, l := range strings.Split(s, "\n") {
		if strings.TrimSpace(l) != "" {
			return l
		}
	}
	return ""
}

// hooksOnly: a task without commands still has its before and after hooks, in that order (through the
// binary: empty command list, and variations with an empty command list).
func (s *shared) hooksOnly() int {
	n := 0
	for k, body := range []string{
		"    command: []\n",
		"    command: []\n    variations: [{V: a}, {V: b}]\n",
	} {
		d := s.env.Sub("hooksonly")
		home := s.env.Sub("hohome")
		trace := filepath.Join(d, "trace")
		y := fmt.Sprintf("tasks:\n  t:\n    before: [\"echo before >> %s\"]\n    after: [\"echo after1 >> %s\", \"echo after2 >> %s\"]\n%s", trace, trace, trace, body)
		_ = ioutil.WriteFile(filepath.Join(d, "tasks.yaml"), []byte(y), 0o644)
		res := core.RunBin(d, core.CleanEnv(home), 20*time.Second, "", s.env.Taskctl, "--raw", "t")
		n++
		b, _ := ioutil.ReadFile(trace)
		got := strings.Join(strings.Fields(string(b)), " ")
		if res.TimedOut || res.Crashed() || res.Exit != 0 || got != "before after1 after2" {
			s.rep.Add(core.Finding{Prop: "C06", Key: "C06:hooks-only:order-or-extent-of-commands", What: fmt.Sprintf("a task with hooks but no commands (form %d): exit %d, executed %q; expected \"before after1 after2\"", k, res.Exit, got),
				Detail: map[string]interface{}{"yaml": y, "stderr": tailS(res.Stderr, 500)}})
		}
	}
	return n
}
