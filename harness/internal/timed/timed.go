// Package timed binds TimedRun.tla (C13) to the real TaskRunner with real time.
package timed

import (
	"encoding/json"
	"fmt"
	"io/ioutil"
	"os/exec"
	"path/filepath"
	"strings"
	"sync"
	"sync/atomic"
	"time"

	"github.com/sirupsen/logrus"
	"github.com/taskctl/taskctl/pkg/runner"
	"github.com/taskctl/taskctl/pkg/scheduler"
	"github.com/taskctl/taskctl/pkg/task"
	"github.com/taskctl/taskctl/pkg/variables"

	"verif/harness/internal/core"
)

type scen struct {
	Bdur    []string          `json:"bdur"`
	Jdur    []string          `json:"jdur"`
	Adur    []string          `json:"adur"`
	Allow   bool              `json:"allow"`
	Tokens  []json.RawMessage `json:"tokens"`
	Ret     string            `json:"ret"`
	Errored bool              `json:"errored"`
	Expired [][]interface{}   `json:"expired"`
	Ticks   int               `json:"ticks"`
}

const tick = 150 * time.Millisecond
const tmo = 3 // ticks

func init() { logrus.SetOutput(ioutil.Discard) }

func (s *scen) tokens() []string {
	var out []string
	for _, r := range s.Tokens {
		var a []interface{}
		if json.Unmarshal(r, &a) != nil || len(a) != 3 {
			continue
		}
		out = append(out, fmt.Sprintf("%v.%v.%v", a[0], int(a[1].(float64)), a[2]))
	}
	return out
}

func body(dur, shape string, scale int) string {
	switch dur {
	case "short":
		return fmt.Sprintf("sleep %.2f", 0.15*float64(scale))
	case "near":
		return fmt.Sprintf("sleep %.2f", 0.30*float64(scale))
	}
	switch shape {
	case "busy":
		return "while true; do :; done"
	case "ignore":
		return `perl -e '$SIG{INT}="IGNORE"; sleep 30'`
	}
	return "sleep 30"
}

func cmdFor(tag string, k int, dur, shape, trace string, scale int) string {
	return fmt.Sprintf(`echo %s.%d.start >> %s; %s; echo %s.%d.end >> %s`, tag, k, trace, body(dur, shape, scale), tag, k, trace)
}

// loadProbe measures how long a 100 ms external sleep takes right now.
func loadProbe() time.Duration {
	t0 := time.Now()
	_ = exec.Command("sleep", "0.1").Run()
	return time.Since(t0)
}

// Check is the engine behind C13.
func Check(env *core.Env, rep *core.Report) *core.Result {
	thorough := env.Thorough()
	samples := core.NewSamples(10)
	var mu sync.Mutex
	modelRuns := []map[string]interface{}{}
	note := func(name string, r *core.TLCResult, what string) {
		mu.Lock()
		modelRuns = append(modelRuns, map[string]interface{}{"config": name, "generated": r.Generated, "distinct": r.Distinct, "wall_s": r.Wall.Seconds(), "result": what})
		mu.Unlock()
	}
	var wg sync.WaitGroup
	par := func(f func()) { wg.Add(1); go func() { defer wg.Done(); f() }() }
	var scens []scen
	par(func() {
		r := core.MustHold(env, core.TLCOpts{Module: "TimedRun", Config: "TimedRun_ok.cfg", Workers: 3})
		note("TimedRun_ok", r, "Bounded, FullTimeoutEach, FailsOnExpiry, Terminates hold (per-command timer)")
	})
	par(func() {
		r := core.MustFail(env, core.TLCOpts{Module: "TimedRun", Config: "TimedRun_neg.cfg", Workers: 2})
		note("TimedRun_neg", r, "negative control (one timer per task): "+r.Violated+" violated as required")
	})
	par(func() {
		r := core.MustHold(env, core.TLCOpts{Module: "TimedRunGen", Config: "TimedRunGen.cfg", Workers: 1})
		for _, p := range r.Tagged("TM") {
			var s scen
			if err := json.Unmarshal([]byte(p), &s); err != nil {
				core.Broken("TimedRunGen: %v", err)
			}
			scens = append(scens, s)
		}
		note("TimedRunGen", r, fmt.Sprintf("%d configurations with expected tokens, result and duration", len(scens)))
	})
	wg.Wait()
	if len(scens) != 1638 {
		core.Broken("TimedRunGen emitted %d configurations, expected 1638", len(scens))
	}
	type job struct {
		s     scen
		shape string
	}
	var jobs []job
	rng := env.Rand("timed")
	shapes := []string{"sleep", "sleep", "sleep", "busy", "ignore"}
	for _, s := range scens {
		hasOver := len(s.Expired) > 0
		if thorough {
			jobs = append(jobs, job{s, "sleep"})
			if hasOver && rng.Intn(4) == 0 {
				jobs = append(jobs, job{s, []string{"busy", "ignore"}[rng.Intn(2)]})
			}
		} else if rng.Intn(100) < 7 {
			jobs = append(jobs, job{s, shapes[rng.Intn(len(shapes))]})
		}
	}
	var busy int32
	var runs, confirmations, confirmed int64
	var quiet sync.RWMutex
	distinct := core.NewDistinct()
	core.Parallel(len(jobs), 40, func(i int) {
		j := jobs[i]
		if j.shape != "sleep" {
			// CPU-bound / slow-to-die shapes: a few at a time
			for atomic.AddInt32(&busy, 1) > 6 {
				atomic.AddInt32(&busy, -1)
				time.Sleep(20 * time.Millisecond)
			}
			defer atomic.AddInt32(&busy, -1)
		}
		attempt := func(scale int) []core.Finding {
			tick := tick * time.Duration(scale)
			d := env.Sub("tm")
			trace := filepath.Join(d, "trace")
			var cmds []string
			// two equal commands are run, every other time, as ONE command with two variations: the
			// timeout bounds the command in every variation
			asVariations := len(j.s.Jdur) == 2 && j.s.Jdur[0] == j.s.Jdur[1] && i%2 == 0
			for k, du := range j.s.Jdur {
				if asVariations && k == 1 {
					break
				}
				cmds = append(cmds, cmdFor("j", k+1, du, j.shape, trace, scale))
			}
			t := task.FromCommands(cmds...)
			t.Name = "t"
			if asVariations {
				t.Variations = []map[string]string{{"VV": "a"}, {"VV": "b"}}
			}
			for k, du := range j.s.Bdur {
				t.Before = append(t.Before, cmdFor("b", k+1, du, j.shape, trace, scale))
			}
			for k, du := range j.s.Adur {
				t.After = append(t.After, cmdFor("a", k+1, du, j.shape, trace, scale))
			}
			t.AllowFailure = j.s.Allow
			to := tmo * tick
			t.Timeout = &to
			r, _ := runner.NewTaskRunner()
			r.Stdout, r.Stderr = ioutil.Discard, ioutil.Discard
			start := time.Now()
			done := make(chan error, 1)
			viaStage := i%3 == 2
			if viaStage {
				// the same task as a pipeline stage with a stage-level variable (as every stage built
				// from a configuration file has): the timeout must apply there too
				st := &scheduler.Stage{Name: "s", Task: t, Variables: variables.FromMap(map[string]string{".Stage.Name": "s"})}
				g, gerr := scheduler.NewExecutionGraph(st)
				if gerr != nil {
					core.Broken("graph: %v", gerr)
				}
				sd := scheduler.NewScheduler(r)
				sd.VerifSetPause(time.Millisecond)
				go func() {
					e := sd.Schedule(g)
					t = st.Task // the stage's own copy carries the result
					done <- e
				}()
			} else {
				go func() { done <- r.Run(t) }()
			}
			bound := time.Duration(j.s.Ticks)*tick + 1500*time.Millisecond
			if j.shape == "ignore" {
				bound += time.Duration(len(j.s.Expired)) * 3 * time.Second
			}
			var err error
			returned := true
			select {
			case err = <-done:
			case <-time.After(bound + 5*time.Second):
				returned = false
			}
			el := time.Since(start)
			b, _ := ioutil.ReadFile(trace)
			var got []string
			for _, l := range strings.Split(string(b), "\n") {
				if l != "" {
					got = append(got, l)
				}
			}
			want := j.s.tokens()
			if asVariations {
				for k := range want {
					want[k] = strings.Replace(want[k], "j.2.", "j.1.", 1)
				}
			}
			desc := fmt.Sprintf("[before=%v commands=%v after=%v allow_failure=%v shape=%s timeout=%s as-pipeline-stage=%v as-variations=%v]", j.s.Bdur, j.s.Jdur, j.s.Adur, j.s.Allow, j.shape, to, viaStage, asVariations)
			det := map[string]interface{}{"scenario": j.s, "shape": j.shape, "observed_tokens": got, "elapsed_ms": el.Milliseconds(), "error": fmt.Sprint(err)}
			var fs []core.Finding
			add := func(kind, what string) {
				fs = append(fs, core.Finding{Prop: "C13", Key: "C13:" + kind, What: what + " " + desc, Detail: det})
			}
			if !returned {
				add("overrunning-command-not-terminated", fmt.Sprintf("Run did not return within %s (expected about %s)", bound+5*time.Second, time.Duration(j.s.Ticks)*tick))
				return fs
			}
			if el > bound {
				add("terminated-too-late", fmt.Sprintf("Run took %s, bound %s", el, bound))
			}
			if strings.Join(got, " ") != strings.Join(want, " ") {
				kind := "commands-after-expiry-or-missing"
				if len(got) < len(want) {
					kind = "command-cut-short-within-its-timeout"
				}
				add(kind, fmt.Sprintf("markers %v, model %v", got, want))
			}
			if (err != nil) != (j.s.Ret == "err") {
				add("result-not-failed-on-expiry", fmt.Sprintf("Run returned %v, model %s", err, j.s.Ret))
			}
			if t.Errored != j.s.Errored {
				add("errored-flag", fmt.Sprintf("Errored=%v, model %v", t.Errored, j.s.Errored))
			}
			return fs
		}
		// Timing verdicts: a mismatch must come back in a second execution, and then in a third one
		// that runs ALONE (no other execution of this check at the same time) with every duration -
		// commands, timeout, bounds - four times as long, so that a machine that is merely slow or
		// loaded cannot produce it. If even that one fails while a 100 ms sleep takes more than
		// 400 ms, the machine is too loaded to time anything: exit 2, not a violation.
		quiet.RLock()
		fs := attempt(1)
		if len(fs) > 0 {
			fs = attempt(1)
		}
		quiet.RUnlock()
		if len(fs) > 0 && atomic.LoadInt64(&confirmed) >= 3 {
			fs = nil // the verdict is settled; no need to queue further solitary runs
		}
		if len(fs) > 0 {
			quiet.Lock()
			fs = attempt(4)
			probe := loadProbe()
			quiet.Unlock()
			atomic.AddInt64(&confirmations, 1)
			if len(fs) > 0 && probe > 400*time.Millisecond {
				core.Broken("C13: the machine is too loaded to judge timeouts (a 100 ms sleep took %s)", probe)
			}
		}
		if len(fs) > 0 {
			atomic.AddInt64(&confirmed, 1)
		}
		for _, f := range fs {
			rep.Add(f)
		}
		atomic.AddInt64(&runs, 1)
		distinct.Add(fmt.Sprintf("%v/%v/%v/%v/%s", j.s.Bdur, j.s.Jdur, j.s.Adur, j.s.Allow, j.shape))
		if i%13 == 0 {
			samples.Add(map[string]interface{}{"before": j.s.Bdur, "commands": j.s.Jdur, "after": j.s.Adur, "allow_failure": j.s.Allow, "shape": j.shape, "expected_tokens": j.s.tokens(), "expected_ret": j.s.Ret})
		}
	})
	// the timeout of a task that a watcher starts for an event (through the binary)
	watchRuns := watchRun(env, rep)
	stageRuns := stageRun(env, rep)
	atomic.AddInt64(&runs, int64(watchRuns+stageRuns))
	gen, dist, nruns, cmds := core.TLCTotals()
	cov := map[string]interface{}{
		"states": dist, "transitions": gen, "tlc_runs": nruns,
		"traces_validated_against_impl":      int(runs),
		"watcher_started_runs":               watchRuns,
		"runs_as_a_pipeline_stage":           stageRuns,
		"mismatches_rerun_alone_at_4x_scale": int(confirmations),
		"configurations_in_model":            len(scens),
		"evaluations":                        int(runs),
		"distinct_nontrivial":                distinct.N(),
		"rule":                               "configurations of TimedRun.tla: 0..1 before hooks, 1..3 commands, 0..2 after hooks, each short (1 tick) / near (timeout-1 tick) / overrunning, allow_failure on/off; real time with tick 150 ms, timeout 450 ms; overrunning shapes: external sleep, shell busy loop, process ignoring SIGINT; expected markers, result and duration come from the model",
		"model_runs":                         modelRuns,
		"samples":                            samples.List(),
		"checker_cmds":                       cmds,
		"exhaustive":                         thorough,
	}
	return &core.Result{Level: "model_checking", Coverage: cov, Assumptions: []string{
		"'shortly afterwards' = expected duration + 1.5 s (+3 s per command that ignores SIGINT: the interpreter's kill delay)",
		"overrunning commands are single processes; a grandchild holding the output pipe is outside the listed shapes",
		"a timing verdict is only reported when a second execution of the same scenario fails too",
	}}
}
