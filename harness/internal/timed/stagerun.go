package timed

import (
	"fmt"
	"io/ioutil"
	"path/filepath"
	"strings"
	"time"

	"verif/harness/internal/core"
)

// stageRun: the timeout also bounds a task that runs as a stage of a pipeline, and the expiry is a
// FAILURE of that stage like any other: its dependants are cancelled, the pipeline run and the
// process fail - also when the stage or the task allows failure? No: an allowed failure lets the
// pipeline go on (that is C02's business); what C13 says is that the task is reported as failed.
// Through the binary: pipeline p = slow (timeout 1 s, sleeps 6 s, then a second command) ->
// after; a second pipeline with the expiry in a before hook.
func stageRun(env *core.Env, rep *core.Report) int {
	n := 0
	for k, where := range []string{"command", "before"} {
		d := env.Sub("tstage")
		home := env.Sub("tshome")
		logf := filepath.Join(d, "log")
		var task string
		if where == "command" {
			task = fmt.Sprintf("  slow:\n    timeout: 1s\n    command:\n      - '/bin/echo start >> %s; sleep 6; /bin/echo end >> %s'\n      - '/bin/echo second >> %s'\n", logf, logf, logf)
		} else {
			task = fmt.Sprintf("  slow:\n    timeout: 1s\n    before: ['/bin/echo start >> %s; sleep 6; /bin/echo end >> %s']\n    command:\n      - '/bin/echo second >> %s'\n", logf, logf, logf)
		}
		y := "tasks:\n" + task + fmt.Sprintf("  after:\n    command: ['/bin/echo after >> %s']\n  side:\n    command: ['/bin/echo side >> %s']\n", logf, logf) +
			"pipelines:\n  p:\n    - task: slow\n    - task: after\n      depends_on: [slow]\n    - task: side\n"
		_ = ioutil.WriteFile(filepath.Join(d, "tasks.yaml"), []byte(y), 0o644)
		t0 := time.Now()
		res := core.RunBin(d, core.CleanEnv(home), 30*time.Second, "", env.Taskctl, "--raw", "p")
		took := time.Since(t0)
		n++
		b, _ := ioutil.ReadFile(logf)
		lines := strings.Fields(string(b))
		has := func(w string) bool {
			for _, l := range lines {
				if l == w {
					return true
				}
			}
			return false
		}
		detail := map[string]interface{}{"yaml": y, "log": lines, "exit": res.Exit, "stderr": tail(res.Stderr, 500), "took_s": took.Seconds()}
		add := func(kind, what string) {
			rep.Add(core.Finding{Prop: "C13", Key: "C13:stage:" + kind, What: fmt.Sprintf("a task with a 1 s timeout whose %s sleeps 6 s, run as a stage of a pipeline: %s", where, what), Detail: detail})
		}
		switch {
		case res.TimedOut || res.Crashed():
			add("crash-or-hang", "taskctl crashed or did not return within 30 s")
		case !has("start"):
			core.Broken("stageRun: the timed stage did not start (exit %d): %s", res.Exit, tail(res.Stderr, 300))
		case has("end"):
			add("overrunning-command-not-terminated", fmt.Sprintf("the overrunning job was not cut (log %v, the run took %.1f s)", lines, took.Seconds()))
		case has("second"):
			add("command-started-after-expiry", fmt.Sprintf("a later command of the task ran after the expiry (log %v)", lines))
		case res.Exit == 0 || has("after"):
			add("expiry-not-reported-as-a-failure", fmt.Sprintf("the expiry was not a failure of the stage: process exit %d, the dependant ran=%v (log %v)", res.Exit, has("after"), lines))
		case !has("side"):
			core.Broken("stageRun: the independent stage did not run: %v", lines)
		}
		_ = k
	}
	return n
}

func tail(s string, n int) string {
	if len(s) > n {
		return s[len(s)-n:]
	}
	return s
}
