package timed

import (
	"bytes"
	"fmt"
	"io/ioutil"
	"os"
	"os/exec"
	"path/filepath"
	"strings"
	"syscall"
	"time"

	"verif/harness/internal/core"
)

// watchRun: the task's timeout also bounds the task when a watcher starts it for an event
// (through the binary: `taskctl watch`). The task sleeps 6 s only when it runs for an event; its
// timeout is 1 s: the sleep must be cut, the rest of that command and the second command must not
// run; the start-up run (no event, no sleep) completes normally.
func watchRun(env *core.Env, rep *core.Report) int {
	root := env.Sub("wroot")
	cfgd := env.Sub("wcfg")
	home := env.Sub("whome")
	logf := filepath.Join(cfgd, "log")
	_ = ioutil.WriteFile(filepath.Join(root, "trigger.txt"), []byte("x\n"), 0o644)
	y := fmt.Sprintf("tasks:\n  t:\n    timeout: 1s\n    command:\n      - '/bin/echo \"start.$EventName\" >> %s; [ -z \"$EventName\" ] || sleep 6; /bin/echo \"end.$EventName\" >> %s'\n      - '/bin/echo \"second.$EventName\" >> %s'\nwatchers:\n  w:\n    task: t\n    watch: [\"trigger.txt\"]\n    events: [write]\n", logf, logf, logf)
	cfg := filepath.Join(cfgd, "tasks.yaml")
	_ = ioutil.WriteFile(cfg, []byte(y), 0o644)
	cmd := exec.Command(env.Taskctl, "-c", cfg, "watch", "w")
	cmd.Dir = root
	for _, kv := range os.Environ() {
		if !strings.HasPrefix(kv, "TASKCTL_") && !strings.HasPrefix(kv, "HOME=") {
			cmd.Env = append(cmd.Env, kv)
		}
	}
	cmd.Env = append(cmd.Env, "HOME="+home)
	var out bytes.Buffer
	cmd.Stdout, cmd.Stderr = &out, &out
	cmd.SysProcAttr = &syscall.SysProcAttr{Setpgid: true}
	if err := cmd.Start(); err != nil {
		core.Broken("taskctl watch: %v", err)
	}
	defer func() {
		_ = syscall.Kill(-cmd.Process.Pid, syscall.SIGKILL)
		_, _ = cmd.Process.Wait()
	}()
	has := func(s string) bool {
		b, _ := ioutil.ReadFile(logf)
		for _, l := range strings.Split(string(b), "\n") {
			if l == s {
				return true
			}
		}
		return false
	}
	waitFor := func(s string, d time.Duration) bool {
		lim := time.Now().Add(d)
		for time.Now().Before(lim) {
			if has(s) {
				return true
			}
			time.Sleep(50 * time.Millisecond)
		}
		return false
	}
	if !waitFor("second.", 20*time.Second) {
		return 0 // the watcher did not come up (driver problem): nothing is claimed
	}
	time.Sleep(1500 * time.Millisecond)
	if fh, e := os.OpenFile(filepath.Join(root, "trigger.txt"), os.O_APPEND|os.O_WRONLY, 0o644); e == nil {
		_, _ = fh.WriteString("more\n")
		_ = fh.Close()
	}
	if !waitFor("start.write", 20*time.Second) {
		return 0 // no event run at all: the watch engine's concern, not a timeout question
	}
	// timeout 1 s, sleep 6 s: well after the sleep would have ended nothing more may have been written
	time.Sleep(8500 * time.Millisecond)
	if has("end.write") || has("second.write") {
		b, _ := ioutil.ReadFile(logf)
		rep.Add(core.Finding{Prop: "C13", Key: "C13:watcher-started-task-not-bounded-by-its-timeout",
			What:   "a task with timeout 1s started by a watcher for a write event: its 6 s command was not terminated (the rest of the command / the next command ran): " + strings.Join(strings.Fields(string(b)), " "),
			Detail: map[string]interface{}{"yaml": y, "log": string(b)}})
	}
	return 1
}
