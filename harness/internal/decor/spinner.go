package decor

import (
	"encoding/json"
	"fmt"
	"io/ioutil"
	"os"
	"runtime"
	"strconv"
	"strings"
	"sync"
	"sync/atomic"
	"time"

	"github.com/taskctl/taskctl/pkg/output"
	"github.com/taskctl/taskctl/pkg/runner"
	"github.com/taskctl/taskctl/pkg/task"

	"verif/harness/internal/core"
)

// SpinnerWorker runs in a child process: `writers` goroutines start and finish `iters` tasks each
// under the cockpit format while the spinner redraws every few microseconds (instead of every
// 100 ms), so that the interleavings of Spinner.tla between a task's "Finished" line and the
// drawing goroutine are actually visited.  Progress-based verdict: exit 0 when every task was
// finished, exit 3 ("STUCK") when no task finished during 10 s.
func SpinnerWorker(args []string) int {
	iters, writers := 100000, 3
	if len(args) > 0 {
		iters, _ = strconv.Atoi(args[0])
	}
	if len(args) > 1 {
		writers, _ = strconv.Atoi(args[1])
	}
	output.VerifSetFrame(20 * time.Microsecond)
	var n int64
	var wg sync.WaitGroup
	for w := 0; w < writers; w++ {
		w := w
		wg.Add(1)
		go func() {
			defer wg.Done()
			for i := 0; i < iters; i++ {
				t := task.FromCommands("true")
				t.Name = fmt.Sprintf("w%d", w)
				t.Errored = i%7 == 0
				o, err := output.NewTaskOutput(t, output.FormatCockpit, ioutil.Discard, ioutil.Discard)
				if err != nil {
					fmt.Println("ERR", err)
					os.Exit(2)
				}
				_ = o.Start()
				_, _ = o.Stdout().Write([]byte("x\n"))
				_ = o.Finish()
				atomic.AddInt64(&n, 1)
			}
		}()
	}
	fin := make(chan struct{})
	go func() { wg.Wait(); close(fin) }()
	prev := int64(-1)
	for {
		select {
		case <-fin:
			fmt.Printf("DONE %d\n", atomic.LoadInt64(&n))
			return 0
		case <-time.After(10 * time.Second):
			cur := atomic.LoadInt64(&n)
			if cur == prev {
				buf := make([]byte, 1<<16)
				buf = buf[:runtime.Stack(buf, true)]
				fmt.Printf("STUCK %d\n%s\n", cur, buf)
				return 3
			}
			prev = cur
		}
	}
}

// SpinnerStartWorker runs in a child process: again and again the FIRST task output of a process
// under the cockpit format is started (the process-wide cockpit is reset in between), with the
// unmodified 100 ms frame: the drawing goroutine that spinner.New starts races with add().
func SpinnerStartWorker(args []string) int {
	iters := 100000
	if len(args) > 0 {
		iters, _ = strconv.Atoi(args[0])
	}
	var n int64
	fin := make(chan struct{})
	go func() {
		for i := 0; i < iters; i++ {
			ch := output.VerifResetCockpit()
			t := task.FromCommands("true")
			t.Name = "first"
			o, err := output.NewTaskOutput(t, output.FormatCockpit, ioutil.Discard, ioutil.Discard)
			if err != nil {
				fmt.Println("ERR", err)
				os.Exit(2)
			}
			_ = o.Start()
			close(ch) // stops this iteration's spinner
			atomic.AddInt64(&n, 1)
		}
		close(fin)
	}()
	prev := int64(-1)
	for {
		select {
		case <-fin:
			fmt.Printf("DONE %d\n", atomic.LoadInt64(&n))
			return 0
		case <-time.After(10 * time.Second):
			cur := atomic.LoadInt64(&n)
			if cur == prev {
				buf := make([]byte, 1<<16)
				buf = buf[:runtime.Stack(buf, true)]
				fmt.Printf("STUCK %d\n%s\n", cur, buf)
				return 3
			}
			prev = cur
		}
	}
}

// checkSpinner: design (Spinner.tla) and the stress run that binds it to the code.
func checkSpinner(env *core.Env, add func(kind, what string, detail interface{}), note func(string, *core.TLCResult, string)) int {
	r := core.MustHold(env, core.TLCOpts{Module: "Spinner", Config: "Spinner_locked.cfg", Workers: 2})
	note("Spinner_locked", r, "the client that prints under the spinner's lock: NoLockLeak and AllReported hold")
	r = core.MustFail(env, core.TLCOpts{Module: "Spinner", Config: "Spinner_restart.cfg", Workers: 2})
	note("Spinner_restart", r, "negative control (Restart for every finished task): "+r.Violated+" violated - a drawing goroutine returns with the lock held")
	self, err := os.Executable()
	if err != nil {
		core.Broken("os.Executable: %v", err)
	}
	runs, iters := 2, 150000
	if env.Thorough() {
		runs, iters = 6, 1000000
	}
	r = core.MustHold(env, core.TLCOpts{Module: "SpinnerStart", Config: "SpinnerStart_outside.cfg", Workers: 2})
	note("SpinnerStart_outside", r, "add() creating the spinner after releasing b.mu: NoLockCycle and AllAdded hold")
	r = core.MustFail(env, core.TLCOpts{Module: "SpinnerStart", Config: "SpinnerStart_under.cfg", Workers: 2})
	note("SpinnerStart_under", r, "negative control (spinner created and started with b.mu held): "+r.Violated+" violated - add() and the drawing goroutine wait for each other")
	var total int64
	starts := 400000
	if env.Thorough() {
		starts = 4000000
	}
	{
		res := core.RunBin(env.Sub("spinstart"), nil, 15*time.Minute, "", self, "worker", "spinner-start", strconv.Itoa(starts))
		atomic.AddInt64(&total, int64(starts))
		switch {
		case res.Exit == 3:
			add("format:cockpit:first-task-blocks", "starting the first task output of a process under the cockpit format blocked for ever ("+tail(firstLine(res.Stdout), 80)+"): add() holds the cockpit's mutex and waits for the spinner's lock, the drawing goroutine holds that lock and waits for the mutex", map[string]interface{}{"goroutines": tail(res.Stdout, 4000)})
		case res.Crashed():
			add("format:cockpit:crash", "starting task outputs under cockpit crashed: "+firstPanic(res.Stderr), map[string]interface{}{"stderr": tail(res.Stderr, 2000)})
		case res.TimedOut || res.Exit != 0:
			core.Broken("spinner-start worker: exit %d timedout %v: %s", res.Exit, res.TimedOut, tail(res.Stderr, 500))
		}
	}
	core.Parallel(runs, 2, func(i int) {
		res := core.RunBin(env.Sub("spin"), nil, 10*time.Minute, "", self, "worker", "spinner", strconv.Itoa(iters), strconv.Itoa(1+i%3))
		atomic.AddInt64(&total, int64(iters*(1+i%3)))
		switch {
		case res.Exit == 3:
			add("format:cockpit:finish-blocks", "under the cockpit format a task's output could not be finished: with the spinner redrawing every 20 us, a task finish blocked for ever ("+tail(firstLine(res.Stdout), 80)+")", map[string]interface{}{"goroutines": tail(res.Stdout, 4000)})
		case res.Crashed():
			add("format:cockpit:crash", "starting and finishing task outputs under cockpit crashed: "+firstPanic(res.Stderr), map[string]interface{}{"stderr": tail(res.Stderr, 2000)})
		case res.TimedOut || res.Exit != 0:
			core.Broken("spinner worker: exit %d timedout %v: %s", res.Exit, res.TimedOut, tail(res.Stderr, 500))
		}
	})
	return int(total)
}

func firstLine(s string) string {
	for i := 0; i < len(s); i++ {
		if s[i] == '\n' {
			return s[:i]
		}
	}
	return s
}

// FormatResultWorker runs in a child process: the same tasks on a real TaskRunner under each output
// format; prints, per format and task, what is recorded about the task (error, flags, exit code,
// captured stdout / stderr, error message). The parent compares the formats.
func FormatResultWorker() int {
	type rec struct {
		Err      bool   `json:"err"`
		Errored  bool   `json:"errored"`
		Skipped  bool   `json:"skipped"`
		ExitCode int16  `json:"exit_code"`
		Stdout   string `json:"stdout"`
		Stderr   string `json:"stderr"`
		Message  string `json:"message"`
	}
	specs := map[string][]string{
		"ok-noisy":     {"echo out1; echo err1 >&2", "echo out2"},
		"fail-both":    {"echo out1; echo err1 >&2; exit 3", "echo never"},
		"fail-stdout":  {"echo only-out; exit 4"},
		"fail-stderr":  {"echo only-err >&2; exit 5"},
		"fail-silent":  {"exit 6"},
		"ok-multiline": {"printf 'l1\\nl2\\nl3'"},
	}
	out := map[string]map[string]rec{}
	for _, f := range []string{output.FormatRaw, output.FormatPrefixed, output.FormatCockpit} {
		out[f] = map[string]rec{}
		for name, cmds := range specs {
			ch := output.VerifResetCockpit()
			t := task.FromCommands(cmds...)
			t.Name = name
			tr, err := runner.NewTaskRunner()
			if err != nil {
				fmt.Println("ERR", err)
				return 2
			}
			tr.OutputFormat = f
			tr.Stdout, tr.Stderr = ioutil.Discard, ioutil.Discard
			e := tr.Run(t)
			r := rec{Err: e != nil, Errored: t.Errored, Skipped: t.Skipped, ExitCode: t.ExitCode,
				Stdout: t.Log.Stdout.String(), Stderr: t.Log.Stderr.String()}
			r.Message = t.ErrorMessage() // (reads the log: taken last)
			out[f][name] = r
			close(ch)
		}
	}
	b, _ := json.Marshal(out)
	fmt.Println("RESULT " + string(b))
	return 0
}

// checkFormatResult: the recorded result of a task does not depend on the output format.
func checkFormatResult(env *core.Env, add func(kind, what string, detail interface{})) int {
	self, err := os.Executable()
	if err != nil {
		core.Broken("os.Executable: %v", err)
	}
	res := core.RunBin(env.Sub("fmtres"), nil, 2*time.Minute, "", self, "worker", "format-result")
	if res.Crashed() {
		add("format:crash", "running tasks under the three output formats crashed: "+firstPanic(res.Stderr), map[string]interface{}{"stderr": tail(res.Stderr, 2000)})
		return 0
	}
	var payload string
	for _, l := range strings.Split(res.Stdout, "\n") {
		if strings.HasPrefix(l, "RESULT ") {
			payload = strings.TrimPrefix(l, "RESULT ")
		}
	}
	if res.TimedOut || res.Exit != 0 || payload == "" {
		core.Broken("format-result worker: exit %d timedout %v: %s", res.Exit, res.TimedOut, tail(res.Stderr, 500))
	}
	var m map[string]map[string]map[string]interface{}
	if err := json.Unmarshal([]byte(payload), &m); err != nil {
		core.Broken("format-result worker: %v", err)
	}
	n := 0
	for name, raw := range m[output.FormatRaw] {
		for _, f := range []string{output.FormatPrefixed, output.FormatCockpit} {
			n++
			if core.JSON(m[f][name]) != core.JSON(raw) {
				add("format:recorded-result-depends-on-format", fmt.Sprintf("task %s: recorded result under raw %s, under %s %s", name, core.JSON(raw), f, core.JSON(m[f][name])), nil)
			}
		}
	}
	return n
}
