// Package decor binds Decor.tla (C19) to pkg/output and to the taskctl binary.
package decor

import (
	"bytes"
	"encoding/json"
	"fmt"
	"io/ioutil"
	"math/rand"
	"path/filepath"
	"regexp"
	"strings"
	"sync"
	"sync/atomic"
	"time"

	"github.com/sirupsen/logrus"
	"github.com/taskctl/taskctl/pkg/output"
	"github.com/taskctl/taskctl/pkg/task"

	"verif/harness/internal/core"
)

func init() { logrus.SetOutput(ioutil.Discard) }

type decCase struct {
	Stream []string   `json:"stream"`
	Cuts   []int      `json:"cuts"`
	Sink   [][]string `json:"sink"`
}

var atomBytes = map[string]string{"x": "ab", "LF": "\n", "CR": "\r", "E1": "\x1b[", "E2": "31", "E3": "m"}

func atomsOf(stream []string) []string {
	var out []string
	for _, t := range stream {
		switch t {
		case "x":
			out = append(out, "x")
		case "LF":
			out = append(out, "LF")
		case "CRLF":
			out = append(out, "CR", "LF")
		default:
			out = append(out, "E1", "E2", "E3")
		}
	}
	return out
}

// sink records every Write call arriving from the decorators.
type sink struct {
	mu     sync.Mutex
	writes [][]byte
}

func (s *sink) Write(p []byte) (int, error) {
	s.mu.Lock()
	s.writes = append(s.writes, append([]byte{}, p...))
	s.mu.Unlock()
	return len(p), nil
}

var reANSI = regexp.MustCompile("\x1b\\[[0-9;]*[A-Za-z]")
var reAnyANSI = regexp.MustCompile("\x1b\\[[0-9;]*[A-Za-z]?")

// norm: remove line terminators, then complete ANSI sequences
func norm(b []byte) string {
	s := strings.NewReplacer("\r", "", "\n", "").Replace(string(b))
	return reANSI.ReplaceAllString(s, "")
}

// split a sink write into (task name, text); ok=false if it is not "<name>: <text>\r\n" with one prefix
func splitWrite(w []byte, names []string) (string, []byte, bool) {
	s := string(w)
	if !strings.HasSuffix(s, "\r\n") {
		return "", nil, false
	}
	s = strings.TrimSuffix(s, "\r\n")
	// the name is coloured by aurora: ESC[36m<name>ESC[0m
	for _, n := range names {
		for _, pre := range []string{"\x1b[36m" + n + "\x1b[0m: ", n + ": "} {
			if strings.HasPrefix(s, pre) {
				return n, []byte(s[len(pre):]), true
			}
		}
	}
	return "", nil, false
}

var lockstepNames = []string{"tk", "tk", "tk", "50%done", "a%sb%d", "build:all", "sp ace", "q\"uote", "back\\slash", "{{.x}}", "$HOME", "#1"}

// Check is the engine behind C19.
func Check(env *core.Env, rep *core.Report) *core.Result {
	thorough := env.Thorough()
	samples := core.NewSamples(10)
	var mu sync.Mutex
	modelRuns := []map[string]interface{}{}
	note := func(name string, r *core.TLCResult, what string) {
		mu.Lock()
		modelRuns = append(modelRuns, map[string]interface{}{"config": name, "generated": r.Generated, "distinct": r.Distinct, "wall_s": r.Wall.Seconds(), "result": what})
		mu.Unlock()
	}
	var wg sync.WaitGroup
	par := func(f func()) { wg.Add(1); go func() { defer wg.Done(); f() }() }
	var cases []decCase
	par(func() {
		r := core.MustHold(env, core.TLCOpts{Module: "Decor", Config: "Decor_ok.cfg", Workers: 4})
		note("Decor_ok", r, "PerTask and Terminates hold for every stream of <=4 tokens x every chunking with <=3 cuts (also inside escape sequences and CRLF)")
	})
	par(func() {
		r := core.MustFail(env, core.TLCOpts{Module: "Decor", Config: "Decor_pinned.cfg", Workers: 2})
		note("Decor_pinned", r, "negative control (no hold-back of a cut escape sequence): "+r.Violated+" violated")
	})
	par(func() {
		r := core.MustHold(env, core.TLCOpts{Module: "DecorGen", Config: map[bool]string{false: "DecorGen.cfg", true: "DecorGen_5.cfg"}[thorough], Workers: 4})
		for _, p := range r.Tagged("DEC") {
			var c decCase
			if err := json.Unmarshal([]byte(p), &c); err != nil {
				core.Broken("DecorGen: %v", err)
			}
			cases = append(cases, c)
		}
		note("DecorGen", r, fmt.Sprintf("%d (stream, chunking) cases with the predicted sink writes", len(cases)))
	})
	wg.Wait()
	if want := map[bool]int{false: 6933, true: 44437}[thorough]; len(cases) != want {
		core.Broken("DecorGen emitted %d cases, expected %d", len(cases), want)
	}
	add := func(kind, what string, detail interface{}) {
		rep.Add(core.Finding{Prop: "C19", Key: "C19:" + kind, What: what, Detail: detail})
	}
	var evals int64
	// (1) lock-step: every model case written chunk by chunk into the real prefixed decorator
	core.Parallel(len(cases), 16, func(i int) {
		c := cases[i]
		atoms := atomsOf(c.Stream)
		var chunks [][]byte
		cur := 0
		cuts := append(append([]int{}, c.Cuts...), len(atoms))
		for _, k := range cuts {
			var b []byte
			for _, a := range atoms[cur:k] {
				b = append(b, atomBytes[a]...)
			}
			chunks = append(chunks, b)
			cur = k
		}
		sk := &sink{}
		t := task.FromCommands("true")
		// task names over printable ASCII: the name is data, never a format
		tname := lockstepNames[i%len(lockstepNames)]
		t.Name = tname
		o, err := output.NewTaskOutput(t, output.FormatPrefixed, sk, sk)
		if err != nil {
			core.Broken("NewTaskOutput: %v", err)
		}
		_ = o.Start()
		w := o.Stdout()
		var all []byte
		// every other case delivers its chunks the way os/exec's copy loop does: through one
		// buffer that is re-used (here: overwritten) as soon as Write has returned
		reuse := make([]byte, 0, 256)
		for _, ch := range chunks {
			data := ch
			if i%2 == 1 {
				data = append(reuse[:0], ch...)
			}
			if _, err := w.Write(data); err != nil {
				add("prefixed:write-error", err.Error(), c)
			}
			if i%2 == 1 {
				for k := range reuse[:cap(reuse)] {
					reuse[:cap(reuse)][k] = '#'
				}
			}
			all = append(all, ch...)
		}
		_ = o.Finish()
		atomic.AddInt64(&evals, 1)
		var texts [][]byte
		var concat []byte
		for _, wr := range sk.writes {
			_, txt, ok := splitWrite(wr, []string{tname})
			if !ok {
				add("prefixed:not-a-whole-prefixed-line", fmt.Sprintf("sink write %q is not one line prefixed with the task's name %q (stream %v cuts %v)", wr, tname, c.Stream, c.Cuts), c)
				return
			}
			texts = append(texts, txt)
			concat = append(concat, txt...)
		}
		if norm(concat) != norm(all) {
			add("prefixed:bytes-lost-duplicated-or-leaked", fmt.Sprintf("stream %v cut at %v: after normalisation the sink has %q, the task wrote %q", c.Stream, c.Cuts, norm(concat), norm(all)), map[string]interface{}{"case": c, "sink": fmt.Sprintf("%q", sk.writes)})
			return
		}
		if t.Log.Stdout.String() != string(all) {
			add("capture:log-differs-from-stream", "Task.Log.Stdout differs from the bytes written", c)
		}
		// exact agreement with the model's transducer
		var want []string
		for _, s := range c.Sink {
			var b []byte
			for _, a := range s {
				b = append(b, atomBytes[a]...)
			}
			want = append(want, string(b))
		}
		var got []string
		for _, x := range texts {
			got = append(got, string(x))
		}
		if strings.Join(got, "\x00") != strings.Join(want, "\x00") {
			add("prefixed:sink-differs-from-model", fmt.Sprintf("stream %v cut at %v: sink texts %q, Decor.tla predicts %q", c.Stream, c.Cuts, got, want), c)
		}
		if i%700 == 0 {
			samples.Add(map[string]interface{}{"kind": "lockstep", "stream": c.Stream, "cuts": c.Cuts, "predicted_sink": want})
		}
	})

	// (1b) outside the model's token alphabet: output that ENDS in the beginning of an escape sequence
	// (ESC alone, ESC [ with or without parameter bytes that no final byte follows): that is not a
	// sequence, so by the statement's own definition those bytes are part of the task's output - under
	// a single write and under every split into two writes
	for _, tailFrag := range []string{"\x1b", "\x1b[", "\x1b[?", "\x1b(", "\x1b[;"} {
		for _, head := range []string{"one \x1b[31mred\x1b[0m two\nlast ", ""} {
			stream := []byte(head + tailFrag)
			for cut := 0; cut <= len(stream); cut++ {
				sk := &sink{}
				t := task.FromCommands("true")
				t.Name = "frag"
				o, err := output.NewTaskOutput(t, output.FormatPrefixed, sk, sk)
				if err != nil {
					core.Broken("NewTaskOutput: %v", err)
				}
				_ = o.Start()
				w := o.Stdout()
				if cut > 0 {
					_, _ = w.Write(append([]byte{}, stream[:cut]...))
				}
				if cut < len(stream) {
					_, _ = w.Write(append([]byte{}, stream[cut:]...))
				}
				_ = o.Finish()
				atomic.AddInt64(&evals, 1)
				var concat []byte
				okLines := true
				for _, wr := range sk.writes {
					_, txt, ok := splitWrite(wr, []string{"frag"})
					okLines = okLines && ok
					concat = append(concat, txt...)
				}
				if !okLines || norm(concat) != norm(stream) {
					add("prefixed:bytes-lost-duplicated-or-leaked", fmt.Sprintf("output %q (it ends in the beginning of an escape sequence) written as %q + %q: after normalisation the sink has %q, the task wrote %q", stream, stream[:cut], stream[cut:], norm(concat), norm(stream)), map[string]interface{}{"sink": fmt.Sprintf("%q", sk.writes)})
					break
				}
			}
		}
	}

	// (1c) blanks are bytes like any others: writes that consist of white space only (a blank between two
	// words written separately, indentation written on its own, a line of blanks)
	for k, pieces := range [][]string{
		{"hello", " ", "world\n"},
		{"\t", "indented\n", "    ", "more\n"},
		{"a", "  ", "b", "\t", "c\n"},
		{"   \n", "x\n", " ", "\n", "y"},
		{" ", " ", " ", "z\n"},
	} {
		sk := &sink{}
		t := task.FromCommands("true")
		t.Name = "blanks"
		o, err := output.NewTaskOutput(t, output.FormatPrefixed, sk, sk)
		if err != nil {
			core.Broken("NewTaskOutput: %v", err)
		}
		_ = o.Start()
		w := o.Stdout()
		var all []byte
		for _, pc := range pieces {
			_, _ = w.Write([]byte(pc))
			all = append(all, pc...)
		}
		_ = o.Finish()
		atomic.AddInt64(&evals, 1)
		var concat []byte
		for _, wr := range sk.writes {
			if _, txt, ok := splitWrite(wr, []string{"blanks"}); ok {
				concat = append(concat, txt...)
			} else {
				concat = append(concat, []byte("<not a prefixed line>")...)
			}
		}
		if norm(concat) != norm(all) {
			add("prefixed:bytes-lost-duplicated-or-leaked", fmt.Sprintf("writes %q (case %d: white space written on its own): after normalisation the sink has %q, the task wrote %q", pieces, k, norm(concat), norm(all)), map[string]interface{}{"sink": fmt.Sprintf("%q", sk.writes)})
			break
		}
	}

	// (2) raw format forwards bytes unchanged; long lines; concurrent writers with random chunkings
	nConc := 60
	if thorough {
		nConc = 1500
	}
	core.Parallel(nConc, 8, func(i int) {
		rng := rand.New(rand.NewSource(env.Seed*7919 + int64(i)))
		nw := 1 + rng.Intn(8)
		format := output.FormatPrefixed
		if i%5 == 0 {
			format = output.FormatRaw
		}
		sk := &sink{}
		var names []string
		streams := make([][]byte, nw)
		var wgw sync.WaitGroup
		for w := 0; w < nw; w++ {
			name := fmt.Sprintf("task%d", w)
			if i%3 == 0 {
				name = fmt.Sprintf("t%%s-%d%%", w) // a name with per-cent signs
			}
			names = append(names, name)
			var b []byte
			for k := 0; k < 3+rng.Intn(10); k++ {
				switch rng.Intn(9) {
				case 0:
					b = append(b, '\n')
				case 1:
					b = append(b, "\r\n"...)
				case 2:
					b = append(b, "\x1b[1;32m"...)
				case 3:
					b = append(b, "\x1b[0m"...)
					if k%2 == 0 {
						// long sequences too (truecolor foreground and background)
						b = append(b, "\x1b[38;2;255;128;64m"...)
						b = append(b, "\x1b[38;2;255;128;64;48;2;10;20;30m"...)
					}
				case 4:
					n := []int{4095, 4096, 4097, 10000}[rng.Intn(4)]
					b = append(b, bytes.Repeat([]byte{byte('A' + w)}, n)...)
				default:
					b = append(b, fmt.Sprintf("<%s-%d>", name, k)...)
				}
			}
			if rng.Intn(2) == 0 {
				b = append(b, '\n')
			}
			streams[w] = b
		}
		if format == output.FormatRaw {
			nw = 1
		}
		for w := 0; w < nw; w++ {
			w := w
			t := task.FromCommands("true")
			t.Name = names[w]
			o, _ := output.NewTaskOutput(t, format, sk, sk)
			seed := rng.Int63()
			wgw.Add(1)
			go func() {
				defer wgw.Done()
				r := rand.New(rand.NewSource(seed))
				_ = o.Start()
				out := o.Stdout()
				b := streams[w]
				var buf []byte
				for len(b) > 0 {
					n := 1 + r.Intn(40)
					if r.Intn(6) == 0 {
						n = 1 + r.Intn(6000)
					}
					if n > len(b) {
						n = len(b)
					}
					buf = append(buf[:0], b[:n]...)
					_, _ = out.Write(buf)
					for k := range buf {
						buf[k] = '#' // the producer re-uses its buffer
					}
					b = b[n:]
				}
				_ = o.Finish()
			}()
		}
		wgw.Wait()
		atomic.AddInt64(&evals, 1)
		if format == output.FormatRaw {
			var all []byte
			for _, wr := range sk.writes {
				all = append(all, wr...)
			}
			if !bytes.Equal(all, streams[0]) {
				add("raw:bytes-changed", "raw output did not forward the task's bytes unchanged and in order", nil)
			}
			return
		}
		per := map[string][]byte{}
		for _, wr := range sk.writes {
			n, txt, ok := splitWrite(wr, names)
			if !ok {
				add("prefixed:not-a-whole-prefixed-line", fmt.Sprintf("with %d concurrent writers a sink write is not one prefixed line: %q", nw, clip(wr)), nil)
				return
			}
			per[n] = append(per[n], txt...)
		}
		for w := 0; w < nw; w++ {
			if norm(per[names[w]]) != norm(streams[w]) {
				add("prefixed:concurrent:bytes-lost-or-attributed-to-another-task", fmt.Sprintf("%d concurrent writers: after normalisation %s's lines carry %d bytes, it wrote %d", nw, names[w], len(norm(per[names[w]])), len(norm(streams[w]))), nil)
				return
			}
		}
	})

	// (3) the format is presentation only: same result under raw / prefixed / cockpit, no crash
	home := env.Sub("home")
	kinds := map[string]string{
		"ok":         "    command: [\"/bin/echo ok >> TRACE\"]\n",
		"fail":       "    command: [\"/bin/echo fail >> TRACE; exit 3\"]\n",
		"allowed":    "    allow_failure: true\n    command: [\"/bin/echo a1 >> TRACE; exit 3\", \"/bin/echo a2 >> TRACE\"]\n",
		"skipped":    "    condition: \"exit 1\"\n    command: [\"/bin/echo skipped >> TRACE\"]\n",
		"beforefail": "    before: [\"exit 1\"]\n    command: [\"/bin/echo bf >> TRACE\"]\n",
		"noisy":      "    command: [\"printf 'a\\\\033[3'; printf '1mb\\\\n'; /bin/echo noisy >> TRACE\"]\n",
	}
	reps := 1
	if thorough {
		reps = 6
	}
	var names []string
	for k := range kinds {
		names = append(names, k)
	}
	type key struct{ kind, target string }
	var mu2 sync.Mutex
	results := map[key]map[string]string{}
	var jobs []func()
	for _, k := range names {
		for _, target := range []string{"task", "pipeline"} {
			for _, f := range []string{"raw", "prefixed", "cockpit"} {
				for r := 0; r < reps; r++ {
					k, target, f := k, target, f
					jobs = append(jobs, func() {
						d := env.Sub("fmt")
						trace := filepath.Join(d, "trace")
						y := "tasks:\n  t:\n" + strings.ReplaceAll(kinds[k], "TRACE", trace) + "  u:\n    command: [\"true\"]\npipelines:\n  p:\n    - task: t\n    - task: u\n    - name: u2\n      task: u\n"
						_ = ioutil.WriteFile(filepath.Join(d, "tasks.yaml"), []byte(y), 0o644)
						tg := "t"
						if target == "pipeline" {
							tg = "p"
						}
						res := core.RunBin(d, core.CleanEnv(home), 30*time.Second, "", env.Taskctl, "-o", f, tg)
						atomic.AddInt64(&evals, 1)
						tb, _ := ioutil.ReadFile(trace)
						obs := fmt.Sprintf("exit=%d trace=%q", res.Exit, string(tb))
						if res.TimedOut {
							add("format:"+f+":hang", fmt.Sprintf("taskctl -o %s %s (%s task) did not finish within 30 s", f, tg, k), map[string]interface{}{"yaml": y})
							return
						}
						if res.Crashed() {
							add("format:"+f+":crash", fmt.Sprintf("taskctl -o %s %s (%s task) crashed: %s", f, tg, k, firstPanic(res.Stderr)), map[string]interface{}{"yaml": y, "stderr": tail(res.Stderr, 1500)})
							return
						}
						mu2.Lock()
						if results[key{k, target}] == nil {
							results[key{k, target}] = map[string]string{}
						}
						results[key{k, target}][f] = obs
						mu2.Unlock()
					})
				}
			}
		}
	}
	core.Parallel(len(jobs), 12, func(i int) { jobs[i]() })
	for k, m := range results {
		if m["prefixed"] != "" && m["raw"] != "" && m["prefixed"] != m["raw"] || m["cockpit"] != "" && m["raw"] != "" && m["cockpit"] != m["raw"] {
			add("format:result-depends-on-format", fmt.Sprintf("%s task run as %s: raw %s, prefixed %s, cockpit %s", k.kind, k.target, m["raw"], m["prefixed"], m["cockpit"]), nil)
		}
	}
	// many tasks finishing at the same time under cockpit (spinner restart vs. its update callback)
	cock := 4
	if thorough {
		cock = 40
	}
	core.Parallel(cock, 4, func(i int) {
		d := env.Sub("cock")
		var y strings.Builder
		y.WriteString("tasks:\n  t:\n    command: [\"sleep 0.1\"]\npipelines:\n  p:\n")
		for s := 0; s < 8; s++ {
			fmt.Fprintf(&y, "    - name: s%d\n      task: t\n", s)
		}
		_ = ioutil.WriteFile(filepath.Join(d, "tasks.yaml"), []byte(y.String()), 0o644)
		res := core.RunBin(d, core.CleanEnv(home), 30*time.Second, "", env.Taskctl, "-o", "cockpit", "p")
		atomic.AddInt64(&evals, 1)
		if res.TimedOut {
			add("format:cockpit:hang", "a pipeline of 8 parallel stages under cockpit output did not finish within 30 s", nil)
		} else if res.Crashed() || res.Exit != 0 {
			add("format:cockpit:crash", fmt.Sprintf("a pipeline of 8 parallel stages under cockpit output failed (exit %d): %s", res.Exit, firstPanic(res.Stderr)), nil)
		}
	})

	// (3b) the recorded result of a task (flags, exit code, captured output, error message) under
	// each format, on the real TaskRunner
	atomic.AddInt64(&evals, int64(checkFormatResult(env, add)))

	// (4) a task's "Finished" line against the spinner's drawing goroutine (Spinner.tla)
	spinFinishes := checkSpinner(env, add, note)
	atomic.AddInt64(&evals, int64(spinFinishes))

	gen, dist, nruns, cmds := core.TLCTotals()
	cov := map[string]interface{}{
		"cockpit_task_finishes_under_fast_spinner": spinFinishes,
		"states": dist, "transitions": gen, "tlc_runs": nruns,
		"traces_validated_against_impl": int(evals), "evaluations": int(evals), "distinct_nontrivial": len(cases),
		"lockstep_cases": len(cases), "concurrent_runs": nConc, "format_runs": len(jobs) + cock,
		"rule":       "lock-step: every stream of <=4 tokens over {plain, LF, CRLF, ANSI sequence} x every chunking with <=2 cuts (cuts inside CRLF and inside the escape sequence included) from DecorGen.tla with the predicted sink writes, written chunk by chunk into the real prefixed decorator over a recording sink (exact sink texts + the normalisation property); concurrent: 1..8 goroutines with random streams (lines of up to 10000 bytes, CR/LF variants, ANSI sequences, unterminated tail) and random chunkings into one sink; raw: byte equality; formats: 6 task outcomes x task/pipeline x raw/prefixed/cockpit through the binary, and 8 parallel stages under cockpit; spinner: Spinner.tla (lock protocol between a finishing task and the drawing goroutines) and 1..3 goroutines starting and finishing task outputs under cockpit with a 20 us frame in a child process (progress-based hang detection)",
		"model_runs": modelRuns, "samples": samples.List(), "checker_cmds": cmds,
	}
	return &core.Result{Level: "model_checking", Coverage: cov, Assumptions: []string{
		"stray ESC bytes that do not form a well-formed sequence are outside the alphabet",
		"normalisation = remove CR/LF, then complete CSI sequences, applied to both sides",
	}}
}

func clip(b []byte) string {
	if len(b) > 120 {
		return string(b[:120]) + "..."
	}
	return string(b)
}
func tail(s string, n int) string {
	if len(s) > n {
		return s[len(s)-n:]
	}
	return s
}
func firstPanic(s string) string {
	for _, l := range strings.Split(s, "\n") {
		if strings.HasPrefix(l, "panic:") || strings.HasPrefix(l, "fatal error:") {
			return l
		}
	}
	ls := strings.Split(strings.TrimSpace(s), "\n")
	return ls[len(ls)-1]
}

var _ = reAnyANSI
