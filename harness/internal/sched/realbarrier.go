package sched

import (
	"fmt"
	"io/ioutil"
	"path/filepath"
	"strings"
	"time"

	"github.com/taskctl/taskctl/pkg/runner"
	"github.com/taskctl/taskctl/pkg/scheduler"
	"github.com/taskctl/taskctl/pkg/task"
	"github.com/taskctl/taskctl/pkg/variables"

	"verif/harness/internal/core"
)

// RealBarrier is the statement's own example run on the real TaskRunner: k stages without
// dependencies between them, each of which only succeeds once its neighbour is running too (it
// creates a marker file and waits for the neighbour's). The stages use ONE task (same name)
// with per-stage env, as a configuration may; a layer below the scheduler that serialises them
// makes the pipeline fail or hang.
func RealBarrier(env *core.Env, rep *core.Report, rounds int) int {
	n := 0
	for r := 0; r < rounds; r++ {
		for _, k := range []int{2, 3, 5} {
			d := env.Sub("barrier")
			// (each task first prints a piece of text that does not end in a newline: output is no rendez-vous)
			t := task.FromCommands(`printf 'working on %s ... ' "$ME"; : > "$D/$ME"; n=0; while [ ! -f "$D/$PEER" ] && [ $n -lt 150 ]; do sleep 0.02; n=$((n+1)); done; [ -f "$D/$PEER" ]`)
			t.Name = "shared"
			t.Env = variables.FromMap(map[string]string{"D": d})
			var stages []*scheduler.Stage
			for i := 1; i <= k; i++ {
				st := &scheduler.Stage{Name: fmt.Sprintf("b%d", i), Task: t,
					Env: variables.FromMap(map[string]string{"ME": fmt.Sprint(i), "PEER": fmt.Sprint(i%k + 1)})}
				if (r+i)%2 == 0 {
					// some stages use their own task object with the same name
					tc := *t
					st.Task = &tc
				}
				stages = append(stages, st)
			}
			g, err := scheduler.NewExecutionGraph(stages...)
			if err != nil {
				core.Broken("barrier graph: %v", err)
			}
			// every other round the tasks share a named execution context with up / before / after /
			// down hooks (and, for k >= 3, a task-level before and after hook): sharing a context must
			// not serialise them either
			if r%2 == 1 && k == 3 {
				// interactive tasks (they get the runner's stdin) overlap like any others
				t.Interactive = true
				for _, st := range stages {
					st.Task.Interactive = true
				}
			}
			var opts []runner.Opts
			hookLog := ""
			withCtx := r%2 == 0
			if withCtx {
				t.Context = "shared-ctx"
				if k >= 3 {
					t.Before, t.After = []string{"true"}, []string{"true"}
				}
				for _, st := range stages {
					st.Task.Context, st.Task.Before, st.Task.After = t.Context, t.Before, t.After
				}
				// the context's before hook takes a moment and leaves start / end markers: the hooks of
				// tasks that run together overlap (some start is followed by another start, not by its end)
				hookLog = filepath.Join(d, "hooks")
				cb := fmt.Sprintf("/bin/echo start >> %s; sleep 0.15; /bin/echo end >> %s", hookLog, hookLog)
				opts = append(opts, runner.WithContexts(map[string]*runner.ExecutionContext{
					"shared-ctx": runner.NewExecutionContext(nil, "", variables.NewVariables(), []string{"true"}, []string{"true"}, []string{cb}, []string{"true"}),
				}))
			}
			tr, _ := runner.NewTaskRunner(opts...)
			tr.Stdout, tr.Stderr = ioutil.Discard, ioutil.Discard
			sd := scheduler.NewScheduler(tr)
			sd.VerifSetPause(time.Millisecond)
			done := make(chan error, 1)
			go func() { done <- sd.Schedule(g) }()
			var serr error
			returned := true
			select {
			case serr = <-done:
			case <-time.After(20 * time.Second):
				returned = false
			}
			n++
			var sts []string
			for _, s := range stages {
				sts = append(sts, statusName[s.ReadStatus()])
			}
			if hookLog != "" && returned && serr == nil {
				bs, _ := ioutil.ReadFile(hookLog)
				seq := strings.Fields(string(bs))
				overlap := false
				for j := 0; j+1 < len(seq); j++ {
					overlap = overlap || (seq[j] == "start" && seq[j+1] == "start")
				}
				if !overlap {
					rep.Add(core.Finding{Prop: "C04", Key: "C04:real-runner:context-hooks-of-independent-stages-do-not-overlap",
						What:   fmt.Sprintf("%d independent stages sharing a context: the context's before hooks (150 ms each) ran strictly one after the other: %v", k, seq),
						Detail: map[string]interface{}{"stages": k}})
					return n
				}
			}
			if !returned || serr != nil {
				rep.Add(core.Finding{Prop: "C04", Key: "C04:real-runner:independent-stages-do-not-overlap",
					What:   fmt.Sprintf("%d independent stages (one task name, per-stage env, shared context with hooks: %v) that each wait for a neighbour to be running: returned=%v error=%v statuses=%v", k, withCtx, returned, serr, sts),
					Detail: map[string]interface{}{"stages": k}})
				return n
			}
		}
	}
	return n
}
