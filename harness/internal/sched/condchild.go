package sched

import (
	"fmt"
	"io/ioutil"
	"path/filepath"
	"time"

	"verif/harness/internal/core"
)

// CondChild: a stage condition is a program; what it leaves running in the background (a helper that
// outlives it and keeps its output open) is none of the scheduler's business: the condition has
// exited, the stage is decided, the run goes on and returns. Through the binary.
func CondChild(env *core.Env, rep *core.Report) int {
	d := env.Sub("condchild")
	home := env.Sub("cchome")
	logf := filepath.Join(d, "log")
	_ = ioutil.WriteFile(filepath.Join(d, "cond.sh"), []byte("#!/bin/sh\nsleep 12 &\nexit 0\n"), 0o755)
	_ = ioutil.WriteFile(filepath.Join(d, "skip.sh"), []byte("#!/bin/sh\nsleep 12 &\nexit 1\n"), 0o755)
	y := fmt.Sprintf("tasks:\n  a:\n    command: [\"echo a >> %s\"]\n  b:\n    command: [\"echo b >> %s\"]\n  c:\n    command: [\"echo c >> %s\"]\npipelines:\n  p:\n    - task: a\n      condition: %q\n    - task: b\n      condition: %q\n    - task: c\n      depends_on: [a, b]\n", logf, logf, logf, filepath.Join(d, "cond.sh"), filepath.Join(d, "skip.sh"))
	_ = ioutil.WriteFile(filepath.Join(d, "tasks.yaml"), []byte(y), 0o644)
	t0 := time.Now()
	res := core.RunBin(d, core.CleanEnv(home), 40*time.Second, "", env.Taskctl, "--raw", "p")
	took := time.Since(t0)
	b, _ := ioutil.ReadFile(logf)
	if res.TimedOut || res.Crashed() || res.Exit != 0 || took > 8*time.Second {
		rep.Add(core.Finding{Prop: "C03", Key: "C03:binary:run-waits-for-what-a-condition-left-behind",
			What:   fmt.Sprintf("stage conditions that exit at once but leave a background process (12 s) behind: the run took %.1f s (exit %d, timed out %v, executed %q); the conditions were decided when they exited", took.Seconds(), res.Exit, res.TimedOut, string(b)),
			Detail: map[string]interface{}{"yaml": y, "stderr": tail(res.Stderr, 400)}})
	}
	return 1
}
