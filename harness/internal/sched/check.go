package sched

import (
	"encoding/json"
	"fmt"
	"os"
	"sync"
	"sync/atomic"
	"time"

	"verif/harness/internal/core"
)

func parseBehs(payloads []string) []Beh {
	out := make([]Beh, 0, len(payloads))
	for _, p := range payloads {
		var b Beh
		if err := json.Unmarshal([]byte(p), &b); err != nil {
			core.Broken("cannot parse behaviour emitted by SchedGen: %v: %s", err, p)
		}
		if b.Inner == nil {
			b.Inner = []int{}
		}
		out = append(out, b)
	}
	return out
}

// Check is the engine behind C01-C04.
func Check(env *core.Env, rep *core.Report) *core.Result {
	thorough := env.Thorough()
	samples := core.NewSamples(12)
	distinct := core.NewDistinct()
	var mu sync.Mutex
	modelRuns := []map[string]interface{}{}
	note := func(name string, r *core.TLCResult, what string) {
		mu.Lock()
		modelRuns = append(modelRuns, map[string]interface{}{"config": name, "generated": r.Generated, "distinct": r.Distinct, "wall_s": r.Wall.Seconds(), "result": what})
		mu.Unlock()
	}

	// (a) the design: exhaustive TLC on Scheduler.tla
	type mc struct {
		cfg      string
		negative bool
		workers  int
	}
	mcs := []mc{{"flat3", false, 3}, {"nested3", false, 3}, {"cancel3", false, 3}, {"barrier3", false, 3}, {"serial3", true, 2}}
	if thorough {
		mcs = append(mcs, mc{"flat4", false, 14})
	}
	gens := []string{"flat2", "flat3", "nested3", "flat4"}
	if thorough {
		gens = append(gens, "nested4")
	}
	var wg sync.WaitGroup
	behs := map[string][]Beh{}
	for _, g := range gens {
		g := g
		wg.Add(1)
		go func() {
			defer wg.Done()
			r := core.MustHold(env, core.TLCOpts{Module: "SchedGen", Config: "SchedGen_" + g + ".cfg", Workers: 1, Timeout: 20 * time.Minute, HeapGB: 4})
			bs := parseBehs(r.Tagged("BEH"))
			mu.Lock()
			behs[g] = bs
			mu.Unlock()
			note("SchedGen_"+g, r, fmt.Sprintf("%d behaviours emitted; GenFinalOK, GenNoneLeft hold", len(bs)))
		}()
	}
	// the unbounded part: SchedFlat.tla (which Scheduler.tla refines, property FlatRefinement of the
	// flat configurations) keeps DepsFinished and AtMostOnce for every graph - proved with TLAPS
	wg.Add(1)
	go func() {
		defer wg.Done()
		n := core.RunTLAPM(env, "SchedFlatProofs", 10*time.Minute)
		mu.Lock()
		modelRuns = append(modelRuns, map[string]interface{}{"config": "SchedFlatProofs (tlapm)", "obligations_proved": n,
			"result": "THEOREM Safety (Spec => [](DepsFinished /\\ AtMostOnce)) and THEOREM Stability proved for every set of stages and every dependency relation; Scheduler.tla refines SchedFlat (PROPERTY FlatRefinement)"})
		mu.Unlock()
	}()
	for _, m := range mcs {
		if m.workers > 8 {
			continue // big runs after the parallel batch
		}
		m := m
		wg.Add(1)
		go func() {
			defer wg.Done()
			o := core.TLCOpts{Module: "Scheduler", Config: "Scheduler_" + m.cfg + ".cfg", Workers: m.workers, Timeout: 20 * time.Minute, HeapGB: 4}
			if m.negative {
				r := core.MustFail(env, o)
				note("Scheduler_"+m.cfg, r, "negative control: "+r.Violated+" violated as required")
			} else {
				r := core.MustHold(env, o)
				note("Scheduler_"+m.cfg, r, "all invariants and Terminates hold")
			}
		}()
	}
	wg.Wait()
	for _, m := range mcs {
		if m.workers > 8 {
			r := core.MustHold(env, core.TLCOpts{Module: "Scheduler", Config: "Scheduler_" + m.cfg + ".cfg", Workers: m.workers, Timeout: 40 * time.Minute, HeapGB: 12})
			note("Scheduler_"+m.cfg, r, "all invariants hold")
		}
	}

	// (c) lock-step replay of model behaviours on the real scheduler
	replayed, nontrivial := 0, 0
	pause := time.Millisecond
	for _, g := range gens {
		bs := behs[g]
		if g == "flat4" && !thorough {
			rng := env.Rand("flat4-sample")
			rng.Shuffle(len(bs), func(i, j int) { bs[i], bs[j] = bs[j], bs[i] })
			// the sample always contains (up to 1200 of) the behaviours in which some stage has two
			// failing dependencies or two skipped ones: per-dependency bookkeeping goes wrong there
			var first, rest []Beh
			for _, b := range bs {
				special := false
				for s := range b.Deps {
					nf, ns := 0, 0
					for _, d := range b.Deps[s] {
						switch b.Cls[d-1] {
						case "FAIL":
							nf++
						case "CFALSE":
							ns++
						}
					}
					special = special || nf >= 2 || ns >= 2
				}
				if special && len(first) < 1200 {
					first = append(first, b)
				} else {
					rest = append(rest, b)
				}
			}
			bs = append(first, rest...)
			if len(bs) > 3000 {
				bs = bs[:3000]
			}
		}
		d, nt := ReplayAll(bs, env, rep, pause, 48, g, samples, distinct)
		replayed += d
		nontrivial += nt
	}
	// a sample with the unmodified 50 ms pause: the pause hook is not needed for the verdict
	{
		bs := behs["flat3"]
		rng := env.Rand("slow-sample")
		k := 60
		if thorough {
			k = 400
		}
		var pick []Beh
		for i := 0; i < k && len(bs) > 0; i++ {
			pick = append(pick, bs[rng.Intn(len(bs))])
		}
		d, nt := ReplayAll(pick, env, rep, 0, 64, "flat3-default-pause", samples, distinct)
		replayed += d
		nontrivial += nt
	}

	// (d)+(e) random executions recorded from the real scheduler, validated by TLC
	nTraces := 300
	if thorough {
		nTraces = 5000
	}
	type job struct {
		cfg    Config
		cancel bool
	}
	rng := env.Rand("traces")
	jobs := make([]job, nTraces)
	for i := range jobs {
		n := 2 + rng.Intn(7)
		jobs[i] = job{RandomConfig(rng, n, rng.Intn(3) == 0, rng.Intn(4) == 0), rng.Intn(5) == 0}
		if i%20 == 7 {
			// a condition that cannot be evaluated INSIDE the nested pipeline (the loop of the nested
			// Schedule calls Cancel from within the stage goroutine of the including stage)
			c := RandomConfig(rng, 3+rng.Intn(5), true, false)
			if len(c.Inner) > 0 {
				c.Cls[c.Inner[rng.Intn(len(c.Inner))]-1] = "CERR"
			}
			jobs[i] = job{c, false}
		}
	}
	execs := make([][]Event, nTraces)
	oks := make([]bool, nTraces)
	core.Parallel(nTraces, 32, func(i int) {
		if atomic.LoadInt32(&stuck) >= 6 {
			return
		}
		r := env.Rand(fmt.Sprintf("trace-%d", i))
		log, ok, err := RecordRandom(jobs[i].cfg, r, jobs[i].cancel)
		if err == nil && !ok {
			atomic.AddInt32(&stuck, 1)
		}
		if err != nil {
			rep.Add(core.Finding{Prop: "C05", Key: "C05:graph-build-failed-in-scheduler-driver", What: err.Error(), Detail: jobs[i].cfg})
			return
		}
		execs[i], oks[i] = log, ok
	})
	byN := map[int][][]Event{}
	for i := range execs {
		if execs[i] == nil {
			continue
		}
		if !oks[i] {
			rep.Add(core.Finding{Prop: "C03", Key: "C03:trace:schedule-does-not-return", What: "Schedule did not return within 20 s although every task was released",
				Detail: map[string]interface{}{"config": jobs[i].cfg, "cancel": jobs[i].cancel, "trace": execs[i]}})
			continue
		}
		n := jobs[i].cfg.N
		byN[n] = append(byN[n], execs[i])
	}
	var tStates, tTrans int64
	validated := 0
	var wg2 sync.WaitGroup
	for n, ex := range byN {
		n, ex := n, ex
		wg2.Add(1)
		go func() {
			defer wg2.Done()
			acc, rejs, st, tr := ValidateTraces(env, n, ex)
			mu.Lock()
			validated += acc
			tStates += st
			tTrans += tr
			mu.Unlock()
			for _, rj := range rejs {
				prop, kind := classifyRejection(rj, ex[rj.Exec])
				rep.Add(core.Finding{Prop: prop, Key: prop + ":" + kind,
					What:   fmt.Sprintf("recorded execution is not a behaviour of Scheduler.tla: rejected at event %s (violated: %q)", core.JSON(rj.Event), rj.Invariant),
					Detail: map[string]interface{}{"trace": ex[rj.Exec], "rejected_event_index": rj.Pos}})
			}
		}()
	}
	wg2.Wait()
	for n, ex := range byN {
		if len(ex) > 0 {
			samples.Add(map[string]interface{}{"kind": "recorded-trace", "n": n, "events": evString(ex[0])})
		}
	}

	// the repository's own tests as trace sources (DESIGN.md 3.5)
	repoInfo := map[string]interface{}{"skipped": "thorough tier only"}
	if thorough || os.Getenv("VERIF_REPOTESTS") == "1" {
		rbyN, total, skippedEx, rnote := RepoTestTraces(env)
		accepted := 0
		for n, ex := range rbyN {
			acc, rejs, st, tr := ValidateTraces(env, n, ex)
			accepted += acc
			tStates += st
			tTrans += tr
			for _, rj := range rejs {
				prop, kind := classifyRejection(rj, ex[rj.Exec])
				rep.Add(core.Finding{Prop: prop, Key: prop + ":repotests:" + kind,
					What:   fmt.Sprintf("an execution driven by the repository's own tests is not a behaviour of Scheduler.tla: rejected at event %s (violated: %q)", core.JSON(rj.Event), rj.Invariant),
					Detail: map[string]interface{}{"trace": ex[rj.Exec], "rejected_event_index": rj.Pos}})
			}
		}
		validated += accepted
		repoInfo = map[string]interface{}{"executions_recorded": total, "accepted": accepted, "outside_trace_spec_shape": skippedEx, "note": rnote}
	}

	// the statement's own example on the real TaskRunner (one task name shared by the stages)
	realBarrierRuns := RealBarrier(env, rep, map[bool]int{false: 2, true: 10}[thorough])

	// whole-binary executions against the composed specification Taskctl.tla
	nBin := 40
	if thorough {
		nBin = 600
	}
	composeInfo := ComposeCheck(env, rep, nBin, "n2", "nest3", "nest3_pinned", "nest3_errlate", "+n3")
	if a, ok := composeInfo["accepted"].(int); ok {
		validated += a
	}

	// a pipeline included by several stages at once: concurrent nested Schedule calls over one graph
	doubleInc := DoubleInclusion(env, rep, map[bool]int{false: 2500, true: 40000}[thorough])
	validated += doubleInc

	// many independent stages at once
	validated += WideFanOut(env, rep, map[bool][]int{false: {40, 130}, true: {40, 70, 130, 300, 1000}}[thorough])

	// Cancel while an included pipeline is being scheduled
	validated += NestedCancel(env, rep, map[bool]int{false: 5, true: 100}[thorough])

	// nested pipelines built from configuration files, through the binary
	nestedBin := NestedBinCheck(env, rep, map[bool]int{false: 24, true: 400}[thorough])
	CondChild(env, rep)
	SlowScan(env, rep, map[bool]int{false: 25, true: 300}[thorough])
	validated += nestedBin

	// binding self-test: a corrupted trace must be rejected
	selftest := bindingSelfTest(env, byN)

	gen, dist, runs, cmds := core.TLCTotals()
	cov := map[string]interface{}{
		"states": dist, "transitions": gen, "tlc_runs": runs,
		"traces_validated_against_impl":           replayed + validated,
		"lockstep_behaviours_replayed":            replayed,
		"recorded_traces_accepted":                validated,
		"recorded_traces_total":                   nTraces,
		"evaluations":                             replayed + nTraces,
		"distinct_nontrivial":                     nontrivial,
		"rule":                                    "lock-step: every behaviour (configuration x completion order) emitted by SchedGen.tla for the listed configs, distinct by (configuration, release order), non-trivial = at least 2 releases; traces: seeded random DAGs of 2..8 stages (nested pipeline 1/3, unevaluable condition 1/4, caller Cancel 1/5) with random release timing",
		"model_runs":                              modelRuns,
		"distinct_lockstep_cases":                 distinct.N(),
		"binding_selftest":                        selftest,
		"repository_tests_as_trace_sources":       repoInfo,
		"real_runner_barrier_pipelines":           realBarrierRuns,
		"whole_binary_traces_against_Taskctl_tla": composeInfo,
		"nested_pipelines_through_the_binary":     nestedBin,
		"doubly_included_pipeline_runs":           doubleInc,
		"samples":                                 samples.List(),
		"checker_cmds":                            cmds,
		"exhaustive":                              true,
		"exhaustive_scope":                        "all DAGs on <=3 stages x 4 classes x all completion orders (flat and with one nested pipeline); quick samples 3000 of the 43897 4-stage behaviours, thorough replays all of them and the 55284 nested 4-stage ones",
	}
	return &core.Result{Level: "model_checking", Coverage: cov, Assumptions: []string{
		"stage conditions are the external programs `false` and a non-existent path (values do not change during a run)",
		"the controlled Runner stands for the task runner: a stage is 'running' while its Run call is blocked",
		"TLC and the CommunityModules are trusted; the transcription's faithfulness is what the replay and trace validation test",
	}}
}

// bindingSelfTest corrupts one recorded execution (a dependant's launch moved before its
// dependency's completion) and requires SchedTrace.tla to reject it.
func bindingSelfTest(env *core.Env, byN map[int][][]Event) map[string]interface{} {
	for n, ex := range byN {
		for _, e := range ex {
			cfg := e[0]
			deps := cfg["deps"].([][]int)
			// find st(s,R) of a stage s with a dependency d, and the st(d,D|E) before it
			for i := 1; i < len(e); i++ {
				if e[i]["e"] != "st" || e[i]["v"] != "R" {
					continue
				}
				s := toInt(e[i]["s"])
				if len(deps[s-1]) == 0 {
					continue
				}
				d := deps[s-1][0]
				for j := 1; j < i; j++ {
					if e[j]["e"] == "st" && toInt(e[j]["s"]) == d && (e[j]["v"] == "D" || e[j]["v"] == "E") {
						// move the launch in front of the dependency's publication
						var c []Event
						c = append(c, e[:j]...)
						c = append(c, e[i])
						c = append(c, e[j:i]...)
						c = append(c, e[i+1:]...)
						_, rejs, _, _ := ValidateTraces(env, n, [][]Event{c})
						if len(rejs) == 0 {
							core.Broken("binding self-test: a trace in which stage %d is launched before its dependency %d finished was accepted by SchedTrace.tla", s, d)
						}
						return map[string]interface{}{"corruption": fmt.Sprintf("launch of stage %d moved before completion of its dependency %d", s, d), "rejected": true,
							"rejected_at": rejs[0].Event}
					}
				}
			}
		}
	}
	return map[string]interface{}{"skipped": "no suitable execution in this batch"}
}
