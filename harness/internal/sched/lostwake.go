package sched

import (
	"fmt"
	"io/ioutil"
	"math/rand"
	"path/filepath"
	"time"

	"github.com/taskctl/taskctl/pkg/scheduler"
	"github.com/taskctl/taskctl/pkg/task"

	"verif/harness/internal/core"
)

type jitterRunner struct{ rng func() time.Duration }

func (j jitterRunner) Run(t *task.Task) error { time.Sleep(j.rng()); return nil }
func (j jitterRunner) Cancel()                {}
func (j jitterRunner) Finish()                {}

// SlowScan: completions that land while the loop is in the middle of a pass. Two quick stages a and b
// finish within milliseconds of each other; d depends on both; five further stages wait for d and
// have conditions that are programs taking 15 ms each, so that a pass over the graph takes a while
// and the second completion falls into it. Whatever the loop had already looked at when b
// finished, d becomes eligible and must be started: the run completes. (Real time, no gates: the
// point is the timing the loop meets in the field.)
func SlowScan(env *core.Env, rep *core.Report, rounds int) int {
	d := env.Sub("slowscan")
	cond := filepath.Join(d, "slow-yes.sh")
	_ = ioutil.WriteFile(cond, []byte("#!/bin/sh\nsleep 0.015\nexit 0\n"), 0o755)
	rng := rand.New(rand.NewSource(env.Seed*31 + 7))
	for r := 0; r < rounds; r++ {
		mk := func(name string, deps ...string) *scheduler.Stage {
			t := task.FromCommands("true")
			t.Name = name
			return &scheduler.Stage{Name: name, Task: t, DependsOn: deps}
		}
		stages := []*scheduler.Stage{mk("a"), mk("b"), mk("d", "a", "b")}
		for k := 1; k <= 5; k++ {
			w := mk(fmt.Sprintf("w%d", k), "d")
			w.Condition = cond
			stages = append(stages, w)
		}
		g, err := scheduler.NewExecutionGraph(stages...)
		if err != nil {
			core.Broken("graph: %v", err)
		}
		base := time.Duration(20+rng.Intn(60)) * time.Millisecond
		k := 0
		sd := scheduler.NewScheduler(jitterRunner{func() time.Duration {
			k++
			return base + time.Duration(k%2)*time.Duration(rng.Intn(40))*time.Millisecond
		}})
		done := make(chan error, 1)
		go func() { done <- sd.Schedule(g) }()
		select {
		case <-done:
		case <-time.After(15 * time.Second):
			var sts []string
			for _, s := range stages {
				sts = append(sts, s.Name+"="+statusName[s.ReadStatus()])
			}
			rep.Add(core.Finding{Prop: "C04", Key: "C04:slow-pass:eligible-stage-never-started",
				What:   fmt.Sprintf("a, b finish within milliseconds of each other while the loop is busy evaluating the (slow) conditions of five waiting stages; d depends on a and b: after 15 s the run has not completed (round %d): %v", r, sts),
				Detail: nil})
			rep.Add(core.Finding{Prop: "C03", Key: "C03:slow-pass:run-does-not-complete",
				What:   fmt.Sprintf("two completions during a slow pass: the run did not complete within 15 s (round %d): %v", r, sts),
				Detail: nil})
			sd.Cancel()
			return r + 1
		}
	}
	return rounds
}
