package sched

import (
	"fmt"
	"sync"
	"time"

	"github.com/taskctl/taskctl/pkg/scheduler"
	"github.com/taskctl/taskctl/pkg/task"

	"verif/harness/internal/core"
)

type recRunner struct {
	mu      sync.Mutex
	started []string
	gate    map[string]chan struct{}
	entered chan string
}

func (r *recRunner) Run(t *task.Task) error {
	r.mu.Lock()
	r.started = append(r.started, t.Name)
	g := r.gate[t.Name]
	r.mu.Unlock()
	select {
	case r.entered <- t.Name:
	default:
	}
	if g != nil {
		<-g
	}
	return nil
}
func (r *recRunner) Cancel() {}
func (r *recRunner) Finish() {}

// NestedCancel: Scheduler.Cancel while an INCLUDED pipeline is being scheduled. The included
// pipeline is i1 -> i2 (and the outer one has a stage after the including one); Cancel is called
// while i1 is in flight and has returned before i1 is let go. The cancelled flag belongs to the
// whole run: neither the nested loop nor the outer one starts a further stage, and Schedule returns.
func NestedCancel(env *core.Env, rep *core.Report, rounds int) int {
	for k := 0; k < rounds; k++ {
		mk := func(n string) *task.Task { t := task.FromCommands("true"); t.Name = n; return t }
		inner, err := scheduler.NewExecutionGraph(
			&scheduler.Stage{Name: "i1", Task: mk("i1")},
			&scheduler.Stage{Name: "i2", Task: mk("i2"), DependsOn: []string{"i1"}})
		if err != nil {
			core.Broken("graph: %v", err)
		}
		outer, err := scheduler.NewExecutionGraph(
			&scheduler.Stage{Name: "inc", Pipeline: inner},
			&scheduler.Stage{Name: "after", Task: mk("after"), DependsOn: []string{"inc"}})
		if err != nil {
			core.Broken("graph: %v", err)
		}
		rr := &recRunner{gate: map[string]chan struct{}{"i1": make(chan struct{})}, entered: make(chan string, 8)}
		s := scheduler.NewScheduler(rr)
		s.VerifSetPause(time.Millisecond)
		done := make(chan error, 1)
		go func() { done <- s.Schedule(outer) }()
		select {
		case <-rr.entered:
		case <-time.After(10 * time.Second):
			rep.Add(core.Finding{Prop: "C03", Key: "C03:nested-cancel:included-stage-never-started", What: "the first stage of an included pipeline was not started within 10 s", Detail: nil})
			return k
		}
		cret := make(chan struct{})
		go func() { s.Cancel(); close(cret) }()
		select {
		case <-cret:
		case <-time.After(10 * time.Second):
			rep.Add(core.Finding{Prop: "C12", Key: "C12:nested-cancel:cancel-does-not-return", What: "Scheduler.Cancel (fake runner) did not return within 10 s while an included pipeline was running", Detail: nil})
			close(rr.gate["i1"])
			return k
		}
		time.Sleep(20 * time.Millisecond) // a few passes of both loops with the flag set
		close(rr.gate["i1"])
		returned := true
		select {
		case <-done:
		case <-time.After(20 * time.Second):
			returned = false
		}
		rr.mu.Lock()
		started := append([]string{}, rr.started...)
		rr.mu.Unlock()
		if !returned {
			rep.Add(core.Finding{Prop: "C03", Key: "C03:nested-cancel:schedule-does-not-return", What: "Schedule did not return within 20 s after a Cancel during an included pipeline", Detail: nil})
			rep.Add(core.Finding{Prop: "C12", Key: "C12:nested-cancel:schedule-does-not-return", What: "Schedule did not return within 20 s after a Cancel during an included pipeline", Detail: nil})
			return k
		}
		if len(started) != 1 {
			what := fmt.Sprintf("Cancel was called and had returned while stage i1 of an included pipeline was in flight; afterwards these tasks were handed to the Runner: %v (only i1 expected)", started)
			rep.Add(core.Finding{Prop: "C12", Key: "C12:nested-cancel:stage-started-after-cancel", What: what, Detail: nil})
			rep.Add(core.Finding{Prop: "C03", Key: "C03:nested-cancel:stage-started-after-cancel", What: what, Detail: nil})
			return k
		}
	}
	return rounds
}
