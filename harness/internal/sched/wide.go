package sched

import (
	"fmt"
	"sync/atomic"
	"time"

	"github.com/taskctl/taskctl/pkg/scheduler"
	"github.com/taskctl/taskctl/pkg/task"

	"verif/harness/internal/core"
)

type rendezvousRunner struct {
	want    int32
	entered *int32
	all     chan struct{}
}

func (r rendezvousRunner) Run(t *task.Task) error {
	if atomic.AddInt32(r.entered, 1) == r.want {
		close(r.all)
	}
	select {
	case <-r.all:
		return nil
	case <-time.After(15 * time.Second):
		return fmt.Errorf("only %d of %d stages were running together", atomic.LoadInt32(r.entered), r.want)
	}
}
func (r rendezvousRunner) Cancel() {}
func (r rendezvousRunner) Finish() {}

// WideFanOut: n stages without dependencies, each of which returns only when all n are running
// (C04's own example, with many stages): every eligible stage is started, however many there are.
func WideFanOut(env *core.Env, rep *core.Report, sizes []int) int {
	for _, n := range sizes {
		var stages []*scheduler.Stage
		for i := 0; i < n; i++ {
			stages = append(stages, &scheduler.Stage{Name: fmt.Sprintf("w%d", i), Task: task.FromCommands("true")})
		}
		g, err := scheduler.NewExecutionGraph(stages...)
		if err != nil {
			core.Broken("graph: %v", err)
		}
		var entered int32
		s := scheduler.NewScheduler(rendezvousRunner{want: int32(n), entered: &entered, all: make(chan struct{})})
		s.VerifSetPause(time.Millisecond)
		done := make(chan error, 1)
		go func() { done <- s.Schedule(g) }()
		var serr error
		select {
		case serr = <-done:
		case <-time.After(40 * time.Second):
			serr = fmt.Errorf("Schedule did not return within 40 s")
		}
		if serr != nil {
			rep.Add(core.Finding{Prop: "C04", Key: "C04:wide:independent-stages-not-all-started",
				What:   fmt.Sprintf("%d stages without dependencies that each wait for all of them to be running: %v", n, serr),
				Detail: map[string]interface{}{"stages": n}})
			return n
		}
	}
	return len(sizes)
}
