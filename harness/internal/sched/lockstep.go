package sched

import (
	"fmt"
	"math/rand"
	"os"
	"sync/atomic"
	"time"

	"verif/harness/internal/core"
)

// Mismatch is a disagreement between the real scheduler and the model prediction.
type Mismatch struct {
	Prop string
	Kind string
	What string
}

const stepDeadline = 8 * time.Second

func contains(xs []int, x int) bool {
	for _, y := range xs {
		if y == x {
			return true
		}
	}
	return false
}

// classify compares an observation with the prediction. finishedOK(d) reports whether
// dependency d has finished in the sense of C01 (Run returned and published, or skipped).
func classify(cfg Config, predSt []string, predRun []int, st []string, infl []int, stuck bool, at string) []Mismatch {
	var out []Mismatch
	depUnfinished := func(s int) bool {
		for _, d := range cfg.Deps[s-1] {
			ds := st[d-1]
			if ds == "W" || ds == "R" || ds == "C" {
				return true
			}
			if ds == "E" && cfg.Cls[d-1] != "FAILA" && cfg.Cls[d-1] != "FAIL" {
				return true
			}
		}
		return false
	}
	for i := 1; i <= cfg.N; i++ {
		o, p := st[i-1], predSt[i-1]
		running := o == "R" || contains(infl, i)
		predRunning := p == "R"
		switch {
		case running && !predRunning && i != cfg.Parent:
			if depUnfinished(i) {
				out = append(out, Mismatch{"C01", "started-before-dependencies-finished",
					fmt.Sprintf("%s: stage %d is running (status %s) although a dependency has not finished; model predicts %s", at, i, o, p)})
			} else {
				out = append(out, Mismatch{"C02", "ran-although-not-eligible",
					fmt.Sprintf("%s: stage %d is running (status %s); model predicts %s", at, i, o, p)})
			}
		case predRunning && !running && o == "W":
			out = append(out, Mismatch{"C04", "eligible-stage-not-started",
				fmt.Sprintf("%s: stage %d is eligible (model: running) but was not started while %v are in flight (stuck=%v)", at, i, infl, stuck)})
		case o != p:
			out = append(out, Mismatch{"C02", "status-differs-from-reference",
				fmt.Sprintf("%s: stage %d has status %s, model predicts %s", at, i, o, p)})
		}
	}
	if len(out) == 0 && !eqI(infl, predRun) {
		// statuses agree but the set inside Run differs
		for _, i := range predRun {
			if !contains(infl, i) {
				out = append(out, Mismatch{"C04", "eligible-stage-not-in-run",
					fmt.Sprintf("%s: stage %d has status Running but its task was not handed to the Runner (in flight %v)", at, i, infl)})
			}
		}
		for _, i := range infl {
			if !contains(predRun, i) {
				out = append(out, Mismatch{"C01", "in-run-without-being-eligible",
					fmt.Sprintf("%s: stage %d is inside Run but the model does not have it running", at, i)})
			}
		}
	}
	if len(out) == 0 && stuck {
		out = append(out, Mismatch{"C03", "no-quiescence",
			fmt.Sprintf("%s: the scheduler did not reach a stable point within %s", at, stepDeadline)})
	}
	return out
}

// Lockstep replays one model behaviour on the real scheduler.
func Lockstep(b Beh, rng *rand.Rand, pause time.Duration, patient ...bool) ([]Mismatch, error) {
	r, err := newRun(b.Config, rng, pause, false)
	if err != nil {
		return nil, err
	}
	defer r.close()
	r.holdTransient = true
	stepDeadline := stepDeadline
	if len(patient) > 0 && patient[0] {
		r.patient = true
		stepDeadline = 30 * time.Second
	}
	released := map[int]bool{}
	r.start()
	abort := func(ms []Mismatch) ([]Mismatch, error) {
		r.freeRun()
		select {
		case <-r.done:
			// every task has been let go and Schedule has returned by itself: a stage that is still
			// waiting or running now (and is not left waiting in the model) was abandoned by the loop
			for i, x := range r.statuses() {
				if (x == "W" && b.Final[i] != "W") || x == "R" {
					ms = append(ms, Mismatch{"C03", "stage-left-waiting-or-running",
						fmt.Sprintf("after the mismatch every task was released and Schedule returned, leaving stage %d %s (model: %s)", i+1, x, b.Final[i])})
					break
				}
			}
		case <-time.After(2 * time.Second):
			r.sched.Cancel()
			select {
			case <-r.done:
			case <-time.After(2 * time.Second):
			}
		}
		return ms, nil
	}
	st, infl, stuck := r.quiesce(released, stepDeadline)
	if ms := classify(b.Config, b.Init.St, b.Init.Run, st, infl, stuck, "initially"); len(ms) > 0 {
		return abort(ms)
	}
	for k, step := range b.Steps {
		at := fmt.Sprintf("after release %d (stage %d)", k+1, step.Rel)
		if !r.release(step.Rel, step.Failed) {
			return abort([]Mismatch{{"C04", "eligible-stage-not-in-run", at + ": stage to release is not in flight"}})
		}
		released[step.Rel] = true
		st, infl, stuck = r.quiesce(released, stepDeadline)
		if ms := classify(b.Config, step.St, step.Run, st, infl, stuck, at); len(ms) > 0 {
			if r.hasReturned() && k+1 < len(b.Steps) {
				// Schedule has returned although the model still has tasks to complete: stages are left
				// waiting or running (C03), whatever the status comparison says
				for i, x := range st {
					if x == "W" || x == "R" {
						ms = append(ms, Mismatch{"C03", "stage-left-waiting-or-running",
							fmt.Sprintf("%s: Schedule has returned while stage %d is %s (statuses %v, model %v)", at, i+1, x, st, step.St)})
						break
					}
				}
			}
			return abort(ms)
		}
	}
	// C03: the run returns
	select {
	case <-r.done:
	case <-time.After(stepDeadline):
		return abort([]Mismatch{{"C03", "schedule-does-not-return",
			fmt.Sprintf("Schedule did not return within %s after the last release; statuses %v", stepDeadline, r.statuses())}})
	}
	var ms []Mismatch
	fin := r.statuses()
	if !eqS(fin, b.Final) {
		ms = append(ms, Mismatch{"C02", "final-status-differs-from-reference", fmt.Sprintf("final statuses %v, model %v", fin, b.Final)})
	}
	if (r.retErr != nil) != b.Err {
		ms = append(ms, Mismatch{"C02", "reported-error-differs-from-reference", fmt.Sprintf("Schedule returned error=%v, model err=%v", r.retErr, b.Err)})
	}
	r.mu.Lock()
	for i := 1; i <= b.N; i++ {
		want := 0
		if i != b.Parent && (b.Final[i-1] == "D" || b.Final[i-1] == "E") {
			want = 1
		}
		if r.entered[i] != want {
			kind := "stage-not-run-exactly-once"
			if r.entered[i] > 1 {
				kind = "stage-run-twice"
			}
			ms = append(ms, Mismatch{"C03", kind, fmt.Sprintf("stage %d was handed to the Runner %d times, model %d", i, r.entered[i], want)})
		}
	}
	r.mu.Unlock()
	for i, s := range fin {
		if s == "R" || (s == "W" && b.Final[i] != "W") {
			ms = append(ms, Mismatch{"C03", "stage-left-waiting-or-running", fmt.Sprintf("stage %d is %s after Schedule returned", i+1, s)})
		}
	}
	return ms, nil
}

// stuck counts executions in which the real scheduler hung; it is shared by every driver of
// the engine so that a scheduler that never returns is reported after a handful of cases
// instead of being waited for thousands of times.
var stuck int32

// ReplayAll replays behaviours in parallel and reports mismatches.
func ReplayAll(behs []Beh, env *core.Env, rep *core.Report, pause time.Duration, workers int, label string, samples *core.Samples, distinct *core.Distinct) (int, int) {
	done := 0
	nontrivial := 0
	type res struct {
		ms  []Mismatch
		err error
		i   int
	}
	results := make([]res, len(behs))
	core.Parallel(len(behs), workers, func(i int) {
		if atomic.LoadInt32(&stuck) >= 6 {
			results[i] = res{nil, nil, -2} // circuit breaker: the scheduler keeps hanging; enough evidence
			return
		}
		rng := rand.New(rand.NewSource(env.Seed*1000003 + int64(i)))
		ms, err := Lockstep(behs[i], rng, pause)
		if containsProp(ms, "C03") {
			atomic.AddInt32(&stuck, 1)
		}
		if len(ms) > 0 && containsProp(ms, "C03", "C04") {
			// deadline-derived verdicts are re-tried once, alone (below)
			results[i] = res{ms, nil, -1}
			return
		}
		results[i] = res{ms, err, i}
	})
	// Deadline-derived mismatches: the first six are executed again, alone. One that does not
	// recur is dropped (the deadline, 4000 x the nominal latency, was missed for another reason).
	// If at least one recurs the others are reported as first observed; if none of the retried
	// ones recurs, all are dropped.
	retried, confirmed := 0, 0
	for i := range results {
		if results[i].i == -1 && (retried < 6 || (confirmed == 0 && retried < 20)) {
			retried++
			rng := rand.New(rand.NewSource(env.Seed*1000003 + int64(i)))
			ms, err := Lockstep(behs[i], rng, pause)
			if containsProp(ms, "C03", "C04") {
				confirmed++
				results[i] = res{ms, err, i}
			} else {
				// behaviour-dependent causes (Go map order) may not recur either: try once more
				rng2 := rand.New(rand.NewSource(env.Seed*7 + int64(i)))
				ms2, err2 := Lockstep(behs[i], rng2, pause)
				if containsProp(ms2, "C03", "C04") {
					confirmed++
					results[i] = res{ms2, err2, i}
				} else {
					results[i] = res{ms2, err2, i}
				}
			}
		}
	}
	for i := range results {
		if results[i].i == -1 {
			if confirmed > 0 {
				results[i].i = i
			} else {
				results[i] = res{nil, nil, -2}
			}
		}
	}
	// Every mismatch that is left is executed once more, ALONE and patiently (settle time 3 s, step
	// deadline 30 s): while many replays share the machine - or the machine is loaded - a scheduler
	// that is merely late can look wrong. Only what comes back then is reported (8 are re-executed,
	// more - up to 40 - while none has come back; if none comes back, nothing is reported).
	{
		reexec, back := 0, 0
		var pendingIdx []int
		for i := range results {
			if results[i].i >= 0 && results[i].err == nil && len(results[i].ms) > 0 {
				pendingIdx = append(pendingIdx, i)
			}
		}
		if os.Getenv("VERIF_DEBUG") != "" {
			fmt.Fprintf(os.Stderr, "DEBUG %s: %d behaviours with mismatches before the patient re-execution\n", label, len(pendingIdx))
			for _, i := range pendingIdx[:min(3, len(pendingIdx))] {
				fmt.Fprintf(os.Stderr, "DEBUG   %v\n", results[i].ms)
			}
		}
		for _, i := range pendingIdx {
			// (on a loaded machine the first ones may all be artefacts of the load: go on until one comes
			// back, up to 40)
			if (reexec >= 8 && back > 0) || reexec >= 40 {
				break
			}
			reexec++
			rng := rand.New(rand.NewSource(env.Seed*1000003 + int64(i)))
			ms, err := Lockstep(behs[i], rng, pause, true)
			if len(ms) == 0 && err == nil {
				rng2 := rand.New(rand.NewSource(env.Seed*7 + int64(i)))
				ms, err = Lockstep(behs[i], rng2, pause, true)
			}
			if len(ms) > 0 {
				back++
			}
			results[i] = res{ms, err, i}
		}
		if os.Getenv("VERIF_DEBUG") != "" && len(pendingIdx) > 0 {
			fmt.Fprintf(os.Stderr, "DEBUG %s: %d re-executed, %d came back\n", label, reexec, back)
		}
		if len(pendingIdx) > 0 && back == 0 {
			for _, i := range pendingIdx {
				results[i].ms = nil
			}
		}
	}
	for i, r := range results {
		b := behs[i]
		if r.i < 0 {
			continue
		}
		if r.err != nil {
			rep.Add(core.Finding{Prop: "C05", Key: "C05:graph-build-failed-in-scheduler-driver", What: r.err.Error(), Detail: b.Config})
			continue
		}
		done++
		if len(b.Steps) >= 2 {
			nontrivial++
		}
		distinct.Add(core.JSON(b.Config) + fmt.Sprint(relOrder(b)))
		if len(b.Steps) >= 2 && i%211 == 0 {
			samples.Add(map[string]interface{}{"kind": "lockstep:" + label, "config": b.Config, "releases": relOrder(b), "final": b.Final, "err": b.Err})
		}
		for _, m := range r.ms {
			rep.Add(core.Finding{Prop: m.Prop, Key: m.Prop + ":lockstep:" + m.Kind, What: m.What,
				Detail: map[string]interface{}{"behaviour": b, "source": label}})
		}
	}
	return done, nontrivial
}

func containsProp(ms []Mismatch, props ...string) bool {
	for _, m := range ms {
		for _, p := range props {
			if m.Prop == p {
				return true
			}
		}
	}
	return false
}

func relOrder(b Beh) []int {
	var o []int
	for _, s := range b.Steps {
		o = append(o, s.Rel)
	}
	return o
}

func min(a, b int) int {
	if a < b {
		return a
	}
	return b
}
