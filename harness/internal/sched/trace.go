package sched

import (
	"bytes"
	"encoding/json"
	"fmt"
	"math/rand"
	"regexp"
	"sort"
	"strconv"
	"strings"
	"time"

	"verif/harness/internal/core"
)

// RandomConfig draws a configuration with n stages in canonical numbering.
func RandomConfig(rng *rand.Rand, n int, nested, cerr bool) Config {
	c := Config{N: n, Deps: make([][]int, n), Cls: make([]string, n), Inner: []int{}}
	inner := map[int]bool{}
	if nested && n >= 3 {
		c.Parent = 1 + rng.Intn(n)
		for i := 1; i <= n; i++ {
			if i != c.Parent && rng.Intn(3) == 0 {
				inner[i] = true
			}
		}
		if len(inner) == 0 {
			k := 1 + rng.Intn(n)
			for k == c.Parent {
				k = 1 + rng.Intn(n)
			}
			inner[k] = true
		}
		for i := range inner {
			c.Inner = append(c.Inner, i)
		}
		sort.Ints(c.Inner)
	}
	dens := []float64{0.15, 0.3, 0.5}[rng.Intn(3)]
	for s := 1; s <= n; s++ {
		c.Deps[s-1] = []int{}
		for d := 1; d < s; d++ {
			if inner[d] == inner[s] && rng.Float64() < dens {
				c.Deps[s-1] = append(c.Deps[s-1], d)
			}
		}
		x := rng.Intn(100)
		switch {
		case x < 55:
			c.Cls[s-1] = "OK"
		case x < 70:
			c.Cls[s-1] = "FAIL"
		case x < 82:
			c.Cls[s-1] = "FAILA"
		case x < 94 || !cerr:
			c.Cls[s-1] = "CFALSE"
		default:
			c.Cls[s-1] = "CERR"
		}
		if s == c.Parent && (c.Cls[s-1] == "FAIL" || c.Cls[s-1] == "CERR") {
			c.Cls[s-1] = "OK"
		}
	}
	return c
}

// RecordRandom runs the real scheduler on cfg with random release timing (and optionally a
// caller Cancel) and returns the recorded trace. ok=false if Schedule did not return.
func RecordRandom(cfg Config, rng *rand.Rand, withCancel bool) (log []Event, ok bool, err error) {
	pause := []time.Duration{200 * time.Microsecond, time.Millisecond, 3 * time.Millisecond}[rng.Intn(3)]
	r, err := newRun(cfg, rng, pause, true)
	if err != nil {
		return nil, false, err
	}
	defer r.close()
	r.holdTransient = rng.Intn(2) == 0
	r.log = append(r.log, Event{"e": "cfg", "n": cfg.N, "deps": cfg.Deps, "cls": cfg.Cls, "parent": cfg.Parent, "inner": cfg.Inner})
	r.start()
	cancelAt := -1
	if withCancel {
		cancelAt = rng.Intn(cfg.N + 1)
	}
	releases := 0
	limit := time.Now().Add(20 * time.Second)
	for !r.hasReturned() {
		if time.Now().After(limit) {
			r.freeRun()
			select {
			case <-r.done:
			case <-time.After(5 * time.Second):
			}
			return r.log, false, nil
		}
		if cancelAt == releases {
			cancelAt = -1
			r.mu.Lock()
			r.log = append(r.log, Event{"e": "cancel"})
			r.mu.Unlock()
			// in a goroutine: a Cancel that waits for the running stages must not stop the driver
			// from releasing them
			go r.sched.Cancel()
		}
		infl := r.inflightSet()
		if len(infl) == 0 {
			time.Sleep(50 * time.Microsecond)
			continue
		}
		// sometimes wait for more stages to arrive, sometimes release at once
		if rng.Intn(3) == 0 {
			time.Sleep(time.Duration(rng.Intn(1500)) * time.Microsecond)
			infl = r.inflightSet()
		}
		id := infl[rng.Intn(len(infl))]
		failed := cfg.Cls[id-1] == "FAIL" || cfg.Cls[id-1] == "FAILA"
		if r.release(id, failed) {
			releases++
			// wait until the Run call has actually returned so that it is not picked twice
			for k := 0; k < 20000; k++ {
				r.mu.Lock()
				_, still := r.inflight[id]
				r.mu.Unlock()
				if !still {
					break
				}
				time.Sleep(20 * time.Microsecond)
			}
		}
	}
	<-r.done
	r.mu.Lock()
	r.log = append(r.log, Event{"e": "done", "err": r.retErr != nil, "final": r.statuses()})
	out := r.log
	r.mu.Unlock()
	return out, true, nil
}

func traceCfg(n int) []byte {
	return []byte(fmt.Sprintf(`CONSTANTS
  N = %d
  Classes = {"OK","FAIL","FAILA","CFALSE","CERR"}
  Nested = TRUE
  CallerCancels = TRUE
  Mode = "normal"
INIT TInit
NEXT TNext
CONSTRAINT HW
INVARIANTS FinalOK NoneLeft AtMostOnce DepsFinished NothingRunsAtReturn EnteredDepsFinished
POSTCONDITION PostCond
CHECK_DEADLOCK FALSE
`, n))
}

var reL = regexp.MustCompile(`(?m)^/\\ l = (\d+)`)

// Rejection describes why TLC did not accept a log.
type Rejection struct {
	Exec      int    // index of the rejected execution in the batch
	Line      int    // 1-based line of the whole log at which matching stopped
	Invariant string // violated invariant, or "" when no action of the spec matches the line
	Event     Event
	Pos       int // index of the event inside its execution
}

// ValidateTraces checks a batch of executions (all with the same N) against SchedTrace.tla.
// Rejected executions are removed and the remainder re-checked, so that every execution is examined.
func ValidateTraces(env *core.Env, n int, execs [][]Event) (accepted int, rejections []Rejection, states, trans int64) {
	idx := make([]int, len(execs))
	for i := range idx {
		idx[i] = i
	}
	for round := 0; round < 12 && len(idx) > 0; round++ {
		var buf bytes.Buffer
		var lineExec []int
		var lineEv []Event
		var linePos []int
		for _, i := range idx {
			for k, ev := range execs[i] {
				linePos = append(linePos, k)
				b, _ := json.Marshal(ev)
				buf.Write(b)
				buf.WriteByte('\n')
				lineExec = append(lineExec, i)
				lineEv = append(lineEv, ev)
			}
		}
		res := core.RunTLC(env, core.TLCOpts{Module: "SchedTrace", Config: "SchedTrace.cfg", Workers: 1,
			Timeout: 10 * time.Minute, Files: map[string][]byte{"trace.ndjson": buf.Bytes(), "SchedTrace.cfg": traceCfg(n)}})
		states += res.Distinct
		trans += res.Generated
		if res.Violated == "" {
			accepted += len(idx)
			return
		}
		line := 0
		inv := ""
		if res.Violated == "postcondition" {
			for _, p := range res.Tagged("MATCHED") {
				var m struct{ Upto, Of int }
				if json.Unmarshal([]byte(p), &m) == nil {
					line = m.Upto + 1
				}
			}
		} else {
			inv = res.Violated
			// the counterexample's last state carries l = index of the next unread line
			all := reL.FindAllStringSubmatch(res.Out, -1)
			if len(all) > 0 {
				line, _ = strconv.Atoi(all[len(all)-1][1])
				line-- // the line whose consumption led to the bad state
			}
		}
		if line < 1 || line > len(lineExec) {
			tail := res.Out
			if len(tail) > 3000 {
				tail = tail[len(tail)-3000:]
			}
			core.Broken("trace validation: cannot locate the rejected line (violated=%s line=%d)\n%s", res.Violated, line, tail)
		}
		bad := lineExec[line-1]
		rejections = append(rejections, Rejection{Exec: bad, Line: line, Invariant: inv, Event: lineEv[line-1], Pos: linePos[line-1]})
		var keep []int
		for _, i := range idx {
			if i != bad {
				keep = append(keep, i)
			}
		}
		// executions before the bad one were accepted in this round; they are re-checked with the rest
		idx = keep
	}
	return
}

// classifyRejection maps a rejected trace line to the property whose statement it contradicts.
func classifyRejection(rj Rejection, exec []Event) (prop, kind string) {
	switch rj.Invariant {
	case "DepsFinished", "EnteredDepsFinished":
		return "C01", "trace:" + rj.Invariant
	case "FinalOK":
		return "C02", "trace:FinalOK"
	case "AtMostOnce", "NoneLeft", "NothingRunsAtReturn":
		return "C03", "trace:" + rj.Invariant
	}
	e, _ := rj.Event["e"].(string)
	launch := e == "enter"
	if v, _ := rj.Event["v"].(string); e == "st" && v == "R" {
		launch = true
	}
	if launch {
		// why was the launch not allowed: unfinished dependency (C01), already launched (C03), or not eligible (C02)
		cfg := exec[0]
		s := toInt(rj.Event["s"])
		st := map[int]string{}
		launched := 0
		for _, ev := range exec[1:rj.Pos] {
			if ev["e"] == "st" {
				st[toInt(ev["s"])] = ev["v"].(string)
				if toInt(ev["s"]) == s && ev["v"] == "R" && e == "st" {
					launched++
				}
			}
			if ev["e"] == "enter" && toInt(ev["s"]) == s && e == "enter" {
				launched++
			}
		}
		if launched > 0 {
			return "C03", "trace:stage-launched-twice"
		}
		if deps, ok := cfg["deps"].([][]int); ok && s >= 1 && s <= len(deps) {
			for _, d := range deps[s-1] {
				if v := st[d]; v == "" || v == "R" || v == "C" {
					return "C01", "trace:launch-with-unfinished-dependency"
				}
			}
		}
		return "C02", "trace:launch-not-allowed-by-spec"
	}
	switch e {
	case "st":
		return "C02", "trace:status-store-not-allowed-by-spec"
	case "done":
		return "C02", "trace:return-not-allowed-by-spec"
	}
	return "C03", "trace:event-not-allowed-by-spec:" + e
}

func toInt(v interface{}) int {
	switch x := v.(type) {
	case int:
		return x
	case float64:
		return int(x)
	}
	return 0
}

func evString(evs []Event) string {
	var sb strings.Builder
	for _, e := range evs {
		b, _ := json.Marshal(e)
		sb.Write(b)
		sb.WriteByte(' ')
	}
	return sb.String()
}
