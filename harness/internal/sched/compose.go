package sched

import (
	"bufio"
	"bytes"
	"encoding/json"
	"fmt"
	"io/ioutil"
	"math/rand"
	"os"
	"path/filepath"
	"strconv"
	"strings"
	"sync"
	"time"

	"verif/harness/internal/core"
)

// Whole-binary trace validation against the composed specification Taskctl.tla: random
// pipelines are run through the taskctl binary (built with -tags verif) with VERIF_TRACE set;
// the unified event log of the process is replayed through TaskctlTrace.tla.

type cmpCfg struct {
	N      int      `json:"n"`
	Deps   [][]int  `json:"deps"`
	Cls    []string `json:"cls"`
	NCmd   []int    `json:"ncmd"`
	FailAt []int    `json:"failAt"`
}

func randCompose(rng *rand.Rand, n int) cmpCfg {
	c := cmpCfg{N: n, Deps: make([][]int, n), Cls: make([]string, n), NCmd: make([]int, n), FailAt: make([]int, n)}
	for s := 1; s <= n; s++ {
		c.Deps[s-1] = []int{}
		for d := 1; d < s; d++ {
			if rng.Intn(3) == 0 {
				c.Deps[s-1] = append(c.Deps[s-1], d)
			}
		}
		c.Cls[s-1] = []string{"OK", "OK", "OK", "FAIL", "FAILA", "CFALSE"}[rng.Intn(6)]
		c.NCmd[s-1] = 1 + rng.Intn(3)
		c.FailAt[s-1] = 1
		if c.Cls[s-1] == "FAIL" || c.Cls[s-1] == "FAILA" {
			c.FailAt[s-1] = 1 + rng.Intn(c.NCmd[s-1])
		}
	}
	return c
}

func composeYAML(c cmpCfg, rng *rand.Rand) string {
	var b strings.Builder
	b.WriteString("tasks:\n")
	for s := 1; s <= c.N; s++ {
		fmt.Fprintf(&b, "  s%d:\n    command:\n", s)
		for k := 1; k <= c.NCmd[s-1]; k++ {
			if (c.Cls[s-1] == "FAIL" || c.Cls[s-1] == "FAILA") && k == c.FailAt[s-1] {
				b.WriteString("      - exit 3\n")
			} else {
				fmt.Fprintf(&b, "      - sleep 0.0%d\n", rng.Intn(4))
			}
		}
	}
	b.WriteString("pipelines:\n  p:\n")
	order := rng.Perm(c.N)
	for _, i := range order {
		s := i + 1
		fmt.Fprintf(&b, "    - task: s%d\n", s)
		if len(c.Deps[s-1]) > 0 {
			var ds []string
			for _, d := range c.Deps[s-1] {
				ds = append(ds, fmt.Sprintf("s%d", d))
			}
			fmt.Fprintf(&b, "      depends_on: [%s]\n", strings.Join(ds, ", "))
		}
		switch c.Cls[s-1] {
		case "FAILA":
			b.WriteString("      allow_failure: true\n")
		case "CFALSE":
			b.WriteString("      condition: \"false\"\n")
		}
	}
	return b.String()
}

func composeCfgFile(n int) []byte {
	return []byte(fmt.Sprintf("CONSTANTS\n  N = %d\n  MaxCmd = 3\nINIT TInit\nNEXT TNext\nCONSTRAINT HW\nINVARIANTS CommandsAfterDependencies StopsAtFailure FinalOK RunOnlyWhileStageRunning\nPOSTCONDITION PostCond\nCHECK_DEADLOCK FALSE\n", n))
}

// ComposeCheck runs k random pipelines through the binary and validates their traces.
func ComposeCheck(env *core.Env, rep *core.Report, k int) map[string]interface{} {
	mc := core.MustHold(env, core.TLCOpts{Module: "Taskctl", Config: "Taskctl_n2.cfg", Workers: 2})
	info := map[string]interface{}{"Taskctl_n2": map[string]interface{}{"distinct": mc.Distinct, "generated": mc.Generated, "result": "CommandsAfterDependencies, StopsAtFailure, FinalOK, RunOnlyWhileStageRunning, Terminates hold"}}
	if env.Thorough() {
		mc3 := core.MustHold(env, core.TLCOpts{Module: "Taskctl", Config: "Taskctl_n3.cfg", Workers: 8, Timeout: 20 * time.Minute})
		info["Taskctl_n3"] = map[string]interface{}{"distinct": mc3.Distinct, "generated": mc3.Generated}
	}
	home := env.Sub("home")
	type exec struct {
		cfg cmpCfg
		evs []Event
		bad string
	}
	out := make([]exec, k)
	letter := map[int]string{0: "W", 1: "R", 2: "S", 3: "D", 4: "E", 5: "C"}
	core.Parallel(k, 12, func(i int) {
		rng := env.Rand(fmt.Sprintf("compose-%d", i))
		c := randCompose(rng, 2+rng.Intn(4))
		d := env.Sub("cmp")
		td := env.Sub("cmptrace")
		_ = ioutil.WriteFile(filepath.Join(d, "tasks.yaml"), []byte(composeYAML(c, rng)), 0o644)
		res := core.RunBin(d, append(core.CleanEnv(home), "VERIF_TRACE="+td), 60*time.Second, "", env.Taskctl, "--raw", "p")
		out[i].cfg = c
		if res.TimedOut || res.Crashed() {
			out[i].bad = "taskctl crashed or hung: " + tail(res.Stderr, 300)
			return
		}
		files, _ := filepath.Glob(filepath.Join(td, "trace-*.ndjson"))
		if len(files) != 1 {
			out[i].bad = fmt.Sprintf("driver: %d trace files", len(files))
			return
		}
		fh, _ := os.Open(files[0])
		defer fh.Close()
		sc := bufio.NewScanner(fh)
		sc.Buffer(make([]byte, 1<<20), 1<<24)
		id := func(name interface{}) int {
			s, _ := name.(string)
			n, _ := strconv.Atoi(strings.TrimPrefix(s, "s"))
			return n
		}
		status := make([]string, c.N)
		for j := range status {
			status[j] = "W"
		}
		evs := []Event{{"e": "cfg", "n": c.N, "deps": c.Deps, "cls": c.Cls, "ncmd": c.NCmd, "failAt": c.FailAt}}
		var last map[string]interface{}
		for sc.Scan() {
			var e map[string]interface{}
			if json.Unmarshal(sc.Bytes(), &e) != nil {
				continue
			}
			switch e["e"] {
			case "st":
				v := letter[toInt(e["v"])]
				status[id(e["s"])-1] = v
				evs = append(evs, Event{"e": "st", "s": id(e["s"]), "v": v})
			case "enter":
				evs = append(evs, Event{"e": "enter", "s": id(e["s"])})
			case "ret":
				evs = append(evs, Event{"e": "ret", "s": id(e["s"]), "failed": e["failed"]})
			case "RunEnter", "RunExit":
				evs = append(evs, Event{"e": e["e"], "s": id(e["t"])})
			case "CmdStart":
				if id(e["t"]) > 0 {
					evs = append(evs, Event{"e": "CmdStart", "s": id(e["t"])})
				}
			case "CmdEnd":
				if id(e["t"]) > 0 {
					evs = append(evs, Event{"e": "CmdEnd", "s": id(e["t"]), "err": e["err"]})
				}
			case "sched-exit":
				last = e
			}
		}
		if last == nil {
			out[i].bad = "Schedule did not return (no sched-exit event); exit status " + fmt.Sprint(res.Exit)
			return
		}
		evs = append(evs, Event{"e": "done", "err": last["err"], "final": status})
		out[i].evs = evs
	})
	byN := map[int][]int{}
	for i, o := range out {
		if o.bad != "" {
			if strings.HasPrefix(o.bad, "driver:") {
				continue
			}
			rep.Add(core.Finding{Prop: "C03", Key: "C03:binary:pipeline-run-does-not-complete", What: o.bad, Detail: o.cfg})
			continue
		}
		byN[o.cfg.N] = append(byN[o.cfg.N], i)
	}
	accepted, total := 0, 0
	var mu sync.Mutex
	var wg sync.WaitGroup
	for n, idx := range byN {
		n, idx := n, idx
		total += len(idx)
		wg.Add(1)
		go func() {
			defer wg.Done()
			cur := idx
			for round := 0; round < 6 && len(cur) > 0; round++ {
				var buf bytes.Buffer
				var lineExec []int
				var lineEv []Event
				for _, i := range cur {
					for _, ev := range out[i].evs {
						b, _ := json.Marshal(ev)
						buf.Write(b)
						buf.WriteByte('\n')
						lineExec = append(lineExec, i)
						lineEv = append(lineEv, ev)
					}
				}
				res := core.RunTLC(env, core.TLCOpts{Module: "TaskctlTrace", Config: "TaskctlTrace.cfg", Workers: 1, Files: map[string][]byte{"trace.ndjson": buf.Bytes(), "TaskctlTrace.cfg": composeCfgFile(n)}})
				if res.Violated == "" {
					mu.Lock()
					accepted += len(cur)
					mu.Unlock()
					return
				}
				line := 0
				if res.Violated == "postcondition" {
					for _, p := range res.Tagged("MATCHED") {
						var m struct{ Upto, Of int }
						if json.Unmarshal([]byte(p), &m) == nil {
							line = m.Upto + 1
						}
					}
				} else if all := reL.FindAllStringSubmatch(res.Out, -1); len(all) > 0 {
					line, _ = strconv.Atoi(all[len(all)-1][1])
					line--
				}
				if line < 1 || line > len(lineExec) {
					core.Broken("TaskctlTrace: cannot locate the rejected line (%s)", res.Violated)
				}
				bad := lineExec[line-1]
				ev := lineEv[line-1]
				prop := "C02"
				switch ev["e"] {
				case "CmdStart", "RunEnter", "enter":
					prop = "C01"
				case "CmdEnd", "RunExit":
					prop = "C06"
				}
				if v, _ := ev["v"].(string); ev["e"] == "st" && v == "R" {
					prop = "C01"
				}
				switch res.Violated {
				case "CommandsAfterDependencies":
					prop = "C01"
				case "StopsAtFailure":
					prop = "C06"
				case "FinalOK":
					prop = "C02"
				}
				for _, p := range []string{prop, "C03"} {
					if p == "C03" && ev["e"] != "done" {
						continue
					}
					rep.Add(core.Finding{Prop: p, Key: p + ":binary:trace-not-a-behaviour-of-Taskctl.tla",
						What:   fmt.Sprintf("the event log of `taskctl p` is rejected by TaskctlTrace.tla at %s (violated: %q)", core.JSON(ev), res.Violated),
						Detail: map[string]interface{}{"config": out[bad].cfg, "trace": out[bad].evs}})
				}
				var keep []int
				for _, i := range cur {
					if i != bad {
						keep = append(keep, i)
					}
				}
				cur = keep
			}
		}()
	}
	wg.Wait()
	info["binary_executions"] = total
	info["accepted"] = accepted
	if total > 0 {
		for _, o := range out {
			if o.evs != nil {
				info["sample"] = evString(o.evs)
				break
			}
		}
	}
	return info
}

func tail(s string, n int) string {
	if len(s) > n {
		return s[len(s)-n:]
	}
	return s
}
