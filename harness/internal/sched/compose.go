package sched

import (
	"bufio"
	"bytes"
	"encoding/json"
	"fmt"
	"io/ioutil"
	"math/rand"
	"os"
	"path/filepath"
	"regexp"
	"strconv"
	"strings"
	"sync"
	"time"

	"verif/harness/internal/core"
)

// Whole-binary trace validation against the composed specification Taskctl.tla: random
// pipelines are run through the taskctl binary (built with -tags verif) with VERIF_TRACE set;
// the unified event log of the process is replayed through TaskctlTrace.tla.

type cmpCfg struct {
	N       int      `json:"n"`
	Deps    [][]int  `json:"deps"`
	Cls     []string `json:"cls"`
	NCmd    []int    `json:"ncmd"`
	FailAt  []int    `json:"failAt"`
	NVar    []int    `json:"nvar"`
	Ctx     []int    `json:"ctx"` // 0 = no context, else 1..2
	HB      []string `json:"hb"`  // task before hook: none | ok | fail
	HA      []string `json:"ha"`  // task after hook
	UpFails []bool   `json:"upFails"`
	Gr      []int    `json:"gr"`     // 0: stage of the pipeline that is run; 1: stage of the included pipeline
	Inc     []bool   `json:"inc"`    // the stage runs the included pipeline instead of a task
	TAllow  []bool   `json:"tallow"` // the task itself allows failure
	TOFail  []bool   `json:"-"`      // the failing command fails by exceeding the task's timeout (a different kind of error)
}

const cmpNCtx = 2

func randCompose(rng *rand.Rand, n int) cmpCfg {
	c := cmpCfg{N: n, Deps: make([][]int, n), Cls: make([]string, n), NCmd: make([]int, n), FailAt: make([]int, n),
		NVar: make([]int, n), Ctx: make([]int, n), HB: make([]string, n), HA: make([]string, n), UpFails: make([]bool, cmpNCtx)}
	c.Gr, c.Inc, c.TAllow = make([]int, n), make([]bool, n), make([]bool, n)
	c.TOFail = make([]bool, n)
	// a third of the pipelines (of 3 stages or more) include another pipeline, once or twice
	if n >= 3 && rng.Intn(3) == 0 {
		inner := 1 + rng.Intn(2)
		perm := rng.Perm(n)
		for _, k := range perm[:inner] {
			c.Gr[k] = 1
		}
		incs := 1 + rng.Intn(2)
		for _, k := range perm[inner:] {
			if incs > 0 {
				c.Inc[k] = true
				incs--
			}
		}
	}
	rich := rng.Intn(3) > 0 // two thirds of the pipelines use hooks, variations and contexts
	for k := range c.UpFails {
		c.UpFails[k] = rich && rng.Intn(3) == 0
	}
	for s := 1; s <= n; s++ {
		c.Deps[s-1] = []int{}
		for d := 1; d < s; d++ {
			if rng.Intn(3) == 0 && c.Gr[d-1] == c.Gr[s-1] {
				c.Deps[s-1] = append(c.Deps[s-1], d)
			}
		}
		c.Cls[s-1] = []string{"OK", "OK", "OK", "FAIL", "FAILA", "CFALSE"}[rng.Intn(6)]
		if c.Inc[s-1] && c.Cls[s-1] == "FAIL" {
			c.Cls[s-1] = "OK" // an including stage fails iff the included pipeline does
		}
		c.NCmd[s-1] = 1 + rng.Intn(3)
		c.FailAt[s-1] = 1
		if c.Cls[s-1] == "FAIL" || c.Cls[s-1] == "FAILA" {
			c.FailAt[s-1] = 1 + rng.Intn(c.NCmd[s-1])
			if rng.Intn(2) == 0 {
				// (often: the failing command is neither the first nor the last of the task's jobs)
				c.NCmd[s-1], c.FailAt[s-1] = 3, 2
			}
		}
		c.NVar[s-1], c.HB[s-1], c.HA[s-1] = 1, "none", "none"
		if rich && !c.Inc[s-1] {
			c.TAllow[s-1] = rng.Intn(4) == 0
			c.NVar[s-1] = 1 + rng.Intn(2)
			c.Ctx[s-1] = rng.Intn(cmpNCtx + 1)
			c.HB[s-1] = []string{"none", "none", "ok", "ok", "fail"}[rng.Intn(5)]
			c.HA[s-1] = []string{"none", "none", "ok", "ok", "fail"}[rng.Intn(5)]
		}
		// every third failing task (that does not allow failure itself) fails by timing out rather
		// than by its exit status: to the scheduler a failure is a failure, whatever its kind
		c.TOFail[s-1] = !c.TAllow[s-1] && rng.Intn(3) == 0
	}
	// a quarter of the pipelines without an included pipeline have one stage whose condition cannot be
	// evaluated: the loop stores Error for it and cancels the run (no task-level allow_failure there:
	// whether an interruption is "allowed" is C12's business, not modelled here)
	nested := false
	for _, g := range c.Gr {
		nested = nested || g == 1
	}
	if !nested && rng.Intn(4) == 0 {
		k := rng.Intn(n)
		c.Cls[k] = "CERR"
		c.FailAt[k] = 1
		for j := range c.TAllow {
			c.TAllow[j] = false
		}
	}
	// two including stages: half of the time the second one depends on the first, the first allows
	// failure and a stage of the included pipeline fails - the second inclusion finds the pipeline
	// already run (and failed)
	var incl []int
	for s := 1; s <= n; s++ {
		if c.Inc[s-1] {
			incl = append(incl, s)
		}
	}
	if len(incl) == 2 && rng.Intn(2) == 0 {
		first, second := incl[0], incl[1]
		c.Cls[first-1], c.Cls[second-1] = "FAILA", "OK"
		has := false
		for _, d := range c.Deps[second-1] {
			has = has || d == first
		}
		if !has {
			c.Deps[second-1] = append(c.Deps[second-1], first)
		}
		for s := 1; s <= n; s++ {
			if c.Gr[s-1] == 1 {
				c.Cls[s-1] = "FAIL"
				c.FailAt[s-1] = 1 + rng.Intn(c.NCmd[s-1])
				break
			}
		}
	}
	return c
}

// every job names itself in a trailing comment: "<command> # <owner>-<role>"
func composeYAML(c cmpCfg, rng *rand.Rand, dir string) string {
	var b strings.Builder
	hook := func(kind, tag string) string {
		if kind == "fail" {
			return fmt.Sprintf("exit 1 # %s", tag)
		}
		if strings.HasSuffix(tag, "-ta") && rng.Intn(2) == 0 {
			// an after hook that outlasts a pass of the scheduling loop: the stage is not finished before it is
			return fmt.Sprintf("sleep 0.2 # %s", tag)
		}
		return fmt.Sprintf("sleep 0.0%d # %s", rng.Intn(3), tag)
	}
	used := false
	for _, x := range c.Ctx {
		used = used || x != 0
	}
	if used {
		b.WriteString("contexts:\n")
		for k := 1; k <= cmpNCtx; k++ {
			up := "ok"
			if c.UpFails[k-1] {
				up = "fail"
			}
			fmt.Fprintf(&b, "  c%d:\n    up: [\"%s\"]\n    down: [\"%s\"]\n    before: [\"%s\"]\n    after: [\"%s\"]\n", k,
				hook(up, fmt.Sprintf("c%d-up", k)), hook("ok", fmt.Sprintf("c%d-down", k)), hook("ok", fmt.Sprintf("c%d-cb", k)), hook("ok", fmt.Sprintf("c%d-ca", k)))
		}
	}
	b.WriteString("tasks:\n")
	for s := 1; s <= c.N; s++ {
		if c.Inc[s-1] {
			continue
		}
		fmt.Fprintf(&b, "  s%d:\n", s)
		if c.Ctx[s-1] != 0 {
			fmt.Fprintf(&b, "    context: c%d\n", c.Ctx[s-1])
		}
		if c.TAllow[s-1] {
			b.WriteString("    allow_failure: true\n")
		}
		toFail := c.TOFail[s-1] && (c.Cls[s-1] == "FAIL" || c.Cls[s-1] == "FAILA")
		if toFail {
			b.WriteString("    timeout: 4s\n")
		}
		if (s+c.N)%2 == 0 {
			// a task-level condition that holds (evaluated by the runner before anything of the task runs)
			b.WriteString("    condition: \"exit 0\"\n")
		}
		if c.HB[s-1] != "none" {
			fmt.Fprintf(&b, "    before: [\"%s\"]\n", hook(c.HB[s-1], fmt.Sprintf("s%d-tb", s)))
		}
		if c.HA[s-1] != "none" {
			fmt.Fprintf(&b, "    after: [\"%s\"]\n", hook(c.HA[s-1], fmt.Sprintf("s%d-ta", s)))
		}
		if c.NVar[s-1] == 2 {
			b.WriteString("    variations:\n      - {VV: a}\n      - {VV: b}\n")
		}
		b.WriteString("    command:\n")
		for k := 1; k <= c.NCmd[s-1]; k++ {
			if (c.Cls[s-1] == "FAIL" || c.Cls[s-1] == "FAILA") && k == c.FailAt[s-1] {
				if toFail {
					fmt.Fprintf(&b, "      - \"sleep 20 # s%d-cmd\"\n", s)
				} else {
					fmt.Fprintf(&b, "      - \"exit 3 # s%d-cmd\"\n", s)
				}
			} else {
				fmt.Fprintf(&b, "      - \"sleep 0.0%d # s%d-cmd\"\n", rng.Intn(4), s)
			}
		}
	}
	b.WriteString("pipelines:\n")
	order := rng.Perm(c.N)
	for _, graph := range []int{1, 0} {
		any := false
		for _, g := range c.Gr {
			any = any || g == graph
		}
		if !any {
			continue
		}
		fmt.Fprintf(&b, "  %s:\n", map[int]string{0: "p", 1: "q"}[graph])
		for _, i := range order {
			s := i + 1
			if c.Gr[i] != graph {
				continue
			}
			composeStage(&b, c, s, dir)
		}
	}
	return b.String()
}

func composeStage(b *strings.Builder, c cmpCfg, s int, dir string) {
	if c.Inc[s-1] {
		fmt.Fprintf(b, "    - name: s%d\n      pipeline: q\n", s)
	} else {
		fmt.Fprintf(b, "    - task: s%d\n", s)
	}
	if len(c.Deps[s-1]) > 0 {
		var ds []string
		for _, d := range c.Deps[s-1] {
			ds = append(ds, fmt.Sprintf("s%d", d))
		}
		fmt.Fprintf(b, "      depends_on: [%s]\n", strings.Join(ds, ", "))
	}
	switch c.Cls[s-1] {
	case "FAILA":
		b.WriteString("      allow_failure: true\n")
	case "CFALSE":
		if s%2 == 0 {
			// (a condition is the path of a program; the path may contain blanks)
			fmt.Fprintf(b, "      condition: %q\n", filepath.Join(dir, "my checks", "no.sh"))
		} else {
			b.WriteString("      condition: \"false\"\n")
		}
	case "CERR":
		b.WriteString("      condition: \"/nonexistent/verif-no-such-condition\"\n")
	}
	// some stages have a condition that holds and some a (templated) directory of their own: neither
	// changes what the model says, and the condition is evaluated where taskctl runs
	if c.Cls[s-1] != "CFALSE" && c.Cls[s-1] != "CERR" && (s+len(c.Deps[s-1]))%2 == 0 {
		if s%2 == 1 {
			fmt.Fprintf(b, "      condition: %q\n", filepath.Join(dir, "my checks", "yes.sh"))
		} else {
			b.WriteString("      condition: \"true\"\n")
		}
	}
	if !c.Inc[s-1] && (s+c.N)%3 == 0 {
		b.WriteString("      dir: \"{{.Root}}\"\n")
	}
}

func composeCfgFile(n int) []byte {
	return []byte(fmt.Sprintf("CONSTANTS\n  N = %d\n  MaxCmd = 3\n  MaxVar = 2\n  NCtx = %d\n  Nesting = TRUE\n  TaskAllow = TRUE\n  AtomicLaunch = TRUE\n  CondErr = TRUE\n  ErrFirst = TRUE\n  HookKinds = {\"none\", \"ok\", \"fail\"}\nINIT TInit\nNEXT TNext\nCONSTRAINT HW\nINVARIANTS CommandsAfterDependencies StopsAtFailure FinalOK CancelledFinal QuietAfterCancel RunOnlyWhileStageRunning UpBeforeUse DownAfterAll OneUpAtATime NothingRunsAtReturn NoDoubleLaunch\nPOSTCONDITION PostCond\nCHECK_DEADLOCK FALSE\n", n, cmpNCtx))
}

var reANSI = regexp.MustCompile("\x1b\\[[0-9;]*m")
var reSummary = regexp.MustCompile(`^- Stage (s\d+) (.*)$`)
var reJobTag = regexp.MustCompile(`# ([sc])(\d+)-(up|down|cb|ca|tb|ta|cmd)\s*$`)

// ComposeCheck model-checks Taskctl.tla on the given configurations (thorough-only ones after a
// '+'), runs k random pipelines through the binary and validates their traces.
func ComposeCheck(env *core.Env, rep *core.Report, k int, models ...string) map[string]interface{} {
	info := map[string]interface{}{}
	for _, m := range models {
		if strings.HasPrefix(m, "+") {
			if !env.Thorough() {
				continue
			}
			m = m[1:]
		}
		w, to := 4, 10*time.Minute
		if strings.HasSuffix(m, "3") {
			w, to = 8, 30*time.Minute
		}
		if strings.HasSuffix(m, "_killed") || strings.HasSuffix(m, "_refused") {
			mc := core.MustFail(env, core.TLCOpts{Module: "Taskctl", Config: "Taskctl_" + m + ".cfg", Workers: w, Timeout: to})
			info["Taskctl_"+m] = map[string]interface{}{"distinct": mc.Distinct, "generated": mc.Generated, "result": "reachability control of the cancellation part (a Cancel call returns with interrupted work behind it / a run is refused): " + mc.Violated + " violated as required"}
			continue
		}
		if strings.HasSuffix(m, "_errlate") {
			mc := core.MustFail(env, core.TLCOpts{Module: "Taskctl", Config: "Taskctl_" + m + ".cfg", Workers: w, Timeout: to})
			info["Taskctl_"+m] = map[string]interface{}{"distinct": mc.Distinct, "generated": mc.Generated, "result": "negative control (a failing stage stores its Error status, then records the graph's error: a second loop over the same included pipeline returns in between): " + mc.Violated + " violated"}
			continue
		}
		if strings.HasSuffix(m, "_pinned") {
			mc := core.MustFail(env, core.TLCOpts{Module: "Taskctl", Config: "Taskctl_" + m + ".cfg", Workers: w, Timeout: to})
			info["Taskctl_"+m] = map[string]interface{}{"distinct": mc.Distinct, "generated": mc.Generated, "result": "negative control (the status of a stage is read, then written: two nested loops over one included pipeline): " + mc.Violated + " violated"}
			continue
		}
		mc := core.MustHold(env, core.TLCOpts{Module: "Taskctl", Config: "Taskctl_" + m + ".cfg", Workers: w, Timeout: to})
		info["Taskctl_"+m] = map[string]interface{}{"distinct": mc.Distinct, "generated": mc.Generated, "result": "CommandsAfterDependencies, StopsAtFailure, UpBeforeUse, DownAfterAll, OneUpAtATime, NothingRunsAtReturn, FinalOK, RunOnlyWhileStageRunning, Terminates hold"}
	}
	home := env.Sub("home")
	type exec struct {
		cfg     cmpCfg
		evs     []Event
		bad     string
		crashed bool
		overlap string
		outcome string
	}
	out := make([]exec, k)
	letter := map[int]string{0: "W", 1: "R", 2: "S", 3: "D", 4: "E", 5: "C"}
	core.Parallel(k, 12, func(i int) {
		rng := env.Rand(fmt.Sprintf("compose-%d", i))
		c := randCompose(rng, 2+rng.Intn(4))
		d := env.Sub("cmp")
		td := env.Sub("cmptrace")
		_ = os.MkdirAll(filepath.Join(d, "my checks"), 0o755)
		_ = ioutil.WriteFile(filepath.Join(d, "my checks", "yes.sh"), []byte("#!/bin/sh\nexit 0\n"), 0o755)
		_ = ioutil.WriteFile(filepath.Join(d, "my checks", "no.sh"), []byte("#!/bin/sh\nexit 1\n"), 0o755)
		_ = ioutil.WriteFile(filepath.Join(d, "tasks.yaml"), []byte(composeYAML(c, rng, d)), 0o644)
		res := core.RunBin(d, append(core.CleanEnv(home), "VERIF_TRACE="+td), 60*time.Second, "", env.Taskctl, "--raw", "p")
		out[i].cfg = c
		if res.TimedOut || res.Crashed() {
			out[i].bad = "taskctl crashed or hung: " + tail(res.Stderr, 300)
			out[i].crashed = res.Crashed()
			return
		}
		files, _ := filepath.Glob(filepath.Join(td, "trace-*.ndjson"))
		if len(files) != 1 {
			out[i].bad = fmt.Sprintf("driver: %d trace files", len(files))
			return
		}
		fh, _ := os.Open(files[0])
		defer fh.Close()
		sc := bufio.NewScanner(fh)
		sc.Buffer(make([]byte, 1<<20), 1<<24)
		id := func(name interface{}) int {
			s, _ := name.(string)
			n, _ := strconv.Atoi(strings.TrimPrefix(s, "s"))
			return n
		}
		status := make([]string, c.N)
		for j := range status {
			status[j] = "W"
		}
		evs := []Event{{"e": "cfg", "n": c.N, "deps": c.Deps, "cls": c.Cls, "ncmd": c.NCmd, "failAt": c.FailAt,
			"nvar": c.NVar, "ctx": c.Ctx, "hb": c.HB, "ha": c.HA, "upFails": c.UpFails, "gr": c.Gr, "inc": c.Inc, "tallow": c.TAllow}}
		var last map[string]interface{}
		topGraph := 0
		for sc.Scan() {
			var e map[string]interface{}
			if json.Unmarshal(sc.Bytes(), &e) != nil {
				continue
			}
			switch e["e"] {
			case "st":
				v := letter[toInt(e["v"])]
				status[id(e["s"])-1] = v
				evs = append(evs, Event{"e": "st", "s": id(e["s"]), "v": v})
			case "enter":
				evs = append(evs, Event{"e": "enter", "s": id(e["s"])})
			case "ret":
				evs = append(evs, Event{"e": "ret", "s": id(e["s"]), "failed": e["failed"]})
			case "RunEnter", "RunExit":
				evs = append(evs, Event{"e": e["e"], "s": id(e["t"])})
			case "RunRefused":
				evs = append(evs, Event{"e": "refused", "s": id(e["t"])})
			case "cancel":
				evs = append(evs, Event{"e": "cancel"})
			case "CancelSet":
				evs = append(evs, Event{"e": "cset"})
			case "CancelExit":
				evs = append(evs, Event{"e": "cexit"})
			case "CmdStart", "CmdEnd":
				cmd, _ := e["cmd"].(string)
				m := reJobTag.FindStringSubmatch(cmd)
				if m == nil {
					continue
				}
				k, _ := strconv.Atoi(m[2])
				ev := Event{"e": e["e"], "role": m[3]}
				if m[1] == "s" {
					ev["s"] = k
				} else {
					ev["c"] = k
				}
				if e["e"] == "CmdEnd" {
					ev["err"] = e["err"]
				}
				evs = append(evs, ev)
			case "sched-enter":
				if topGraph == 0 {
					topGraph = toInt(e["g"]) // the first Schedule call is the pipeline that was asked for
				}
			case "sched-exit":
				if toInt(e["g"]) != topGraph {
					evs = append(evs, Event{"e": "nret"}) // a nested Schedule call returned
					continue
				}
				if last == nil {
					evs = append(evs, Event{"e": "done", "err": e["err"], "final": append([]string{}, status...)})
				}
				last = e
			}
		}
		if last == nil {
			out[i].bad = "Schedule did not return (no sched-exit event); exit status " + fmt.Sprint(res.Exit)
			return
		}
		// C02 read directly off the log: the final statuses of a plain pipeline (nothing included, nothing
		// cancelled) are the reference outcome - a function of the configuration alone
		if want := refOutcome(c); want != nil {
			for _, ev := range evs {
				if ev["e"] != "done" {
					continue
				}
				if fin, ok := ev["final"].([]string); ok && strings.Join(fin, "") != strings.Join(want, "") {
					out[i].outcome = fmt.Sprintf("final statuses %v, the reference outcome of this configuration is %v (deps %v, classes %v, commands %v, failing at %v, task-level allow_failure %v, before hooks %v, contexts %v, failing start-ups %v)", fin, want, c.Deps, c.Cls, c.NCmd, c.FailAt, c.TAllow, c.HB, c.Ctx, c.UpFails)
				}
			}
		}
		// C01 read directly off the log (whatever else the trace specification rejects first): no job
		// of a stage (hooks included) starts while a job of a stage it depends on has not ended
		{
			firstStart, lastEnd := map[int]int{}, map[int]int{}
			for k, ev := range evs {
				sidx, isStage := ev["s"].(int)
				if !isStage {
					continue
				}
				switch ev["e"] {
				case "CmdStart":
					if _, seen := firstStart[sidx]; !seen {
						firstStart[sidx] = k
					}
				case "CmdEnd":
					lastEnd[sidx] = k
				}
			}
			for s2 := 1; s2 <= c.N; s2++ {
				for _, d2 := range c.Deps[s2-1] {
					if fs, ok1 := firstStart[s2]; ok1 {
						if le, ok2 := lastEnd[d2]; ok2 && le > fs {
							out[i].overlap = fmt.Sprintf("stage s%d depends on s%d; a job of s%d started (event %d) before the last job of s%d had ended (event %d)", s2, d2, s2, fs, d2, le)
						}
					}
				}
			}
		}
		// what the user is told: the exit status and the summary on stdout. The wording of the summary is
		// not fixed by anything: a header or a phrase that is not recognised makes that part unknown
		// ("?"), which the trace specification accepts
		lines := make([]string, c.N)
		for j := range lines {
			lines[j] = "-"
		}
		printed, parsed := "no", 0
		if res.Exit == 0 {
			printed = "unknown"
		}
		for _, ln := range strings.Split(reANSI.ReplaceAllString(res.Stdout, ""), "\n") {
			ln = strings.TrimSpace(ln)
			if strings.HasPrefix(ln, "Summary:") {
				printed = "yes"
			}
			m := reSummary.FindStringSubmatch(ln)
			if m == nil {
				continue
			}
			j := id(m[1]) - 1
			if j < 0 || j >= c.N {
				continue
			}
			parsed++
			v := "?"
			for phrase, letter := range map[string]string{"was completed": "D", "was skipped": "S", "failed": "E", "was cancelled": "C"} {
				if strings.HasPrefix(m[2], phrase) {
					v = letter
				}
			}
			if lines[j] != "-" {
				v = "dup"
			}
			lines[j] = v
		}
		if printed == "yes" && parsed == 0 {
			for j := range lines {
				lines[j] = "?"
			}
		}
		evs = append(evs, Event{"e": "summary", "printed": printed, "exitfail": res.Exit != 0, "lines": lines})
		evs = append(evs, Event{"e": "end"})
		out[i].evs = evs
	})
	byN := map[int][]int{}
	for i, o := range out {
		if o.bad != "" {
			if strings.HasPrefix(o.bad, "driver:") {
				continue
			}
			rep.Add(core.Finding{Prop: "C03", Key: "C03:binary:pipeline-run-does-not-complete", What: o.bad, Detail: o.cfg})
			if o.crashed {
				// a process that dies in the middle of the run has no outcome at all: no final statuses, no
				// error that follows from the configuration
				rep.Add(core.Finding{Prop: "C02", Key: "C02:binary:run-crashed-without-an-outcome", What: o.bad, Detail: o.cfg})
			}
			continue
		}
		if o.outcome != "" {
			rep.Add(core.Finding{Prop: "C02", Key: "C02:binary:final-statuses-differ-from-the-reference-outcome", What: o.outcome, Detail: o.cfg})
		}
		if o.overlap != "" {
			rep.Add(core.Finding{Prop: "C01", Key: "C01:binary:job-of-a-dependency-still-running", What: o.overlap, Detail: o.cfg})
		}
		byN[o.cfg.N] = append(byN[o.cfg.N], i)
	}
	accepted, total := 0, 0
	var mu sync.Mutex
	var wg sync.WaitGroup
	for n, idx := range byN {
		n, idx := n, idx
		total += len(idx)
		wg.Add(1)
		go func() {
			defer wg.Done()
			cur := idx
			for round := 0; round < 6 && len(cur) > 0; round++ {
				var buf bytes.Buffer
				var lineExec []int
				var lineEv []Event
				for _, i := range cur {
					for _, ev := range out[i].evs {
						b, _ := json.Marshal(ev)
						buf.Write(b)
						buf.WriteByte('\n')
						lineExec = append(lineExec, i)
						lineEv = append(lineEv, ev)
					}
				}
				res := core.RunTLC(env, core.TLCOpts{Module: "TaskctlTrace", Config: "TaskctlTrace.cfg", Workers: 1, Files: map[string][]byte{"trace.ndjson": buf.Bytes(), "TaskctlTrace.cfg": composeCfgFile(n)}})
				if res.Violated == "" {
					mu.Lock()
					accepted += len(cur)
					mu.Unlock()
					return
				}
				line := 0
				if res.Violated == "postcondition" {
					for _, p := range res.Tagged("MATCHED") {
						var m struct{ Upto, Of int }
						if json.Unmarshal([]byte(p), &m) == nil {
							line = m.Upto + 1
						}
					}
				} else if all := reL.FindAllStringSubmatch(res.Out, -1); len(all) > 0 {
					line, _ = strconv.Atoi(all[len(all)-1][1])
					line--
				}
				if line < 1 || line > len(lineExec) {
					core.Broken("TaskctlTrace: cannot locate the rejected line (%s)", res.Violated)
				}
				bad := lineExec[line-1]
				ev := lineEv[line-1]
				prop := "C02"
				switch ev["e"] {
				case "RunEnter", "enter":
					prop = "C01"
				case "CmdStart", "CmdEnd", "RunExit":
					prop = "C06"
				case "end":
					prop = "C14"
				case "cancel", "cset", "cexit", "refused":
					prop = "C12"
				}
				switch ev["role"] {
				case "up", "down", "cb", "ca":
					prop = "C14"
				}
				if v, _ := ev["v"].(string); ev["e"] == "st" && v == "R" {
					prop = "C01"
				}
				switch res.Violated {
				case "CommandsAfterDependencies":
					prop = "C01"
				case "StopsAtFailure":
					prop = "C06"
				case "FinalOK":
					prop = "C02"
				case "UpBeforeUse", "DownAfterAll", "OneUpAtATime":
					prop = "C14"
				case "CancelledFinal", "QuietAfterCancel":
					prop = "C12"
				}
				props := []string{prop, "C03"}
				if cix, ok := ev["c"].(int); ok && cix >= 1 && cix <= len(out[bad].cfg.UpFails) && out[bad].cfg.UpFails[cix-1] && ev["role"] != "up" && ev["role"] != "down" {
					// a job of a context whose start-up failed: a task ran that the outcome of `up` alone
					// says must fail - the stage outcomes no longer follow from the graph and the outcomes
					props = append(props, "C02")
				}
				for _, p := range props {
					if p == "C03" && ev["e"] != "done" {
						continue
					}
					rep.Add(core.Finding{Prop: p, Key: p + ":binary:trace-not-a-behaviour-of-Taskctl.tla",
						What:   fmt.Sprintf("the event log of `taskctl p` is rejected by TaskctlTrace.tla at %s (violated: %q)", core.JSON(ev), res.Violated),
						Detail: map[string]interface{}{"config": out[bad].cfg, "trace": out[bad].evs}})
				}
				var keep []int
				for _, i := range cur {
					if i != bad {
						keep = append(keep, i)
					}
				}
				cur = keep
			}
		}()
	}
	wg.Wait()
	info["binary_executions"] = total
	info["accepted"] = accepted
	nCErr, nRefused, nKilled := 0, 0, 0
	for _, o := range out {
		for _, cl := range o.cfg.Cls {
			if cl == "CERR" {
				nCErr++
				break
			}
		}
		for _, ev := range o.evs {
			if ev["e"] == "refused" {
				nRefused++
			}
			if ev["e"] == "CmdEnd" && ev["err"] == "ctx" {
				nKilled++
			}
		}
	}
	info["runs_cancelled_by_a_condition_error"] = map[string]interface{}{"pipelines": nCErr, "runs_refused": nRefused, "jobs_interrupted": nKilled}
	// binding self-test: the same log with one CmdEnd removed (two jobs of one run overlap) must be
	// rejected - otherwise the trace specification constrains nothing
	for _, o := range out {
		cut := -1
		for j, ev := range o.evs {
			if ev["e"] == "CmdEnd" {
				cut = j
				break
			}
		}
		if o.bad != "" || cut < 0 {
			continue
		}
		var buf bytes.Buffer
		for j, ev := range o.evs {
			if j != cut {
				b, _ := json.Marshal(ev)
				buf.Write(b)
				buf.WriteByte('\n')
			}
		}
		res := core.RunTLC(env, core.TLCOpts{Module: "TaskctlTrace", Config: "TaskctlTrace.cfg", Workers: 1, Files: map[string][]byte{"trace.ndjson": buf.Bytes(), "TaskctlTrace.cfg": composeCfgFile(o.cfg.N)}})
		if res.Violated == "" {
			core.Broken("binding self-test: a whole-binary log with a CmdEnd removed was accepted by TaskctlTrace.tla")
		}
		info["binding_selftest"] = map[string]interface{}{"corruption": "first CmdEnd removed", "rejected_with": res.Violated}
		break
	}
	if total > 0 {
		for _, o := range out {
			if o.evs != nil {
				info["sample"] = evString(o.evs)
				break
			}
		}
	}
	return info
}

func tail(s string, n int) string {
	if len(s) > n {
		return s[len(s)-n:]
	}
	return s
}

// refOutcome: Exp of Taskctl.tla / Scheduler.tla for a pipeline without an included pipeline and
// without a condition error (nil otherwise).
func refOutcome(c cmpCfg) []string {
	for s := 0; s < c.N; s++ {
		if c.Gr[s] != 0 || c.Inc[s] || c.Cls[s] == "CERR" {
			return nil
		}
	}
	exp := make([]string, c.N)
	for s := 0; s < c.N; s++ { // dependencies have smaller numbers
		fails := c.Cls[s] == "FAIL" || c.Cls[s] == "FAILA"
		upOK := c.Ctx[s] == 0 || !c.UpFails[c.Ctx[s]-1]
		taskFails := !upOK || c.HB[s] == "fail" || (fails && !c.TAllow[s])
		blocked := false
		for _, d := range c.Deps[s] {
			blocked = blocked || exp[d-1] == "E" || exp[d-1] == "C"
		}
		switch {
		case c.Cls[s] == "CFALSE":
			exp[s] = "S"
		case blocked:
			exp[s] = "C"
		case taskFails && c.Cls[s] != "FAILA":
			exp[s] = "E"
		default:
			exp[s] = "D"
		}
	}
	return exp
}
