// Package sched binds Scheduler.tla to pkg/scheduler: lock-step replay of model
// behaviours (SchedGen.tla) and validation of recorded traces (SchedTrace.tla).
package sched

import (
	"errors"
	"fmt"
	"io/ioutil"
	"math/rand"
	"sync"
	"sync/atomic"
	"time"

	"github.com/sirupsen/logrus"
	"github.com/taskctl/taskctl/pkg/scheduler"
	"github.com/taskctl/taskctl/pkg/task"
)

// Config is a scheduler configuration in the canonical numbering of Scheduler.tla.
type Config struct {
	N      int      `json:"n"`
	Deps   [][]int  `json:"deps"`
	Cls    []string `json:"cls"`
	Parent int      `json:"parent"`
	Inner  []int    `json:"inner"`
}

// Obs is the observation the model predicts at a quiescent point.
type Obs struct {
	St  []string `json:"st"`
	Run []int    `json:"run"`
}

// Step is one release and the predicted observation after it.
type Step struct {
	Rel    int      `json:"rel"`
	Failed bool     `json:"failed"`
	St     []string `json:"st"`
	Run    []int    `json:"run"`
}

// Beh is one behaviour emitted by SchedGen.tla.
type Beh struct {
	Config
	Init  Obs      `json:"init"`
	Steps []Step   `json:"steps"`
	Err   bool     `json:"err"`
	Final []string `json:"final"`
}

var statusName = map[int32]string{
	scheduler.StatusWaiting: "W", scheduler.StatusRunning: "R", scheduler.StatusSkipped: "S",
	scheduler.StatusDone: "D", scheduler.StatusError: "E", scheduler.StatusCanceled: "C",
}

// Event is one line of the NDJSON trace.
type Event map[string]interface{}

// run is one execution of the real scheduler under the controlled Runner.
type run struct {
	patient bool // confirmation run: alone, with long settle times and deadlines
	cfg     Config
	names   []string       // names[i] for stage i (1-based; names[0] unused)
	byName  map[string]int // root-graph names only (labels may repeat inside the nested pipeline)
	byTask  map[*task.Task]int
	byStage map[*scheduler.Stage]int
	stages  []*scheduler.Stage
	root    *scheduler.ExecutionGraph
	inner   *scheduler.ExecutionGraph
	sched   *scheduler.Scheduler

	mu            sync.Mutex
	log           []Event
	entered       map[int]int // stage -> number of Run entries
	inflight      map[int]chan bool
	free          bool // release everything immediately (clean-up mode)
	passes        [2]int64
	returned      int32
	retErr        error
	done          chan struct{}
	record        bool
	pause         time.Duration
	holdTransient bool
}

var registry sync.Map // *scheduler.ExecutionGraph / *scheduler.Stage -> *run

func init() {
	logrus.SetOutput(ioutil.Discard)
	scheduler.VerifPassHook = func(s *scheduler.Scheduler, g *scheduler.ExecutionGraph) {
		if v, ok := registry.Load(g); ok {
			r := v.(*run)
			if g == r.root {
				atomic.AddInt64(&r.passes[0], 1)
			} else {
				atomic.AddInt64(&r.passes[1], 1)
			}
		}
	}
	scheduler.VerifStatusHook = func(st *scheduler.Stage, status int32) {
		if v, ok := registry.Load(st); ok {
			r := v.(*run)
			// The two stores of an allowed failure (Error, then Done) are two steps of the model
			// (TaskReturn, PublishDone): hold the stage goroutine between them until the loop
			// has made two full passes, so that the transient Error is really observed by it.
			if id := r.byStage[st]; r.holdTransient && status == scheduler.StatusDone &&
				st.ReadStatus() == scheduler.StatusError && r.cfg.Cls[id-1] == "FAILA" {
				g := 0
				for _, in := range r.cfg.Inner {
					if in == id {
						g = 1
					}
				}
				p0 := atomic.LoadInt64(&r.passes[g])
				lim := time.Now().Add(500 * time.Millisecond)
				for atomic.LoadInt64(&r.passes[g])-p0 < 2 && time.Now().Before(lim) && !r.hasReturned() {
					time.Sleep(50 * time.Microsecond)
				}
			}
			if r.record {
				r.mu.Lock()
				r.log = append(r.log, Event{"e": "st", "s": r.byStage[st], "v": statusName[status]})
				r.mu.Unlock()
			}
		}
	}
}

// ctrlRunner is the checker-controlled runner.Runner.
type ctrlRunner struct{ r *run }

var errTask = errors.New("task failed (controlled runner)")

func (c ctrlRunner) Run(t *task.Task) error {
	r := c.r
	id := r.byTask[t]
	ch := make(chan bool, 1)
	r.mu.Lock()
	r.entered[id]++
	r.inflight[id] = ch
	if r.record {
		r.log = append(r.log, Event{"e": "enter", "s": id})
	}
	if r.free {
		ch <- r.cfg.Cls[id-1] == "FAIL" || r.cfg.Cls[id-1] == "FAILA"
	}
	r.mu.Unlock()
	failed := <-ch
	r.mu.Lock()
	if r.record {
		r.log = append(r.log, Event{"e": "ret", "s": id, "failed": failed})
	}
	delete(r.inflight, id)
	r.mu.Unlock()
	if failed {
		return errTask
	}
	return nil
}
func (c ctrlRunner) Cancel() {}
func (c ctrlRunner) Finish() {}

// newRun builds the real ExecutionGraph for cfg with seed-chosen labels and declaration order.
func newRun(cfg Config, rng *rand.Rand, pause time.Duration, record bool) (*run, error) {
	r := &run{cfg: cfg, byName: map[string]int{}, byTask: map[*task.Task]int{}, byStage: map[*scheduler.Stage]int{}, entered: map[int]int{}, inflight: map[int]chan bool{},
		done: make(chan struct{}), record: record}
	n := cfg.N
	r.names = make([]string, n+1)
	isInner := map[int]bool{}
	for _, i := range cfg.Inner {
		isInner[i] = true
	}
	// Stage names are unique within one pipeline only: the nested pipeline re-uses names of
	// the outer one (seed-chosen), as a configuration may.
	labels := rng.Perm(n)
	var outer []string
	// a third of the runs each: plain names; names that are ambiguous when two of them are joined
	// with ':' ("x"+":"+"y:z" = "x:y"+":"+"z"); names that are ambiguous when simply concatenated
	tricky := [][]string{nil, {"x", "x:y", "y:z", "z"}, {"a", "ab", "b", "bb"}}[rng.Intn(3)]
	for i := 1; i <= n; i++ {
		if !isInner[i] {
			r.names[i] = fmt.Sprintf("st%c%d", 'a'+rune(labels[i-1]%26), labels[i-1])
			if labels[i-1] < len(tricky) {
				r.names[i] = tricky[labels[i-1]]
			}
			outer = append(outer, r.names[i])
		}
	}
	rng.Shuffle(len(outer), func(a, b int) { outer[a], outer[b] = outer[b], outer[a] })
	k := 0
	for i := 1; i <= n; i++ {
		if isInner[i] {
			if k < len(outer) && rng.Intn(3) != 0 {
				r.names[i] = outer[k]
				k++
			} else {
				r.names[i] = fmt.Sprintf("in%c%d", 'a'+rune(labels[i-1]%26), labels[i-1])
			}
		}
		r.byName[r.names[i]] = i
	}
	r.stages = make([]*scheduler.Stage, n+1)
	mk := func(i int) *scheduler.Stage {
		st := &scheduler.Stage{Name: r.names[i]}
		dl := append([]int(nil), cfg.Deps[i-1]...)
		rng.Shuffle(len(dl), func(a, b int) { dl[a], dl[b] = dl[b], dl[a] })
		for _, d := range dl {
			st.DependsOn = append(st.DependsOn, r.names[d])
		}
		switch cfg.Cls[i-1] {
		case "FAILA":
			st.AllowFailure = true
		case "CFALSE":
			st.Condition = "false"
		case "CERR":
			st.Condition = "/nonexistent-verif/condition"
		}
		// a condition that holds changes nothing: a third of the other stages get one
		if st.Condition == "" && rng.Intn(3) == 0 {
			st.Condition = "true"
		}
		if i != cfg.Parent {
			t := task.FromCommands("true")
			t.Name = r.names[i]
			st.Task = t
			r.byTask[t] = i
		}
		r.stages[i] = st
		r.byStage[st] = i
		return st
	}
	build := func(ids []int) (*scheduler.ExecutionGraph, error) {
		rng.Shuffle(len(ids), func(a, b int) { ids[a], ids[b] = ids[b], ids[a] })
		var list []*scheduler.Stage
		for _, i := range ids {
			list = append(list, r.stages[i])
		}
		return scheduler.NewExecutionGraph(list...)
	}
	for i := 1; i <= n; i++ {
		mk(i)
	}
	var err error
	if cfg.Parent != 0 {
		r.inner, err = build(append([]int(nil), cfg.Inner...))
		if err != nil {
			return nil, fmt.Errorf("inner graph: %w", err)
		}
		r.stages[cfg.Parent].Pipeline = r.inner
		registry.Store(r.inner, r)
	}
	var rootIDs []int
	for i := 1; i <= n; i++ {
		if !isInner[i] {
			rootIDs = append(rootIDs, i)
		}
	}
	r.root, err = build(rootIDs)
	if err != nil {
		return nil, fmt.Errorf("root graph: %w", err)
	}
	registry.Store(r.root, r)
	for i := 1; i <= n; i++ {
		registry.Store(r.stages[i], r)
	}
	r.sched = scheduler.NewScheduler(ctrlRunner{r})
	r.pause = 50 * time.Millisecond
	if pause > 0 {
		r.sched.VerifSetPause(pause)
		r.pause = pause
	}
	return r, nil
}

func (r *run) close() {
	if r.inner != nil {
		registry.Delete(r.inner)
	}
	registry.Delete(r.root)
	for i := 1; i <= r.cfg.N; i++ {
		registry.Delete(r.stages[i])
	}
}

func (r *run) start() {
	go func() {
		err := r.sched.Schedule(r.root)
		r.retErr = err
		atomic.StoreInt32(&r.returned, 1)
		close(r.done)
	}()
}

func (r *run) hasReturned() bool { return atomic.LoadInt32(&r.returned) == 1 }

func (r *run) statuses() []string {
	out := make([]string, r.cfg.N)
	for i := 1; i <= r.cfg.N; i++ {
		out[i-1] = statusName[r.stages[i].ReadStatus()]
	}
	return out
}

func (r *run) inflightSet() []int {
	r.mu.Lock()
	defer r.mu.Unlock()
	var out []int
	for i := 1; i <= r.cfg.N; i++ {
		if _, ok := r.inflight[i]; ok {
			out = append(out, i)
		}
	}
	return out
}

// release lets the Run call of stage id return. Reports false if it is not in flight.
func (r *run) release(id int, failed bool) bool {
	r.mu.Lock()
	ch, ok := r.inflight[id]
	r.mu.Unlock()
	if !ok {
		return false
	}
	select {
	case ch <- failed:
	default:
	}
	return true
}

// freeRun puts the run into clean-up mode: everything in flight, now or later, returns at once.
func (r *run) freeRun() {
	r.mu.Lock()
	r.free = true
	for id, ch := range r.inflight {
		select {
		case ch <- r.cfg.Cls[id-1] == "FAIL" || r.cfg.Cls[id-1] == "FAILA":
		default:
		}
	}
	r.mu.Unlock()
}

func terminal(s string) bool { return s != "W" && s != "R" }

func eqS(a, b []string) bool {
	if len(a) != len(b) {
		return false
	}
	for i := range a {
		if a[i] != b[i] {
			return false
		}
	}
	return true
}

func eqI(a, b []int) bool {
	if len(a) != len(b) {
		return false
	}
	for i := range a {
		if a[i] != b[i] {
			return false
		}
	}
	return true
}

// quiesce waits until the scheduling loop has reached its fixpoint: two complete
// passes of every live loop, started after the last status change, changed nothing;
// no outcome publication is pending; the in-flight set equals the Running set.
// released: outcome already handed to Run for these stages. Returns stuck=true when
// the deadline passed without reaching such a point.
func (r *run) quiesce(released map[int]bool, deadline time.Duration) (st []string, infl []int, stuck bool) {
	limit := time.Now().Add(deadline)
	isInner := map[int]bool{}
	for _, i := range r.cfg.Inner {
		isInner[i] = true
	}
	for {
		if time.Now().After(limit) {
			return r.statuses(), r.inflightSet(), true
		}
		if r.hasReturned() {
			return r.statuses(), r.inflightSet(), false
		}
		s1 := r.statuses()
		pending := false
		for id := range released {
			// Run returned (or is returning) but the outcome is not published yet
			if s1[id-1] == "R" {
				pending = true
			}
		}
		for i := 1; i <= r.cfg.N; i++ {
			// the transient Error of an allowed failure: Done follows
			if s1[i-1] == "E" && r.cfg.Cls[i-1] == "FAILA" {
				pending = true
			}
		}
		rootDone, innerDone := true, true
		for i := 1; i <= r.cfg.N; i++ {
			if !terminal(s1[i-1]) {
				if isInner[i] {
					innerDone = false
				} else {
					rootDone = false
				}
			}
		}
		nestedLive := r.cfg.Parent != 0 && s1[r.cfg.Parent-1] == "R"
		if nestedLive && innerDone {
			pending = true // nested Schedule is about to return and publish
		}
		if rootDone {
			pending = true // the loop exits; wait for Schedule to return
		}
		if pending {
			time.Sleep(100 * time.Microsecond)
			continue
		}
		p0 := atomic.LoadInt64(&r.passes[0])
		p1 := atomic.LoadInt64(&r.passes[1])
		ok := true
		// A loop that polls makes passes all the time. If none is seen for a long while (200 x the
		// pause, at least 400 ms) although nothing changes, the implementation is not polling; the
		// state is then taken as settled and compared with the prediction as it is - whether the
		// scheduler is still live is established by the releases that follow, not by pass counting.
		settle := 200 * r.pause
		if settle < 400*time.Millisecond {
			settle = 400 * time.Millisecond
		}
		if r.patient && settle < 3*time.Second {
			settle = 3 * time.Second
		}
		lastPass := time.Now()
		lp0, lp1 := p0, p1
		for {
			if time.Now().After(limit) || r.hasReturned() {
				ok = false
				break
			}
			c0, c1 := atomic.LoadInt64(&r.passes[0]), atomic.LoadInt64(&r.passes[1])
			if c0 != lp0 || c1 != lp1 {
				lp0, lp1, lastPass = c0, c1, time.Now()
			} else if time.Since(lastPass) > settle {
				break
			}
			d0 := atomic.LoadInt64(&r.passes[0])-p0 >= 2
			d1 := !nestedLive || atomic.LoadInt64(&r.passes[1])-p1 >= 2
			if d0 && d1 {
				break
			}
			if !eqS(s1, r.statuses()) {
				ok = false
				break
			}
			time.Sleep(100 * time.Microsecond)
		}
		if !ok {
			continue
		}
		s2 := r.statuses()
		if !eqS(s1, s2) {
			continue
		}
		// launched goroutines reach Run asynchronously
		var want []int
		for i := 1; i <= r.cfg.N; i++ {
			if s2[i-1] == "R" && i != r.cfg.Parent && !released[i] {
				want = append(want, i)
			}
		}
		for {
			infl = r.inflightSet()
			if eqI(infl, want) {
				if eqS(s2, r.statuses()) {
					return s2, infl, false
				}
				break
			}
			if time.Now().After(limit) {
				return s2, infl, true
			}
			time.Sleep(100 * time.Microsecond)
		}
	}
}
