package sched

import (
	"fmt"
	"io/ioutil"
	"math/rand"
	"path/filepath"
	"strings"
	"time"

	"verif/harness/internal/core"
)

// Nested pipelines through the binary (configuration file -> graph -> scheduler -> real runner):
// random pipelines whose stages are tasks or inclusions of another pipeline (`pipeline: inner`,
// possibly included twice), with depends_on between them. Every task appends start/end markers
// to one log. Judged with the statement itself (DepsFinished of Scheduler.tla with a nested graph):
//   - a task stage starts after everything its dependencies ran has ended;
//   - every task of an included pipeline starts after everything the including stage depends on
//     has ended (with two including stages: of one of them - the pipeline runs once, for the first
//     that becomes ready), and a dependant of an including stage starts after every included task
//     has ended;
//   - every task runs exactly once (also when the pipeline is included by two stages).
type nbStage struct {
	Name    string
	Include bool
	Deps    []int // indices of earlier outer stages
}

type nbCase struct {
	Outer     []nbStage
	Inner     [][]int // inner stage i depends on these inner stages
	OrderSeed int64
}

func randNested(rng *rand.Rand) nbCase {
	c := nbCase{OrderSeed: rng.Int63()}
	n := 3 + rng.Intn(3)
	includes := 0
	for i := 0; i < n; i++ {
		st := nbStage{Name: fmt.Sprintf("o%d", i+1)}
		for d := 0; d < i; d++ {
			if rng.Intn(3) == 0 {
				st.Deps = append(st.Deps, d)
			}
		}
		if includes < 2 && rng.Intn(3) == 0 {
			st.Include = true
			includes++
		}
		c.Outer = append(c.Outer, st)
	}
	if includes == 0 {
		k := rng.Intn(n)
		c.Outer[k].Include = true
	}
	m := 1 + rng.Intn(3)
	for i := 0; i < m; i++ {
		var ds []int
		for d := 0; d < i; d++ {
			if rng.Intn(2) == 0 {
				ds = append(ds, d)
			}
		}
		c.Inner = append(c.Inner, ds)
	}
	return c
}

func (c nbCase) yaml(log string, rng *rand.Rand) string {
	var b strings.Builder
	b.WriteString("tasks:\n")
	cmd := func(name string) string {
		return fmt.Sprintf("/bin/echo %s.start >> %s; sleep 0.0%d; /bin/echo %s.end >> %s", name, log, 1+rng.Intn(5), name, log)
	}
	for _, st := range c.Outer {
		if !st.Include {
			fmt.Fprintf(&b, "  t%s:\n    command: [%q]\n", st.Name, cmd("t"+st.Name))
		}
	}
	for i := range c.Inner {
		fmt.Fprintf(&b, "  u%d:\n    command: [%q]\n", i+1, cmd(fmt.Sprintf("u%d", i+1)))
	}
	b.WriteString("pipelines:\n  inner:\n")
	for _, i := range rng.Perm(len(c.Inner)) {
		fmt.Fprintf(&b, "    - name: i%d\n      task: u%d\n", i+1, i+1)
		if len(c.Inner[i]) > 0 {
			var ds []string
			for _, d := range c.Inner[i] {
				ds = append(ds, fmt.Sprintf("i%d", d+1))
			}
			fmt.Fprintf(&b, "      depends_on: [%s]\n", strings.Join(ds, ", "))
		}
	}
	b.WriteString("  outer:\n")
	for _, i := range rng.Perm(len(c.Outer)) {
		st := c.Outer[i]
		if st.Include {
			fmt.Fprintf(&b, "    - name: %s\n      pipeline: inner\n", st.Name)
		} else {
			fmt.Fprintf(&b, "    - name: %s\n      task: t%s\n", st.Name, st.Name)
		}
		if len(st.Deps) > 0 {
			var ds []string
			for _, d := range st.Deps {
				ds = append(ds, c.Outer[d].Name)
			}
			fmt.Fprintf(&b, "      depends_on: [%s]\n", strings.Join(ds, ", "))
		}
	}
	return b.String()
}

// NestedBinCheck runs k random nested pipelines through the binary.
func NestedBinCheck(env *core.Env, rep *core.Report, k int) int {
	home := env.Sub("home")
	done := 0
	results := make([]func(), k)
	core.Parallel(k, 10, func(i int) {
		rng := env.Rand(fmt.Sprintf("nestedbin-%d", i))
		c := randNested(rng)
		d := env.Sub("nbin")
		log := filepath.Join(d, "log")
		y := c.yaml(log, rng)
		_ = ioutil.WriteFile(filepath.Join(d, "tasks.yaml"), []byte(y), 0o644)
		res := core.RunBin(d, core.CleanEnv(home), 60*time.Second, "", env.Taskctl, "--raw", "-c", filepath.Join(d, "tasks.yaml"), "outer")
		b, _ := ioutil.ReadFile(log)
		lines := strings.Fields(string(b))
		results[i] = func() {
			detail := map[string]interface{}{"yaml": y, "log": lines, "exit": res.Exit, "stderr": tail(res.Stderr, 400)}
			add := func(prop, kind, what string) {
				rep.Add(core.Finding{Prop: prop, Key: prop + ":nested-binary:" + kind, What: what, Detail: detail})
			}
			if res.TimedOut || res.Crashed() {
				add("C03", "pipeline-run-does-not-complete", "taskctl outer (a pipeline that includes another pipeline) crashed or hung")
				return
			}
			pos := map[string]int{}
			count := map[string]int{}
			for p, l := range lines {
				count[l]++
				if _, seen := pos[l]; !seen {
					pos[l] = p
				}
			}
			var innerTasks []string
			for j := range c.Inner {
				innerTasks = append(innerTasks, fmt.Sprintf("u%d", j+1))
			}
			// what a stage runs
			runs := func(st nbStage) []string {
				if st.Include {
					return innerTasks
				}
				return []string{"t" + st.Name}
			}
			all := append([]string{}, innerTasks...)
			for _, st := range c.Outer {
				if !st.Include {
					all = append(all, "t"+st.Name)
				}
			}
			for _, t := range all {
				if count[t+".start"] != 1 || count[t+".end"] != 1 {
					add("C03", "task-not-run-exactly-once", fmt.Sprintf("task %s started %d times and ended %d times in `taskctl outer` (exit %d)", t, count[t+".start"], count[t+".end"], res.Exit))
					return
				}
			}
			if res.Exit != 0 {
				add("C03", "run-failed", fmt.Sprintf("every task succeeded but taskctl outer exited %d", res.Exit))
				return
			}
			// afterDeps: task `mine` started after everything the dependencies of stage st ran had ended
			afterDeps := func(st nbStage, mine string) (bool, string) {
				for _, di := range st.Deps {
					if st.Include && c.Outer[di].Include {
						continue // both run the same included pipeline (once)
					}
					for _, theirs := range runs(c.Outer[di]) {
						if pos[mine+".start"] < pos[theirs+".end"] {
							return false, fmt.Sprintf("stage %s depends on %s, but %s started before %s had ended", st.Name, c.Outer[di].Name, mine, theirs)
						}
					}
				}
				return true, ""
			}
			for _, st := range c.Outer {
				if st.Include {
					continue
				}
				if ok, why := afterDeps(st, "t"+st.Name); !ok {
					add("C01", "started-before-dependencies-finished", why)
					return
				}
			}
			// an included pipeline runs once, for the first including stage that becomes ready: each of
			// its tasks must have waited for the dependencies of at least one including stage
			for _, u := range innerTasks {
				okSome, why := false, ""
				for _, st := range c.Outer {
					if st.Include {
						ok, w := afterDeps(st, u)
						okSome = okSome || ok
						if !ok {
							why = w
						}
					}
				}
				if !okSome {
					add("C01", "started-before-dependencies-finished", "no stage that includes the pipeline had its dependencies finished: "+why)
					return
				}
			}
			for j, ds := range c.Inner {
				for _, dd := range ds {
					if pos[fmt.Sprintf("u%d.start", j+1)] < pos[fmt.Sprintf("u%d.end", dd+1)] {
						add("C01", "started-before-dependencies-finished", fmt.Sprintf("included stage i%d depends on i%d, but u%d started before u%d had ended", j+1, dd+1, j+1, dd+1))
						return
					}
				}
			}
		}
	})
	for _, f := range results {
		if f != nil {
			f()
			done++
		}
	}
	return done
}
