package sched

import (
	"bufio"
	"encoding/json"
	"fmt"
	"io/ioutil"
	"os"
	"os/exec"
	"path/filepath"
	"sort"
	"strings"
	"time"

	"verif/harness/internal/core"
)

// RepoTestTraces runs the repository's own tests with the VERIF_TRACE tracer on (build tag verif)
// and converts every recorded Schedule call into an execution for SchedTrace.tla: the executions
// the existing tests already drive, judged by the specification's invariants at every step
// (DESIGN.md 3.5). Executions outside the trace spec's shape (more than one nested pipeline, a
// graph scheduled again after it finished) are skipped and counted.
func RepoTestTraces(env *core.Env) (byN map[int][][]Event, total, skipped int, note string) {
	byN = map[int][][]Event{}
	dir := env.Sub("repotrace")
	cmd := exec.Command("go", "test", "-tags", "verif", "-count=1", "-timeout", "180s", "./pkg/scheduler", "./cmd/taskctl", "./internal/config", "./pkg/runner")
	cmd.Dir = env.RepoDir
	goenv := func(k string) string {
		b, _ := exec.Command("go", "env", k).Output()
		return strings.TrimSpace(string(b))
	}
	// a private HOME for the tests (they write ~/.taskctl), but the real module and build caches
	cmd.Env = append(os.Environ(), "VERIF_TRACE="+dir, "GOFLAGS=-mod=mod", "GOPROXY=off", "GOSUMDB=off", "GOTOOLCHAIN=local",
		"GOMODCACHE="+goenv("GOMODCACHE"), "GOCACHE="+goenv("GOCACHE"), "GOPATH="+goenv("GOPATH"), "HOME="+env.Sub("rthome"))
	done := make(chan struct{})
	var out []byte
	go func() { out, _ = cmd.CombinedOutput(); close(done) }()
	select {
	case <-done:
	case <-time.After(6 * time.Minute):
		if cmd.Process != nil {
			_ = cmd.Process.Kill()
		}
		<-done
	}
	files, _ := filepath.Glob(filepath.Join(dir, "trace-*.ndjson"))
	if len(files) == 0 {
		return byN, 0, 0, "the repository's tests left no trace (" + lastLine(string(out)) + ")"
	}
	for _, f := range files {
		fh, err := os.Open(f)
		if err != nil {
			continue
		}
		var evs []map[string]interface{}
		sc := bufio.NewScanner(fh)
		sc.Buffer(make([]byte, 1<<20), 1<<24)
		for sc.Scan() {
			var e map[string]interface{}
			if json.Unmarshal(sc.Bytes(), &e) == nil {
				evs = append(evs, e)
			}
		}
		fh.Close()
		ex, sk := convertRepoTrace(evs)
		skipped += sk
		for _, e := range ex {
			n := toInt(e[0]["n"])
			byN[n] = append(byN[n], e)
			total++
		}
	}
	_ = ioutil.WriteFile(filepath.Join(dir, "gotest.out"), out, 0o644)
	return byN, total, skipped, ""
}

func lastLine(s string) string {
	ls := strings.Split(strings.TrimSpace(s), "\n")
	return ls[len(ls)-1]
}

type rtStage struct {
	name     string
	deps     []string
	allow    bool
	cond     bool
	pipeline int
	graph    int
}

// convertRepoTrace splits one process's event list into executions (one per root Schedule call).
func convertRepoTrace(evs []map[string]interface{}) (out [][]Event, skipped int) {
	// index schedule calls
	type call struct {
		g          int
		start, end int
		stages     []rtStage
		dirty      bool
	}
	var calls []call
	open := map[int]int{} // graph -> index in calls
	for i, e := range evs {
		switch e["e"] {
		case "sched-enter":
			c := call{g: toInt(e["g"]), start: i, end: -1}
			for _, s := range e["stages"].([]interface{}) {
				m := s.(map[string]interface{})
				st := rtStage{name: m["name"].(string), allow: m["allow"].(bool), cond: m["cond"].(bool), pipeline: toInt(m["pipeline"]), graph: c.g}
				if d, ok := m["deps"].([]interface{}); ok {
					for _, x := range d {
						st.deps = append(st.deps, x.(string))
					}
				}
				if toInt(m["status"]) != 0 {
					c.dirty = true
				}
				c.stages = append(c.stages, st)
			}
			calls = append(calls, c)
			open[c.g] = len(calls) - 1
		case "sched-exit":
			if k, ok := open[toInt(e["g"])]; ok {
				calls[k].end = i
				delete(open, toInt(e["g"]))
			}
		}
	}
	nestedOf := map[int]bool{}
	for _, c := range calls {
		for _, s := range c.stages {
			if s.pipeline != 0 {
				nestedOf[s.pipeline] = true
			}
		}
	}
	for _, c := range calls {
		if nestedOf[c.g] || c.end < 0 {
			if c.end < 0 && !nestedOf[c.g] {
				skipped++
			}
			continue // nested calls are part of their parent's execution
		}
		// the nested pipeline, if any
		var parent *rtStage
		nNested := 0
		for k := range c.stages {
			if c.stages[k].pipeline != 0 {
				nNested++
				parent = &c.stages[k]
			}
		}
		if c.dirty || nNested > 1 {
			skipped++
			continue
		}
		all := append([]rtStage{}, c.stages...)
		innerG := 0
		if parent != nil {
			innerG = parent.pipeline
			found := false
			for _, ic := range calls {
				if ic.g == innerG && ic.start > c.start && ic.start < c.end {
					if ic.dirty {
						found = false
						break
					}
					for _, s := range ic.stages {
						if s.pipeline != 0 {
							found = false
							nNested = 99
						}
					}
					all = append(all, ic.stages...)
					found = true
					break
				}
			}
			if nNested == 99 {
				skipped++
				continue
			}
			if !found {
				// the parent stage never ran: describe the nested graph from any of its calls
				for _, ic := range calls {
					if ic.g == innerG {
						all = append(all, ic.stages...)
						found = true
						break
					}
				}
				if !found {
					skipped++
					continue
				}
			}
		}
		if len(all) < 1 || len(all) > 8 {
			skipped++
			continue
		}
		// canonical numbering: topological within each graph
		key := func(s rtStage) string { return fmt.Sprintf("%d/%s", s.graph, s.name) }
		id := map[string]int{}
		remaining := append([]rtStage{}, all...)
		sort.Slice(remaining, func(i, j int) bool { return key(remaining[i]) < key(remaining[j]) })
		for len(remaining) > 0 {
			progressed := false
			for k, s := range remaining {
				ready := true
				for _, d := range s.deps {
					if _, ok := id[fmt.Sprintf("%d/%s", s.graph, d)]; !ok {
						ready = false
					}
				}
				if ready {
					id[key(s)] = len(id) + 1
					remaining = append(remaining[:k], remaining[k+1:]...)
					progressed = true
					break
				}
			}
			if !progressed {
				break
			}
		}
		if len(id) != len(all) {
			skipped++ // dangling dependency or cycle: not a well-formed graph
			continue
		}
		n := len(all)
		deps := make([][]int, n)
		cls := make([]string, n)
		inner := []int{}
		parentID := 0
		byID := map[int]rtStage{}
		for _, s := range all {
			i := id[key(s)]
			byID[i] = s
			deps[i-1] = []int{}
			for _, d := range s.deps {
				deps[i-1] = append(deps[i-1], id[fmt.Sprintf("%d/%s", s.graph, d)])
			}
			sort.Ints(deps[i-1])
			cls[i-1] = "OK"
			if s.graph == innerG && innerG != 0 {
				inner = append(inner, i)
			}
			if parent != nil && s.graph == c.g && s.name == parent.name {
				parentID = i
			}
		}
		sort.Ints(inner)
		// events of this execution
		status := make([]string, n)
		for i := range status {
			status[i] = "W"
		}
		entered := map[int]bool{}
		var body []Event
		letter := map[int]string{0: "W", 1: "R", 2: "S", 3: "D", 4: "E", 5: "C"}
		usable := true
		for _, e := range evs[c.start+1 : c.end] {
			g := toInt(e["g"])
			if g != c.g && g != innerG {
				continue
			}
			name, _ := e["s"].(string)
			i := id[fmt.Sprintf("%d/%s", g, name)]
			switch e["e"] {
			case "st":
				if i == 0 {
					usable = false
					continue
				}
				v := letter[toInt(e["v"])]
				// classes: what the stage's task / condition did in this execution
				if !entered[i] && i != parentID && byID[i].cond && status[i-1] == "W" {
					if v == "S" {
						cls[i-1] = "CFALSE"
					} else if v == "E" {
						cls[i-1] = "CERR"
					}
				}
				status[i-1] = v
				body = append(body, Event{"e": "st", "s": i, "v": v})
			case "enter":
				if i != 0 && i != parentID {
					entered[i] = true
					body = append(body, Event{"e": "enter", "s": i})
				}
			case "ret":
				if i != 0 && i != parentID {
					failed := e["failed"].(bool)
					if failed {
						cls[i-1] = "FAIL"
						if byID[i].allow {
							cls[i-1] = "FAILA"
						}
					}
					body = append(body, Event{"e": "ret", "s": i, "failed": failed})
				}
			case "cancel":
				body = append(body, Event{"e": "cancel"})
			}
		}
		if !usable {
			skipped++
			continue
		}
		if parentID != 0 && byID[parentID].allow {
			cls[parentID-1] = "FAILA"
		}
		cfg := Event{"e": "cfg", "n": n, "deps": deps, "cls": cls, "parent": parentID, "inner": inner}
		ex := append([]Event{cfg}, body...)
		ex = append(ex, Event{"e": "done", "err": evs[c.end]["err"], "final": status})
		out = append(out, ex)
	}
	return
}
