package sched

import (
	"fmt"
	"sync/atomic"
	"time"

	"github.com/taskctl/taskctl/pkg/scheduler"
	"github.com/taskctl/taskctl/pkg/task"

	"verif/harness/internal/core"
)

type countingRunner struct{ n *int32 }

func (c countingRunner) Run(t *task.Task) error {
	atomic.AddInt32(c.n, 1)
	time.Sleep(200 * time.Microsecond)
	if t.Name == "fails" {
		return fmt.Errorf("task %s failed", t.Name)
	}
	return nil
}
func (c countingRunner) Cancel() {}
func (c countingRunner) Finish() {}

type gatedRunner struct {
	gate    chan struct{}
	started chan struct{}
}

func (g gatedRunner) Run(t *task.Task) error {
	select {
	case g.started <- struct{}{}:
	default:
	}
	<-g.gate
	return nil
}
func (g gatedRunner) Cancel() {}
func (g gatedRunner) Finish() {}

// DoubleInclusion: one pipeline included by two or three stages that become ready in the same
// pass: the nested Schedule calls run over ONE graph object at the same time (the interleavings
// of Taskctl.tla's Visit steps of two live loops). With a pause of 10 us the loops collide often
// enough that a launch decision that is not atomic shows within a few thousand runs. Every stage
// of the included pipeline must be handed to the Runner exactly once.
func DoubleInclusion(env *core.Env, rep *core.Report, iters int) int {
	bad, badAt := 0, -1
	var got int32
	for i := 0; i < iters; i++ {
		var n int32
		inner, err := scheduler.NewExecutionGraph(
			&scheduler.Stage{Name: "u1", Task: task.FromCommands("true")},
			&scheduler.Stage{Name: "u2", Task: task.FromCommands("true"), DependsOn: []string{"u1"}})
		if err != nil {
			core.Broken("graph: %v", err)
		}
		includers := []*scheduler.Stage{{Name: "a", Pipeline: inner}, {Name: "b", Pipeline: inner}}
		if i%2 == 1 {
			includers = append(includers, &scheduler.Stage{Name: "c", Pipeline: inner})
		}
		outer, err := scheduler.NewExecutionGraph(includers...)
		if err != nil {
			core.Broken("graph: %v", err)
		}
		s := scheduler.NewScheduler(countingRunner{&n})
		s.VerifSetPause(10 * time.Microsecond)
		done := make(chan error, 1)
		go func() { done <- s.Schedule(outer) }()
		select {
		case <-done:
		case <-time.After(20 * time.Second):
			rep.Add(core.Finding{Prop: "C03", Key: "C03:doubly-included-pipeline:schedule-does-not-return", What: "a pipeline included by several stages: Schedule did not return within 20 s", Detail: nil})
			return i
		}
		if n != 2 {
			bad++
			if badAt < 0 {
				badAt, got = i, n
			}
		}
	}
	// C02: the included pipeline fails: EVERY including stage fails (whichever nested loop happened
	// to start the failing stage), dependants of the including stages are cancelled, the run errs
	for k := 0; k < iters/10; k++ {
		var n int32
		ft := task.FromCommands("false")
		ft.Name = "fails"
		inner, _ := scheduler.NewExecutionGraph(
			&scheduler.Stage{Name: "u1", Task: task.FromCommands("true")},
			&scheduler.Stage{Name: "u2", Task: ft})
		a := &scheduler.Stage{Name: "a", Pipeline: inner}
		b := &scheduler.Stage{Name: "b", Pipeline: inner}
		da := &scheduler.Stage{Name: "da", Task: task.FromCommands("true"), DependsOn: []string{"a"}}
		db := &scheduler.Stage{Name: "db", Task: task.FromCommands("true"), DependsOn: []string{"b"}}
		outer, err := scheduler.NewExecutionGraph(a, b, da, db)
		if err != nil {
			core.Broken("graph: %v", err)
		}
		s := scheduler.NewScheduler(countingRunner{&n})
		s.VerifSetPause(10 * time.Microsecond)
		done := make(chan error, 1)
		go func() { done <- s.Schedule(outer) }()
		var serr error
		select {
		case serr = <-done:
		case <-time.After(20 * time.Second):
			rep.Add(core.Finding{Prop: "C03", Key: "C03:doubly-included-pipeline:schedule-does-not-return", What: "a failing pipeline included by two stages: Schedule did not return within 20 s", Detail: nil})
			return k
		}
		st := fmt.Sprintf("a=%s b=%s da=%s db=%s", statusName[a.ReadStatus()], statusName[b.ReadStatus()], statusName[da.ReadStatus()], statusName[db.ReadStatus()])
		if serr == nil || st != "a=E b=E da=C db=C" {
			rep.Add(core.Finding{Prop: "C02", Key: "C02:doubly-included-pipeline:failure-seen-by-one-including-stage-only",
				What:   fmt.Sprintf("a pipeline with a failing stage included by stages a and b (each with a dependant): run %d ended with %s, error %v; expected a=E b=E da=C db=C and an error", k, st, serr),
				Detail: nil})
			break
		}
	}
	// C02, the same at a chosen moment: the goroutine of the failing stage is held right after its
	// Error status has become visible (where the Go scheduler may equally suspend it), until the
	// nested loop that did NOT start that stage has returned. That loop has seen every stage of the
	// pipeline terminal; it must nevertheless return the pipeline's failure.
	for k := 0; k < 3; k++ {
		var n int32
		ft := task.FromCommands("false")
		ft.Name = "fails"
		u2 := &scheduler.Stage{Name: "u2", Task: ft}
		inner, _ := scheduler.NewExecutionGraph(&scheduler.Stage{Name: "u1", Task: task.FromCommands("true")}, u2)
		a := &scheduler.Stage{Name: "a", Pipeline: inner}
		b := &scheduler.Stage{Name: "b", Pipeline: inner}
		da := &scheduler.Stage{Name: "da", Task: task.FromCommands("true"), DependsOn: []string{"a"}}
		db := &scheduler.Stage{Name: "db", Task: task.FromCommands("true"), DependsOn: []string{"b"}}
		outer, err := scheduler.NewExecutionGraph(a, b, da, db)
		if err != nil {
			core.Broken("graph: %v", err)
		}
		var bothIn int32
		scheduler.VerifStatusStoredHook = func(st *scheduler.Stage, status int32) {
			if st != u2 || status != scheduler.StatusError {
				return
			}
			if a.ReadStatus() == scheduler.StatusRunning && b.ReadStatus() == scheduler.StatusRunning {
				atomic.StoreInt32(&bothIn, 1)
			}
			// wait until one of the including stages is over (the one whose loop did not start u2 can
			// get there; the other waits for this goroutine), at most 2 s
			lim := time.Now().Add(2 * time.Second)
			for time.Now().Before(lim) && a.ReadStatus() == scheduler.StatusRunning && b.ReadStatus() == scheduler.StatusRunning {
				time.Sleep(200 * time.Microsecond)
			}
		}
		s := scheduler.NewScheduler(countingRunner{&n})
		s.VerifSetPause(100 * time.Microsecond)
		done := make(chan error, 1)
		go func() { done <- s.Schedule(outer) }()
		var serr error
		select {
		case serr = <-done:
		case <-time.After(20 * time.Second):
			scheduler.VerifStatusStoredHook = nil
			rep.Add(core.Finding{Prop: "C03", Key: "C03:doubly-included-pipeline:schedule-does-not-return", What: "a failing pipeline included by two stages (failing goroutine held after its status store): Schedule did not return within 20 s", Detail: nil})
			return iters
		}
		scheduler.VerifStatusStoredHook = nil
		st := fmt.Sprintf("a=%s b=%s da=%s db=%s", statusName[a.ReadStatus()], statusName[b.ReadStatus()], statusName[da.ReadStatus()], statusName[db.ReadStatus()])
		if atomic.LoadInt32(&bothIn) == 1 && (serr == nil || st != "a=E b=E da=C db=C") {
			rep.Add(core.Finding{Prop: "C02", Key: "C02:doubly-included-pipeline:failure-missed-by-the-loop-that-did-not-start-the-failing-stage",
				What:   fmt.Sprintf("a pipeline with a failing stage included by stages a and b (each with a dependant); the failing stage's goroutine is suspended right after its Error status became visible until an including stage is over: ended with %s, error %v; expected a=E b=E da=C db=C and an error", st, serr),
				Detail: nil})
			break
		}
	}
	// C04: two stages that include the same pipeline and are eligible together both run (both are
	// Running while the pipeline's task is in flight); neither waits for the other to be over
	for k := 0; k < 5; k++ {
		gate := make(chan struct{})
		started := make(chan struct{}, 4)
		inner, _ := scheduler.NewExecutionGraph(&scheduler.Stage{Name: "u1", Task: task.FromCommands("true")})
		a, b := &scheduler.Stage{Name: "a", Pipeline: inner}, &scheduler.Stage{Name: "b", Pipeline: inner}
		outer, err := scheduler.NewExecutionGraph(a, b)
		if err != nil {
			core.Broken("graph: %v", err)
		}
		s := scheduler.NewScheduler(gatedRunner{gate, started})
		s.VerifSetPause(time.Millisecond)
		done := make(chan error, 1)
		go func() { done <- s.Schedule(outer) }()
		select {
		case <-started:
		case <-time.After(10 * time.Second):
		}
		both := false
		lim := time.Now().Add(3 * time.Second)
		for time.Now().Before(lim) && !both {
			both = a.ReadStatus() == scheduler.StatusRunning && b.ReadStatus() == scheduler.StatusRunning
			time.Sleep(time.Millisecond)
		}
		sa, sb := statusName[a.ReadStatus()], statusName[b.ReadStatus()]
		close(gate)
		select {
		case <-done:
		case <-time.After(20 * time.Second):
		}
		if !both {
			rep.Add(core.Finding{Prop: "C04", Key: "C04:doubly-included-pipeline:including-stages-do-not-run-together",
				What:   fmt.Sprintf("two stages without dependencies include the same pipeline: while its task was in flight (3 s) they were %s and %s, not both Running", sa, sb),
				Detail: nil})
			break
		}
	}
	if bad > 0 {
		rep.Add(core.Finding{Prop: "C03", Key: "C03:doubly-included-pipeline:stage-not-run-exactly-once",
			What:   fmt.Sprintf("a two-stage pipeline included by 2..3 stages that start together: in %d of %d runs its tasks were handed to the Runner a number of times other than 2 (first: run %d, %d times)", bad, iters, badAt, got),
			Detail: map[string]interface{}{"bad_runs": bad, "runs": iters}})
	}
	return iters
}
