// Package layers binds Layers.tla, Args.tla and Stages.tla (C08, C09, C10) to the taskctl
// binary and to the scheduler API.
package layers

import (
	"encoding/json"
	"fmt"
	"io/ioutil"
	"os"
	"path/filepath"
	"sort"
	"strings"
	"sync"
	"sync/atomic"
	"time"

	"github.com/sirupsen/logrus"
	"github.com/taskctl/taskctl/pkg/scheduler"
	"github.com/taskctl/taskctl/pkg/task"
	"github.com/taskctl/taskctl/pkg/variables"

	"verif/harness/internal/core"
)

func init() { logrus.SetOutput(ioutil.Discard) }

type layRow struct {
	Kind   string `json:"kind"`
	Defs   []int  `json:"defs"`
	Ord    string `json:"ord"`
	Mode   string `json:"mode"`
	Expect int    `json:"expect"`
	Later  int    `json:"later"`
	Top    int    `json:"top"`
	Empty  int    `json:"empty"` // the level that gives the name the empty value (value order "empty"), else 0
}

// emptyVal is Layers.tla's Empty: the empty string as a value
const emptyVal = 100

// str is the concrete text of the model's value x
func vstr(x int, tail string) string {
	if x == emptyVal {
		return ""
	}
	return fmt.Sprintf("v%d%s", x, tail)
}

func (r layRow) has(l int) bool {
	for _, d := range r.Defs {
		if d == l {
			return true
		}
	}
	return false
}
func (r layRow) val(l int) int {
	if l == r.Empty {
		return emptyVal
	}
	if r.Ord == "desc" {
		return r.Top + 1 - l
	}
	return l
}

type eng struct {
	formShift int
	env       *core.Env
	rep       *core.Report
	samples   *core.Samples
	mu        sync.Mutex
	model     []map[string]interface{}
	home      string
}

func (e *eng) note(name string, r *core.TLCResult, what string) {
	e.mu.Lock()
	e.model = append(e.model, map[string]interface{}{"config": name, "generated": r.Generated, "distinct": r.Distinct, "wall_s": r.Wall.Seconds(), "result": what})
	e.mu.Unlock()
}

func (e *eng) modelRows() []layRow {
	var rows []layRow
	var wg sync.WaitGroup
	wg.Add(6)
	go func() {
		defer wg.Done()
		r := core.MustFail(e.env, core.TLCOpts{Module: "Layers", Config: "Layers_emptyyields.cfg", Workers: 1})
		e.note("Layers_emptyyields", r, "negative control (a merge in which an empty value yields to the value underneath): "+r.Violated+" violated")
	}()
	go func() {
		defer wg.Done()
		r := core.MustFail(e.env, core.TLCOpts{Module: "Layers", Config: "Layers_accumulate.cfg", Workers: 1})
		e.note("Layers_accumulate", r, "negative control (a variation's values leak into later variations): "+r.Violated+" violated")
	}()
	go func() {
		defer wg.Done()
		r := core.MustHold(e.env, core.TLCOpts{Module: "LayersGen", Config: "LayersGen.cfg", Workers: 1})
		for _, p := range r.Tagged("LAY") {
			var x layRow
			if err := json.Unmarshal([]byte(p), &x); err != nil {
				core.Broken("LayersGen: %v", err)
			}
			rows = append(rows, x)
		}
		e.note("LayersGen", r, fmt.Sprintf("%d cases; ImplEqualsResolve holds (the code's chain of merges = highest defining level)", len(rows)))
	}()
	go func() {
		defer wg.Done()
		r := core.MustHold(e.env, core.TLCOpts{Module: "Layers", Config: "Layers_ok.cfg", Workers: 1})
		e.note("Layers_ok", r, "ImplEqualsResolve holds for env (63 subsets), variables (15) x 3 value orders (ascending, descending, the winner empty) and dir (8) x 2 orders, x 2 modes")
	}()
	go func() {
		defer wg.Done()
		r := core.MustFail(e.env, core.TLCOpts{Module: "Layers", Config: "Layers_pinnedenv.cfg", Workers: 1})
		e.note("Layers_pinnedenv", r, "negative control (sort-based de-duplication): "+r.Violated+" violated")
	}()
	go func() {
		defer wg.Done()
		r := core.MustFail(e.env, core.TLCOpts{Module: "Layers", Config: "Layers_pinnedvars.cfg", Workers: 1})
		e.note("Layers_pinnedvars", r, "negative control (configuration variables dropped / stage variables replace): "+r.Violated+" violated")
	}()
	wg.Wait()
	if len(rows) != 500 {
		core.Broken("LayersGen emitted %d rows, expected 500", len(rows))
	}
	return rows
}

// yq quotes a YAML scalar.
func yq(s string) string {
	return "\"" + strings.ReplaceAll(strings.ReplaceAll(s, "\\", "\\\\"), "\"", "\\\"") + "\""
}

func (e *eng) run(dir string, extraEnv []string, args ...string) *core.BinResult {
	return core.RunBin(dir, append(core.CleanEnv(e.home), extraEnv...), 30*time.Second, "", e.env.Taskctl, args...)
}

func lines(s string) []string {
	var out []string
	for _, l := range strings.Split(s, "\n") {
		l = strings.TrimRight(l, "\r")
		if l != "" {
			out = append(out, l)
		}
	}
	return out
}

func find(out, prefix string) (string, bool) {
	for _, l := range lines(out) {
		if i := strings.Index(l, prefix); i >= 0 {
			return l[i+len(prefix):], true
		}
	}
	return "", false
}

// ---------------------------------------------------------------------------
// C09 environment

func (e *eng) envCase(r layRow, i int) {
	d := e.env.Sub("env")
	// "regardless of the values involved": in the model's third value order the winning level's value
	// is the empty string (a lower level's value must not show through it)
	v := func(l int) string { return vstr(r.val(l), "") }
	var y strings.Builder
	// the context's VARIABLES are not environment: with or without a context env level the task runs
	// in a context whose variables name X and UNTOUCHED (every other row)
	ctxVars := ""
	if i%2 == 0 {
		ctxVars = "    variables:\n      X: from-context-variables\n      UNTOUCHED: from-context-variables\n"
	}
	if r.has(2) {
		fmt.Fprintf(&y, "contexts:\n  ctx:\n    env:\n      X: %s\n%s", yq(v(2)), ctxVars)
	} else if ctxVars != "" {
		y.WriteString("contexts:\n  ctx:\n" + ctxVars)
	}
	y.WriteString("tasks:\n  t:\n")
	if r.has(2) || ctxVars != "" {
		y.WriteString("    context: ctx\n")
	}
	if r.has(3) {
		// (every other row: the last line of the file is not terminated)
		_ = ioutil.WriteFile(filepath.Join(d, "x.env"), []byte("OTHER=1\nX="+v(3)+map[bool]string{true: "\n", false: ""}[i%2 == 0]), 0o644)
		y.WriteString("    env_file: x.env\n")
	}
	if r.has(4) {
		fmt.Fprintf(&y, "    env:\n      X: %s\n", yq(v(4)))
	}
	if r.has(6) {
		// the second variation does not define X: it must see the lower levels only
		fmt.Fprintf(&y, "    variations:\n      - X: %s\n        VN: \"1\"\n      - VN: \"2\"\n", yq(v(6)))
	} else {
		y.WriteString("    variations:\n      - VN: \"1\"\n")
	}
	y.WriteString("    command:\n      - echo \"OBS$VN X=[$X] T=[$TASK_NAME] U=[$UNTOUCHED] lx=[$x] ltn=[$task_name] px=[$(printenv X)] pw=[$(printenv PWD)]\"\n")
	// the stage is named differently from its task in every other row: TASK_NAME stays the task's name
	if r.Ord == "asc" {
		y.WriteString("pipelines:\n  p:\n    - name: stage-one\n      task: t\n")
	} else {
		y.WriteString("pipelines:\n  p:\n    - task: t\n")
	}
	if r.has(5) {
		fmt.Fprintf(&y, "      env:\n        X: %s\n", yq(v(5)))
	}
	_ = ioutil.WriteFile(filepath.Join(d, "tasks.yaml"), []byte(y.String()), 0o644)
	extra := []string{"UNTOUCHED=pass=through=x", "X="}
	if r.has(1) {
		extra = []string{"UNTOUCHED=pass=through=x", "X=" + v(1)}
	} else {
		extra = []string{"UNTOUCHED=pass=through=x"}
	}
	target := "t"
	if r.Mode == "stage" {
		target = "p"
	}
	// names are case-sensitive: parent variables that differ from X / TASK_NAME only in case are other
	// variables and pass through like any
	extra = append(extra, "x=lower-x", "task_name=lower-tn", "PWD=/parent/says/pwd") // (PWD: a name like any other for a started program)
	// make sure X is not inherited from the harness's own environment
	os.Unsetenv("X")
	res := e.run(d, extra, "--raw", target)
	want := ""
	if r.Expect != 0 {
		want = vstr(r.Expect, "")
	}
	detail := map[string]interface{}{"yaml": y.String(), "parent_env": extra, "target": target, "stdout": res.Stdout, "stderr": tailS(res.Stderr, 500), "exit": res.Exit, "model": r}
	add := func(kind, what string) {
		e.rep.Add(core.Finding{Prop: "C09", Key: "C09:env:" + kind, What: what + fmt.Sprintf(" [levels defining X: %v, values %s, run as %s]", r.Defs, r.Ord, r.Mode), Detail: detail})
	}
	if res.Crashed() || res.TimedOut || res.Exit != 0 {
		add("run-failed", fmt.Sprintf("taskctl exit %d", res.Exit))
		return
	}
	obs, ok := find(res.Stdout, "OBS1 ")
	if !ok {
		add("no-output", "the command printed nothing")
		return
	}
	if r.has(6) {
		wantLater := ""
		if r.Later != 0 {
			wantLater = vstr(r.Later, "")
		}
		obs2, _ := find(res.Stdout, "OBS2 ")
		if w2 := fmt.Sprintf("X=[%s] T=[t] U=[pass=through=x] lx=[lower-x] ltn=[lower-tn] px=[%s] pw=[/parent/says/pwd]", wantLater, wantLater); obs2 != w2 {
			add("value-of-an-earlier-variation-visible", fmt.Sprintf("in the second variation (which does not define X) the command saw %q, model %q", obs2, w2))
		}
	}
	wantLine := fmt.Sprintf("X=[%s] T=[t] U=[pass=through=x] lx=[lower-x] ltn=[lower-tn] px=[%s] pw=[/parent/says/pwd]", want, want)
	if obs != wantLine {
		kind := "wrong-level-wins"
		if !strings.Contains(obs, "T=[t]") {
			kind = "task-name-missing"
		} else if !strings.Contains(obs, "U=[pass=through=x] lx=[lower-x] ltn=[lower-tn]") {
			kind = "parent-variable-not-passed-through"
		}
		add(kind, fmt.Sprintf("command saw %q, model %q", obs, wantLine))
	}
	if i%50 == 3 {
		e.samples.Add(map[string]interface{}{"kind": "env", "defs": r.Defs, "order": r.Ord, "mode": r.Mode, "expected": wantLine})
	}
}

// ---------------------------------------------------------------------------
// C09 dir

func (e *eng) dirCase(r layRow, sub bool) {
	d := e.env.Sub("dir")
	d, _ = filepath.EvalSymlinks(d)
	for _, x := range []string{"d_ctx", "d_task", "d_stage", "sub"} {
		_ = os.MkdirAll(filepath.Join(d, x), 0o755)
	}
	var y strings.Builder
	noCtx := !r.has(1) && sub // no context at all: the default context, which has no dir
	if r.has(1) {
		fmt.Fprintf(&y, "contexts:\n  ctx:\n    dir: %s\n", yq(filepath.Join(d, "d_ctx")))
	} else if !noCtx {
		y.WriteString("contexts:\n  ctx:\n    env:\n      Q: \"1\"\n")
	}
	y.WriteString("tasks:\n  t:\n")
	if !noCtx {
		y.WriteString("    context: ctx\n")
	}
	if r.has(2) {
		if sub {
			y.WriteString("    dir: \"{{.Root}}/d_task\"\n")
		} else {
			// relative to where taskctl is started (the project root here): it replaces the context's
			// dir, it is not interpreted relative to it
			y.WriteString("    dir: d_task\n")
		}
	}
	// an earlier command that changes directory must not move the later ones
	y.WriteString("    before:\n      - cd / && echo moved\n      - echo \"OBS before=[$(/bin/pwd)]\"\n    command:\n      - cd / && echo moved\n      - echo \"OBS command=[$(/bin/pwd)]\"\n    after:\n      - cd / && echo moved\n      - echo \"OBS after=[$(/bin/pwd)]\"\n")
	// a second task with a dir of its own runs after t in the pipeline: its hooks, its condition and its
	// commands see their own directory (the shell's idea of it and the real one), whatever ran before
	du := filepath.Join(d, "d_u")
	_ = os.MkdirAll(du, 0o755)
	obs2 := func(pos string) string {
		return fmt.Sprintf("      - echo \"OBS2 %s=[$(pwd)|$PWD|$(/bin/pwd)]\"\n", pos)
	}
	fmt.Fprintf(&y, "  u:\n    dir: %s\n    condition: '[ \"$(pwd)\" = \"%s\" ]'\n    before:\n%s    command:\n%s    after:\n%s", yq(du), du, obs2("before"), obs2("command"), obs2("after"))
	// (the stage has a condition: it is evaluated where taskctl runs, whatever the stage's dir is)
	y.WriteString("pipelines:\n  p:\n    - task: u\n      depends_on: [t]\n    - task: t\n      condition: \"true\"\n")
	if r.has(3) {
		if sub {
			// written as a template (like the task's): a stage dir replaces the task's dir, it is
			// not interpreted relative to it
			y.WriteString("      dir: \"{{.Root}}/d_stage\"\n")
		} else {
			fmt.Fprintf(&y, "      dir: %s\n", yq(filepath.Join(d, "d_stage")))
		}
	}
	_ = ioutil.WriteFile(filepath.Join(d, "tasks.yaml"), []byte(y.String()), 0o644)
	start := d
	if sub {
		start = filepath.Join(d, "sub")
	}
	target := "t"
	if r.Mode == "stage" {
		target = "p"
	}
	res := e.run(start, nil, "--raw", target)
	want := start
	switch r.Expect {
	case 1:
		want = filepath.Join(d, "d_ctx")
	case 2:
		want = filepath.Join(d, "d_task")
	case 3:
		want = filepath.Join(d, "d_stage")
	}
	detail := map[string]interface{}{"yaml": y.String(), "started_in": start, "target": target, "stdout": res.Stdout, "stderr": tailS(res.Stderr, 500), "exit": res.Exit, "model": r}
	add := func(kind, what string) {
		e.rep.Add(core.Finding{Prop: "C09", Key: "C09:dir:" + kind, What: what + fmt.Sprintf(" [dir given at levels %v (1 context, 2 task, 3 stage), run as %s, started in sub-directory=%v]", r.Defs, r.Mode, sub), Detail: detail})
	}
	if res.Crashed() || res.TimedOut || res.Exit != 0 {
		add("run-failed", fmt.Sprintf("taskctl exit %d: %s", res.Exit, firstLine(res.Stderr)))
		return
	}
	for _, pos := range []string{"before", "command", "after"} {
		got, ok := find(res.Stdout, "OBS "+pos+"=[")
		got = strings.TrimSuffix(got, "]")
		if !ok || got != want {
			add("wrong-directory:"+pos, fmt.Sprintf("%s ran in %q, model %q", pos, got, want))
		}
	}
	if target == "p" {
		for _, pos := range []string{"before", "command", "after"} {
			got, ok := find(res.Stdout, "OBS2 "+pos+"=[")
			got = strings.TrimSuffix(got, "]")
			if w2 := du + "|" + du + "|" + du; !ok || got != w2 {
				add("wrong-directory:second-task:"+pos, fmt.Sprintf("%s of the task that runs second (dir %s; shell pwd|$PWD|real) ran in %q", pos, du, got))
			}
		}
	}
}

// ---------------------------------------------------------------------------
// C10 variables

// values carry characters that a mark-up aware template engine would rewrite
const varTail = "+&<>'x"

func (e *eng) varCase(r layRow, i int) {
	d := e.env.Sub("var")
	// a variable defined with the empty value is defined: in the model's third value order the winner's
	// value is the empty string (a lower level's value must not show through it)
	vs := func(x int) string { return vstr(x, varTail) }
	v := func(l int) string { return vs(r.val(l)) }
	var y strings.Builder
	if r.has(1) {
		fmt.Fprintf(&y, "variables:\n  w: %s\n", yq(v(1)))
	}
	if i%2 == 1 {
		// the task runs in a named context that has variables of its own: those are for the context's
		// own commands and take no part in the precedence of the task's variables
		y.WriteString("contexts:\n  cx:\n    variables:\n      w: vctx\n      Root: rctx\n")
	}
	y.WriteString("tasks:\n  t:\n")
	if i%2 == 1 {
		y.WriteString("    context: cx\n")
	}
	if r.has(3) {
		fmt.Fprintf(&y, "    variables:\n      w: %s\n", yq(v(3)))
	}
	// the task's hooks resolve the variable like its commands do
	y.WriteString("    before:\n      - echo \"HOOKB w=[{{.w}}]\"\n    after:\n      - echo \"HOOKA w=[{{.w}}]\"\n")
	fmt.Fprintf(&y, "    command:\n      - echo first >> %s\n      - echo \"OBS w=[{{.w}}] root=[{{.Root}}] tmp=[{{.TempDir}}] args=[{{.Args}}] list={{.ArgsList}} o=[{{.other}}] e=[{{.emp}}] tk=[{{.Task}}]\"\n", filepath.Join(d, "trace"))
	y.WriteString("pipelines:\n  p:\n    - task: t\n")
	if r.has(4) {
		fmt.Fprintf(&y, "      variables:\n        w: %s\n", yq(v(4)))
	}
	_ = ioutil.WriteFile(filepath.Join(d, "tasks.yaml"), []byte(y.String()), 0o644)
	args := []string{"--raw"}
	if r.has(2) {
		args = append(args, "--set", "w="+v(2))
	}
	// one --set is one assignment, whatever its value contains (commas, further NAME= pairs, '=')
	args = append(args, "--set", "other=a,w=hijacked=1", "--set", "emp=") // (and an assignment of the empty value)
	// a user variable may be called like the first segment of a built-in dotted name (Task.Name, ...)
	args = append(args, "--set", "Task=user-variable-called-Task")
	if r.Mode == "stage" {
		// the pipeline, then a direct run of the same task: the stage's variables must be gone
		args = append(args, "p", "t")
	} else {
		args = append(args, "t")
	}
	startIn := d
	if i%3 == 2 {
		// started in a sub-directory, the configuration found by its default name further up: Root is
		// the configuration's directory, not the directory taskctl was started in
		startIn = filepath.Join(d, "started", "here")
		_ = os.MkdirAll(startIn, 0o755)
	}
	res := e.run(startIn, nil, args...)
	dd, _ := filepath.EvalSymlinks(d)
	detail := map[string]interface{}{"yaml": y.String(), "args": args, "stdout": res.Stdout, "stderr": tailS(res.Stderr, 500), "exit": res.Exit, "model": r}
	add := func(kind, what string) {
		e.rep.Add(core.Finding{Prop: "C10", Key: "C10:var:" + kind, What: what + fmt.Sprintf(" [levels defining w: %v (1 config, 2 --set, 3 task, 4 stage), values %s, run as %s]", r.Defs, r.Ord, r.Mode), Detail: detail})
	}
	if res.Crashed() || res.TimedOut {
		add("crash", "taskctl crashed or hung")
		return
	}
	var obsAll []string
	for _, l := range lines(res.Stdout) {
		if k := strings.Index(l, "OBS "); k >= 0 {
			obsAll = append(obsAll, l[k+4:])
		}
	}
	line := func(x int) string {
		return fmt.Sprintf("w=[%s] root=[%s] tmp=[%s] args=[] list=[] o=[a,w=hijacked=1] e=[] tk=[user-variable-called-Task]", vs(x), dd, os.TempDir())
	}
	var want []string
	wantFail := false
	if r.Expect == 0 {
		wantFail = true
	} else {
		want = append(want, line(r.Expect))
		if r.Mode == "stage" {
			if r.Later == 0 {
				wantFail = true
			} else {
				want = append(want, line(r.Later))
			}
		}
	}
	if strings.Join(obsAll, "\n") != strings.Join(want, "\n") || (res.Exit != 0) != wantFail {
		kind := "wrong-level-wins"
		switch {
		case len(obsAll) > len(want):
			kind = "undefined-variable-executed"
		case len(obsAll) == 2 && len(want) == 2 && obsAll[0] == want[0]:
			kind = "stage-variable-visible-to-direct-run"
		case len(obsAll) < len(want):
			kind = "run-failed"
		}
		add(kind, fmt.Sprintf("commands printed %q (exit %d), model %q (fails=%v)", obsAll, res.Exit, want, wantFail))
	}
	for _, hk := range []string{"HOOKB", "HOOKA"} {
		var got, exp []string
		for _, l := range lines(res.Stdout) {
			if k := strings.Index(l, hk+" "); k >= 0 {
				got = append(got, l[k+len(hk)+1:])
			}
		}
		for _, x := range []int{r.Expect, r.Later} {
			if x != 0 && (x == r.Expect || r.Mode == "stage") && len(exp) < len(want) {
				exp = append(exp, fmt.Sprintf("w=[%s]", vs(x)))
			}
		}
		if r.Expect == 0 {
			exp = nil
		}
		if strings.Join(got, "\n") != strings.Join(exp, "\n") {
			add("hook-resolves-variable-differently", fmt.Sprintf("the task's %s hook printed %q, its commands %q: the model gives %q", map[string]string{"HOOKB": "before", "HOOKA": "after"}[hk], got, obsAll, exp))
		}
	}
	if i%20 == 3 {
		e.samples.Add(map[string]interface{}{"kind": "var", "defs": r.Defs, "order": r.Ord, "mode": r.Mode, "expected": want})
	}
}

// undefined variable at command position k of a 3-command task
// the ways a command can refer to an undefined variable
// (the last three combine a reference to the DEFINED variable dv - through the `default` function
// or plainly - with an undefined one in the same string)
var undefForms = []string{"{{.nosuch}}", "{{ if .nosuch }}yes{{ end }}", "{{ with .nosuch }}{{ . }}{{ end }}", "{{ print .nosuch }}", "{{ printf \"%v\" .nosuch }}", "{{ .nosuch | printf \"%s\" }}", "{{ .nosuch.deeper }}",
	"{{ .dv | default \"x\" }}-{{ .nosuch }}", "{{ default \"x\" .dv }} {{ .nosuch }}", "{{ .dv }}{{ .nosuch }}"}

func (e *eng) undefinedAt(k int, allow bool) {
	d := e.env.Sub("undef")
	trace := filepath.Join(d, "trace")
	var y strings.Builder
	// (the context defines the name: it stays undefined for the task's commands)
	y.WriteString("contexts:\n  cx:\n    variables:\n      nosuch: from-the-context\n")
	y.WriteString("tasks:\n  t:\n    context: cx\n    variables:\n      dv: defined\n")
	if allow {
		y.WriteString("    allow_failure: true\n")
	}
	y.WriteString("    command:\n")
	for c := 1; c <= 3; c++ {
		if c == k {
			form := undefForms[(k+map[bool]int{false: 0, true: 3}[allow]+e.formShift)%len(undefForms)]
			fmt.Fprintf(&y, "      - |\n        echo 'c%d %s' >> %s\n", c, form, trace)
		} else {
			fmt.Fprintf(&y, "      - echo c%d >> %s\n", c, trace)
		}
	}
	_ = ioutil.WriteFile(filepath.Join(d, "tasks.yaml"), []byte(y.String()), 0o644)
	res := e.run(d, nil, "--raw", "t")
	b, _ := ioutil.ReadFile(trace)
	got := lines(string(b))
	var want []string
	for c := 1; c < k; c++ {
		want = append(want, fmt.Sprintf("c%d", c))
	}
	if res.Exit == 0 || strings.Join(got, ",") != strings.Join(want, ",") {
		e.rep.Add(core.Finding{Prop: "C10", Key: "C10:var:undefined-variable-executed",
			What:   fmt.Sprintf("undefined variable in command %d of 3 (allow_failure=%v): commands that ran %v (model %v), exit %d (model non-zero)", k, allow, got, want, res.Exit),
			Detail: map[string]interface{}{"yaml": y.String(), "stderr": tailS(res.Stderr, 400)}})
	}
}

// ---------------------------------------------------------------------------
// C10 arguments

type argCase struct {
	Targets []string `json:"targets"`
	Sep     bool     `json:"sep"`
	Args    []string `json:"args"`
}

func (e *eng) argsCase(c argCase, form string, i int) {
	d := e.env.Sub("args")
	trace := filepath.Join(d, "trace")
	var y strings.Builder
	y.WriteString("tasks:\n")
	for _, t := range []string{"t1", "t2"} {
		fmt.Fprintf(&y, "  %s:\n    command:\n      - echo %s >> %s\n      - echo \"OBS %s args=[{{.Args}}] env=[$ARGS] n={{len .ArgsList}}\"\n      - echo \"{{range .ArgsList}}ITEM %s <{{.}}>{{\"\\n\"}}{{end}}\"\n", t, t, trace, t, t)
	}
	_ = ioutil.WriteFile(filepath.Join(d, "tasks.yaml"), []byte(y.String()), 0o644)
	argv := []string{"--raw"}
	if form == "run" {
		argv = append(argv, "run")
	}
	argv = append(argv, c.Targets...)
	if c.Sep {
		argv = append(argv, "--")
		argv = append(argv, c.Args...)
	}
	res := e.run(d, nil, argv...)
	detail := map[string]interface{}{"argv": argv, "stdout": res.Stdout, "stderr": tailS(res.Stderr, 500), "exit": res.Exit}
	add := func(kind, what string) {
		e.rep.Add(core.Finding{Prop: "C10", Key: "C10:args:" + kind, What: what + fmt.Sprintf(" [taskctl %s]", strings.Join(argv, " ")), Detail: detail})
	}
	if res.Crashed() || res.TimedOut {
		add("crash", "taskctl crashed or hung")
		return
	}
	if res.Exit != 0 {
		add("run-failed", fmt.Sprintf("exit %d: %s", res.Exit, firstLine(res.Stderr)))
		return
	}
	b, _ := ioutil.ReadFile(trace)
	got := lines(string(b))
	if strings.Join(got, ",") != strings.Join(c.Targets, ",") {
		add("argument-treated-as-target", fmt.Sprintf("targets executed %v, model %v", got, c.Targets))
	}
	joined := strings.Join(c.Args, " ")
	for _, t := range uniq(c.Targets) {
		obs, ok := find(res.Stdout, "OBS "+t+" ")
		want := fmt.Sprintf("args=[%s] env=[%s] n=%d", joined, joined, len(c.Args))
		if !ok || obs != want {
			add("args-not-verbatim", fmt.Sprintf("task %s saw %q, model %q", t, obs, want))
			return
		}
		var items []string
		for _, l := range lines(res.Stdout) {
			if k := strings.Index(l, "ITEM "+t+" <"); k >= 0 {
				items = append(items, strings.TrimSuffix(l[k+len("ITEM "+t+" <"):], ">"))
			}
		}
		n := len(c.Args)
		occ := 0
		for _, x := range c.Targets {
			if x == t {
				occ++
			}
		}
		var wantItems []string
		for o := 0; o < occ; o++ {
			wantItems = append(wantItems, c.Args...)
		}
		_ = n
		if strings.Join(items, "\x00") != strings.Join(wantItems, "\x00") {
			add("argslist-not-verbatim", fmt.Sprintf("task %s ArgsList %q, model %q", t, items, wantItems))
			return
		}
	}
	if i%400 == 9 {
		e.samples.Add(map[string]interface{}{"kind": "args", "argv": argv, "expected_args": c.Args, "expected_targets": c.Targets})
	}
}

func uniq(xs []string) []string {
	m := map[string]bool{}
	var out []string
	for _, x := range xs {
		if !m[x] {
			m[x] = true
			out = append(out, x)
		}
	}
	sort.Strings(out)
	return out
}

func tailS(s string, n int) string {
	if len(s) > n {
		return s[len(s)-n:]
	}
	return s
}
func firstLine(s string) string {
	ls := lines(s)
	if len(ls) == 0 {
		return ""
	}
	return ls[len(ls)-1]
}

func (e *eng) result(evals, nontrivial int, rule string, extra map[string]interface{}) *core.Result {
	gen, dist, runs, cmds := core.TLCTotals()
	cov := map[string]interface{}{
		"states": dist, "transitions": gen, "tlc_runs": runs,
		"traces_validated_against_impl": evals, "evaluations": evals, "distinct_nontrivial": nontrivial,
		"rule": rule, "model_runs": e.model, "samples": e.samples.List(), "checker_cmds": cmds, "exhaustive": true,
	}
	for k, v := range extra {
		cov[k] = v
	}
	return &core.Result{Level: "model_checking", Coverage: cov, Assumptions: []string{
		"values are abstract in the model (ordered tokens) and concretised as v1..v6 by the harness",
		"the taskctl binary is run with a private HOME and without TASKCTL_* variables",
	}}
}

// multiEnvCase: three names X0, X1, X2 in one project, each with its own defining levels and value order.
func (e *eng) multiEnvCase(rows [3]layRow, mode string) {
	d := e.env.Sub("menv")
	level := func(l int) map[string]string {
		m := map[string]string{}
		for k, r := range rows {
			if r.has(l) {
				m[fmt.Sprintf("X%d", k)] = vstr(r.val(l), "")
			}
		}
		return m
	}
	block := func(indent string, m map[string]string) string {
		var b strings.Builder
		for _, k := range []string{"X0", "X1", "X2"} {
			if v, ok := m[k]; ok {
				fmt.Fprintf(&b, "%s%s: %s\n", indent, k, yq(v))
			}
		}
		return b.String()
	}
	var y strings.Builder
	if m := level(2); len(m) > 0 {
		y.WriteString("contexts:\n  ctx:\n    env:\n" + block("      ", m))
	}
	y.WriteString("tasks:\n  t:\n")
	if len(level(2)) > 0 {
		y.WriteString("    context: ctx\n")
	}
	if m := level(3); len(m) > 0 {
		var f strings.Builder
		for _, k := range []string{"X0", "X1", "X2"} {
			if v, ok := m[k]; ok {
				fmt.Fprintf(&f, "%s=%s\n", k, v)
			}
		}
		_ = ioutil.WriteFile(filepath.Join(d, "x.env"), []byte(f.String()), 0o644)
		y.WriteString("    env_file: x.env\n")
	}
	if m := level(4); len(m) > 0 {
		y.WriteString("    env:\n" + block("      ", m))
	}
	if m := level(6); len(m) > 0 {
		y.WriteString("    variations:\n      - VN: \"1\"\n" + block("        ", m))
	}
	y.WriteString("    command:\n      - echo \"OBS X0=[$X0] X1=[$X1] X2=[$X2] T=[$TASK_NAME]\"\n")
	y.WriteString("pipelines:\n  p:\n    - task: t\n")
	if m := level(5); len(m) > 0 {
		y.WriteString("      env:\n" + block("        ", m))
	}
	_ = ioutil.WriteFile(filepath.Join(d, "tasks.yaml"), []byte(y.String()), 0o644)
	var extra []string
	for k, v := range level(1) {
		extra = append(extra, k+"="+v)
	}
	for _, k := range []string{"X0", "X1", "X2"} {
		os.Unsetenv(k)
	}
	target := "t"
	if mode == "stage" {
		target = "p"
	}
	res := e.run(d, extra, "--raw", target)
	want := "OBS"
	for k, r := range rows {
		v := ""
		if r.Expect != 0 {
			v = vstr(r.Expect, "")
		}
		want += fmt.Sprintf(" X%d=[%s]", k, v)
	}
	want += " T=[t]"
	got, _ := find(res.Stdout, "OBS")
	if res.Exit != 0 || "OBS"+got != want {
		e.rep.Add(core.Finding{Prop: "C09", Key: "C09:env:wrong-level-wins:several-names", What: fmt.Sprintf("three names defined at levels %v / %v / %v (%s): command saw %q, model %q", rows[0].Defs, rows[1].Defs, rows[2].Defs, mode, "OBS"+got, want),
			Detail: map[string]interface{}{"yaml": y.String(), "parent_env": extra, "stdout": res.Stdout, "stderr": tailS(res.Stderr, 300)}})
	}
}

// taskNameParallel: several tasks without any env of their own run at the same time; each command
// must see its own task's name (TASK_NAME is set on a per-run copy of the environment).
func (e *eng) taskNameParallel(k int) {
	d := e.env.Sub("tname")
	out := filepath.Join(d, "out")
	_ = os.MkdirAll(out, 0o755)
	var y strings.Builder
	y.WriteString("tasks:\n")
	for i := 1; i <= k; i++ {
		fmt.Fprintf(&y, "  pt%d:\n    command:\n      - sleep 0.0%d\n      - /bin/echo \"$TASK_NAME\" > %s/pt%d\n", i, i%3+1, out, i)
	}
	y.WriteString("pipelines:\n  p:\n")
	for i := 1; i <= k; i++ {
		if i%2 == 0 {
			fmt.Fprintf(&y, "    - name: stage%d\n      task: pt%d\n", i, i)
		} else {
			fmt.Fprintf(&y, "    - task: pt%d\n", i)
		}
	}
	_ = ioutil.WriteFile(filepath.Join(d, "tasks.yaml"), []byte(y.String()), 0o644)
	res := e.run(d, nil, "--raw", "p")
	for i := 1; i <= k; i++ {
		b, _ := ioutil.ReadFile(filepath.Join(out, fmt.Sprintf("pt%d", i)))
		if got := strings.TrimSpace(string(b)); res.Exit != 0 || got != fmt.Sprintf("pt%d", i) {
			e.rep.Add(core.Finding{Prop: "C09", Key: "C09:env:task-name-of-another-task", What: fmt.Sprintf("%d tasks without env running at the same time: the command of pt%d saw TASK_NAME=%q (exit %d)", k, i, got, res.Exit), Detail: map[string]interface{}{"yaml": y.String()}})
			return
		}
	}
}

// CheckC09 is the engine behind C09.
func CheckC09(env *core.Env, rep *core.Report) *core.Result {
	e := &eng{env: env, rep: rep, samples: core.NewSamples(10), home: env.Sub("home")}
	rows := e.modelRows()
	var envRows, dirRows []layRow
	for _, r := range rows {
		switch r.Kind {
		case "env":
			envRows = append(envRows, r)
		case "dir":
			if r.Ord == "asc" {
				dirRows = append(dirRows, r)
			}
		}
	}
	var n int64
	core.Parallel(len(envRows), 16, func(i int) { e.envCase(envRows[i], i); atomic.AddInt64(&n, 1) })
	core.Parallel(len(dirRows)*2, 16, func(i int) { e.dirCase(dirRows[i/2], i%2 == 1); atomic.AddInt64(&n, 1) })
	for r := 0; r < map[bool]int{false: 6, true: 60}[env.Thorough()]; r++ {
		e.taskNameParallel(3 + r%6)
		n++
	}
	// several names at once, each defined at its own subset of levels (rows of the model combined)
	multi := map[bool]int{false: 20, true: 900}[env.Thorough()]
	rng := env.Rand("multi-env")
	core.Parallel(multi, 16, func(i int) {
		var pick [3]layRow
		r := env.Rand(fmt.Sprintf("multi-env-%d", i))
		mode := []string{"direct", "stage"}[r.Intn(2)]
		for k := 0; k < 3; k++ {
			for {
				c := envRows[r.Intn(len(envRows))]
				if c.Mode == mode {
					pick[k] = c
					break
				}
			}
		}
		e.multiEnvCase(pick, mode)
		atomic.AddInt64(&n, 1)
	})
	_ = rng
	return e.result(int(n), int(n)-8, "every non-empty subset of the six environment levels defining X (63) x values ascending / descending with the level / the winning level giving the empty string x run directly / as a stage, and every subset of the dir levels (8) x direct/stage x started in the project root / a sub-directory, as enumerated by LayersGen.tla with the expected winner; each is a generated project run through the binary (echo $X, $TASK_NAME, an untouched parent variable; pwd in before, command, after)",
		map[string]interface{}{"env_cases": len(envRows), "dir_cases": len(dirRows) * 2})
}

// CheckC10 is the engine behind C10.
func CheckC10(env *core.Env, rep *core.Report) *core.Result {
	e := &eng{env: env, rep: rep, samples: core.NewSamples(10), home: env.Sub("home")}
	rows := e.modelRows()
	var varRows []layRow
	for _, r := range rows {
		if r.Kind == "var" {
			varRows = append(varRows, r)
		}
	}
	argsCfg, argsWant := "Args.cfg", 2406
	if env.Thorough() {
		argsCfg, argsWant = "Args_4.cfg", 16812 // up to 4 words after the separator
	}
	ar := core.MustHold(env, core.TLCOpts{Module: "Args", Config: argsCfg, Workers: 2})
	var acs []argCase
	for _, p := range ar.Tagged("ARG") {
		var c argCase
		if err := json.Unmarshal([]byte(p), &c); err != nil {
			core.Broken("Args: %v", err)
		}
		acs = append(acs, c)
	}
	e.note("Args", ar, fmt.Sprintf("%d argument vectors; ArgsVerbatim holds (split at the first --)", len(acs)))
	if len(acs) != argsWant {
		core.Broken("Args emitted %d cases, expected %d", len(acs), argsWant)
	}
	sel := acs
	if !env.Thorough() {
		rng := env.Rand("args")
		sel = nil
		for _, c := range acs {
			if len(c.Args) <= 1 || rng.Intn(100) < 18 {
				sel = append(sel, c)
			}
		}
	}
	var n int64
	core.Parallel(len(varRows), 16, func(i int) { e.varCase(varRows[i], i); atomic.AddInt64(&n, 1) })
	for shift := 0; shift < len(undefForms); shift++ {
		e.formShift = shift
		for k := 1; k <= 3; k++ {
			e.undefinedAt(k, false)
			e.undefinedAt(k, true)
			n += 2
		}
	}
	core.Parallel(len(sel), 16, func(i int) {
		form := "root"
		if i%2 == 1 || env.Thorough() {
			form = "run"
		}
		e.argsCase(sel[i], form, i)
		atomic.AddInt64(&n, 1)
		if env.Thorough() {
			e.argsCase(sel[i], "root", i)
			atomic.AddInt64(&n, 1)
		}
	})
	return e.result(int(n), int(n)-3, "every non-empty subset of the four variable levels defining w (15) x 3 value orders (ascending, descending, the winner defined with the empty value) x direct/stage from LayersGen.tla (undefined at every effective level => the task must fail before the command runs); an undefined variable at each position of a 3-command task; argument vectors from Args.tla: 1..2 targets, optional --, 0..3 words after it over {a target's name, plain, k=v, -x, --long, --} (quick: all with <=1 word and ~18% of the rest; thorough: all, both entry forms)",
		map[string]interface{}{"variable_cases": len(varRows), "argument_vectors_run": len(sel), "argument_vectors_in_model": len(acs)})
}

// ---------------------------------------------------------------------------
// C08

type stgCase struct {
	NS   int        `json:"ns"`
	Ov   [][]string `json:"ov"`
	Deps [][]int    `json:"deps"`
}

type recRunner struct {
	mu   sync.Mutex
	seen map[string]map[string]string // stage name -> observation
	gate chan struct{}
}

func (r *recRunner) Run(t *task.Task) error {
	obs := map[string]string{"dir": t.Dir}
	if t.Env != nil {
		m := t.Env.Map()
		obs["V"], obs["A"] = fmt.Sprint(m["V"]), fmt.Sprint(m["A"])
		obs["P"] = ""
		if p, ok := m["P"]; ok {
			obs["P"] = fmt.Sprint(p)
		}
	}
	if t.Variables != nil {
		m := t.Variables.Map()
		obs["w"], obs["B"] = fmt.Sprint(m["w"]), fmt.Sprint(m["B"])
		obs["stage"] = fmt.Sprint(m[".Stage.Name"])
	}
	r.mu.Lock()
	r.seen[obs["stage"]] = obs
	r.mu.Unlock()
	<-r.gate
	return nil
}
func (r *recRunner) Cancel() {}
func (r *recRunner) Finish() {}

func hasS(xs []string, x string) bool {
	for _, y := range xs {
		if y == x {
			return true
		}
	}
	return false
}

// ovVal is the value a stage gives to V / w: now and then the empty string (an override with the
// empty value is an override: the task's own value must not show through it)
func ovVal(prefix string, s, i int) string {
	if (i+s)%4 == 0 {
		return ""
	}
	return fmt.Sprintf("%s%d", prefix, s)
}

func (e *eng) stageAPI(c stgCase, i int) {
	t0 := task.FromCommands("true")
	t0.Name = "t"
	t0.Env = variables.FromMap(map[string]string{"V": "v0", "A": "a0"})
	t0.Variables = variables.FromMap(map[string]string{"w": "w0", "B": "b0"})
	t0.Dir = "/d0"
	var stages []*scheduler.Stage
	for s := 1; s <= c.NS; s++ {
		st := &scheduler.Stage{Name: fmt.Sprintf("s%d", s), Task: t0, Variables: variables.FromMap(map[string]string{".Stage.Name": fmt.Sprintf("s%d", s)})}
		if hasS(c.Ov[s-1], "env") {
			// V overrides the task's own value, P is defined at stage level only
			st.Env = variables.FromMap(map[string]string{"V": ovVal("v", s, i), "P": fmt.Sprintf("p%d", s)})
		}
		if hasS(c.Ov[s-1], "vars") {
			st.Variables.Set("w", ovVal("w", s, i))
		}
		if hasS(c.Ov[s-1], "dir") {
			st.Dir = fmt.Sprintf("/d%d", s)
		}
		for _, d := range c.Deps[s-1] {
			st.DependsOn = append(st.DependsOn, fmt.Sprintf("s%d", d))
		}
		stages = append(stages, st)
	}
	g, err := scheduler.NewExecutionGraph(stages...)
	if err != nil {
		core.Broken("graph: %v", err)
	}
	rr := &recRunner{seen: map[string]map[string]string{}, gate: make(chan struct{})}
	sd := scheduler.NewScheduler(rr)
	sd.VerifSetPause(300 * time.Microsecond)
	done := make(chan error, 1)
	go func() { done <- sd.Schedule(g) }()
	// hold every stage inside Run for a moment so that parallel stages really overlap
	go func() {
		for k := 0; k < c.NS; k++ {
			time.Sleep(1500 * time.Microsecond)
			rr.gate <- struct{}{}
		}
	}()
	select {
	case <-done:
	case <-time.After(20 * time.Second):
		e.rep.Add(core.Finding{Prop: "C08", Key: "C08:api:pipeline-does-not-return", What: "pipeline with shared task did not return", Detail: c})
		close(rr.gate)
		return
	}
	add := func(kind, what string) {
		e.rep.Add(core.Finding{Prop: "C08", Key: "C08:api:" + kind, What: what + fmt.Sprintf(" [overrides per stage %v, deps %v]", c.Ov, c.Deps), Detail: map[string]interface{}{"case": c, "observed": rr.seen}})
	}
	for s := 1; s <= c.NS; s++ {
		o := rr.seen[fmt.Sprintf("s%d", s)]
		if o == nil {
			add("stage-not-run", fmt.Sprintf("stage s%d was not handed to the Runner", s))
			continue
		}
		want := map[string]string{"V": "v0", "A": "a0", "w": "w0", "B": "b0", "dir": "/d0", "P": ""}
		if hasS(c.Ov[s-1], "env") {
			want["V"] = ovVal("v", s, i)
			want["P"] = fmt.Sprintf("p%d", s)
		}
		if hasS(c.Ov[s-1], "vars") {
			want["w"] = ovVal("w", s, i)
		}
		if hasS(c.Ov[s-1], "dir") {
			want["dir"] = fmt.Sprintf("/d%d", s)
		}
		for _, k := range []string{"V", "A", "w", "B", "dir", "P"} {
			if o[k] != want[k] {
				kind := "override-of-another-stage-visible"
				if k == "A" || k == "B" {
					kind = "override-replaced-task-settings"
				}
				add(kind, fmt.Sprintf("stage s%d ran with %s=%q, model View(s)=%q", s, k, o[k], want[k]))
			}
		}
	}
	// no residue on the shared task: a direct run sees T0
	m, vm := t0.Env.Map(), t0.Variables.Map()
	if fmt.Sprint(m["V"]) != "v0" || fmt.Sprint(m["A"]) != "a0" || fmt.Sprint(vm["w"]) != "w0" || fmt.Sprint(vm["B"]) != "b0" || t0.Dir != "/d0" || len(m) != 2 {
		add("shared-task-changed", fmt.Sprintf("after the pipeline the shared task has env=%v variables=%v dir=%q (T0: V=v0 A=a0 / w=w0 B=b0 / /d0)", m, vm, t0.Dir))
	}
	if i%500 == 11 {
		e.samples.Add(map[string]interface{}{"kind": "api", "overrides": c.Ov, "deps": c.Deps})
	}
}

func (e *eng) stageBin(c stgCase, i int) {
	d := e.env.Sub("stg")
	d, _ = filepath.EvalSymlinks(d)
	for s := 0; s <= c.NS; s++ {
		_ = os.MkdirAll(filepath.Join(d, fmt.Sprintf("d%d", s)), 0o755)
	}
	var y strings.Builder
	// the task is bound to a named context (one shared object) whose before hook takes a moment, and
	// has a variable whose value is itself a template over a variable that stages override
	y.WriteString("contexts:\n  cx:\n    env:\n      CXE: c\n    before: [\"sleep 0.02\"]\n")
	fmt.Fprintf(&y, "  cx2:\n    dir: \"%s/{{.cd}}\"\n", d)
	fmt.Fprintf(&y, "tasks:\n  t:\n    context: cx\n    dir: %s\n    env:\n      V: v0\n      A: a0\n    variables:\n      w: w0\n      B: b0\n      G: \"g-{{.w}}\"\n", yq(filepath.Join(d, "d0")))
	// the task's before and after hooks see what its commands see (the same stage's view; not G: a
	// variable whose value is itself a template is rendered for commands only, which no property fixes)
	hookObs := func(pos string) string {
		return fmt.Sprintf("      - sleep 0.0$((RANDOM %% 3))\n      - |\n        echo \"$V|$A|{{.w}}|{{.B}}|$(pwd)|$P\" > \"$OUTDIR/%s-{{with index . \".Stage.Name\"}}{{.}}{{else}}direct{{end}}\"\n", pos)
	}
	y.WriteString("    before:\n" + hookObs("before") + "    after:\n" + hookObs("after"))
	y.WriteString("    command:\n      - sleep 0.0$((RANDOM % 5))\n      - |\n        echo \"$V|$A|{{.w}}|{{.B}}|$(pwd)|{{.G}}|$P\" > \"$OUTDIR/{{with index . \".Stage.Name\"}}{{.}}{{else}}direct{{end}}\"\n")
	// a second task whose working directory comes from its context, as a template over a variable
	// that stages override: every stage (and the direct run) gets its own rendering
	fmt.Fprintf(&y, "  t2:\n    context: cx2\n    variables:\n      cd: d0\n    command:\n      - |\n        pwd > \"$OUTDIR/ctxdir-{{with index . \".Stage.Name\"}}{{.}}{{else}}direct{{end}}\"\n")
	y.WriteString("pipelines:\n  r:\n    - name: r1\n      task: t2\n      variables:\n        cd: d1\n    - name: r2\n      task: t2\n      depends_on: [r1]\n      variables:\n        cd: d2\n")
	y.WriteString("  p:\n")
	for s := 1; s <= c.NS; s++ {
		fmt.Fprintf(&y, "    - name: s%d\n      task: t\n", s)
		if len(c.Deps[s-1]) > 0 {
			var ds []string
			for _, x := range c.Deps[s-1] {
				ds = append(ds, fmt.Sprintf("s%d", x))
			}
			fmt.Fprintf(&y, "      depends_on: [%s]\n", strings.Join(ds, ", "))
		}
		if hasS(c.Ov[s-1], "env") {
			fmt.Fprintf(&y, "      env:\n        V: %s\n        P: p%d\n", yq(ovVal("v", s, i)), s)
		}
		if hasS(c.Ov[s-1], "vars") {
			fmt.Fprintf(&y, "      variables:\n        w: %s\n", yq(ovVal("w", s, i)))
		}
		if hasS(c.Ov[s-1], "dir") {
			fmt.Fprintf(&y, "      dir: %s\n", yq(filepath.Join(d, fmt.Sprintf("d%d", s))))
		}
	}
	// another pipeline whose only stage uses the same task without overrides
	y.WriteString("  q:\n    - name: q1\n      task: t\n")
	if i%2 == 0 {
		// a third pipeline (never run here) includes q as a stage with settings of its own: they
		// belong to that stage, q run by itself must not show them
		fmt.Fprintf(&y, "  outer:\n    - name: inc\n      pipeline: q\n      env:\n        V: vX\n        P: pX\n      variables:\n        w: wX\n      dir: %s\n", yq(filepath.Join(d, "d0")))
	}
	_ = ioutil.WriteFile(filepath.Join(d, "tasks.yaml"), []byte(y.String()), 0o644)
	// the pipeline, then another pipeline and a direct run of the same task in the same process
	outdir := filepath.Join(d, "out")
	_ = os.MkdirAll(outdir, 0o755)
	// (the parent process has a V of its own: it lies below every level of the configuration)
	res := e.run(d, []string{"OUTDIR=" + outdir, "V=v-of-the-parent"}, "--raw", "p", "q", "t", "r", "t2")
	detail := map[string]interface{}{"yaml": y.String(), "stdout": res.Stdout, "stderr": tailS(res.Stderr, 500), "exit": res.Exit}
	add := func(kind, what string) {
		e.rep.Add(core.Finding{Prop: "C08", Key: "C08:bin:" + kind, What: what + fmt.Sprintf(" [overrides per stage %v, deps %v]", c.Ov, c.Deps), Detail: detail})
	}
	if res.Crashed() || res.TimedOut || res.Exit != 0 {
		add("run-failed", fmt.Sprintf("taskctl p t: exit %d: %s", res.Exit, firstLine(res.Stderr)))
		return
	}
	got := map[string]string{}
	ents, _ := ioutil.ReadDir(outdir)
	for _, en := range ents {
		b, _ := ioutil.ReadFile(filepath.Join(outdir, en.Name()))
		got[en.Name()] = strings.TrimSpace(string(b))
	}
	detail["observed"] = got
	for name, dir := range map[string]string{"ctxdir-r1": "d1", "ctxdir-r2": "d2", "ctxdir-direct": "d0"} {
		if want := filepath.Join(d, dir); got[name] != want {
			add("context-dir-of-another-stage", fmt.Sprintf("%s ran in %q, model %q (the context's dir is a template over a variable the stages override)", name, got[name], want))
		}
	}
	for s := -1; s <= c.NS; s++ {
		name := fmt.Sprintf("s%d", s)
		v, w, dir := "v0", "w0", "d0"
		if s == 0 {
			name = "direct"
		} else if s == -1 {
			name = "q1"
		} else {
			if hasS(c.Ov[s-1], "env") {
				v = ovVal("v", s, i)
			}
			if hasS(c.Ov[s-1], "vars") {
				w = ovVal("w", s, i)
			}
			if hasS(c.Ov[s-1], "dir") {
				dir = fmt.Sprintf("d%d", s)
			}
		}
		pk := ""
		if s > 0 && hasS(c.Ov[s-1], "env") {
			pk = fmt.Sprintf("p%d", s)
		}
		want := fmt.Sprintf("%s|a0|%s|b0|%s|g-%s|%s", v, w, filepath.Join(d, dir), w, pk)
		if got[name] != want {
			kind := "override-of-another-stage-visible"
			if s == 0 {
				kind = "direct-run-sees-stage-override"
			} else if s == -1 {
				kind = "another-pipeline-sees-stage-override"
			}
			add(kind, fmt.Sprintf("%s printed %q, model %q", name, got[name], want))
		}
		wantHook := fmt.Sprintf("%s|a0|%s|b0|%s|%s", v, w, filepath.Join(d, dir), pk)
		for _, pos := range []string{"before", "after"} {
			if h := got[pos+"-"+name]; h != wantHook {
				add("hook-sees-another-view", fmt.Sprintf("the %s hook of %s printed %q, the model (and its commands) %q", pos, name, h, wantHook))
			}
		}
	}
	if i%300 == 7 {
		e.samples.Add(map[string]interface{}{"kind": "binary", "overrides": c.Ov, "deps": c.Deps})
	}
}

// CheckC08 is the engine behind C08.
func CheckC08(env *core.Env, rep *core.Report) *core.Result {
	e := &eng{env: env, rep: rep, samples: core.NewSamples(10), home: env.Sub("home")}
	var wg sync.WaitGroup
	var cases []stgCase
	wg.Add(4)
	go func() {
		defer wg.Done()
		r := core.MustHold(env, core.TLCOpts{Module: "Stages", Config: "Stages_ok3.cfg", Workers: 4})
		e.note("Stages_ok3", r, "Isolation, NoResidue hold for every override assignment x dependency arrangement x interleaving of 3 stages sharing one task")
	}()
	go func() {
		defer wg.Done()
		r := core.MustFail(env, core.TLCOpts{Module: "Stages", Config: "Stages_pinned2.cfg", Workers: 2})
		e.note("Stages_pinned2", r, "negative control (pinned: the shared task is mutated): "+r.Violated+" violated")
	}()
	for _, ns := range []int{2, 3} {
		ns := ns
		go func() {
			defer wg.Done()
			r := core.MustHold(env, core.TLCOpts{Module: "StagesGen", Config: fmt.Sprintf("StagesGen_%d.cfg", ns), Workers: 1})
			e.mu.Lock()
			for _, p := range r.Tagged("STG") {
				var c stgCase
				if err := json.Unmarshal([]byte(p), &c); err != nil {
					core.Broken("StagesGen: %v", err)
				}
				cases = append(cases, c)
			}
			e.mu.Unlock()
			e.note(fmt.Sprintf("StagesGen_%d", ns), r, "configurations emitted")
		}()
	}
	wg.Wait()
	if len(cases) != 4096+128 {
		core.Broken("StagesGen emitted %d cases, expected 4224", len(cases))
	}
	// larger random pipelines (4..6 stages)
	rng := env.Rand("stages")
	nRand := 300
	if env.Thorough() {
		nRand = 3000
	}
	for k := 0; k < nRand; k++ {
		ns := 4 + rng.Intn(3)
		c := stgCase{NS: ns}
		for s := 1; s <= ns; s++ {
			var ov []string
			for _, f := range []string{"env", "vars", "dir"} {
				if rng.Intn(2) == 0 {
					ov = append(ov, f)
				}
			}
			var dp []int
			for d := 1; d < s; d++ {
				if rng.Intn(3) == 0 {
					dp = append(dp, d)
				}
			}
			c.Ov = append(c.Ov, ov)
			c.Deps = append(c.Deps, dp)
		}
		cases = append(cases, c)
	}
	// a pipeline whose single stage is the only user of the task (8 override subsets)
	single0 := len(cases)
	for m := 0; m < 8; m++ {
		var ov []string
		for b, f := range []string{"env", "vars", "dir"} {
			if m&(1<<uint(b)) != 0 {
				ov = append(ov, f)
			}
		}
		cases = append(cases, stgCase{NS: 1, Ov: [][]string{ov}, Deps: [][]int{nil}})
	}
	for i := range cases {
		for s := range cases[i].Ov {
			if cases[i].Ov[s] == nil {
				cases[i].Ov[s] = []string{}
			}
		}
		for len(cases[i].Deps) < cases[i].NS {
			cases[i].Deps = append(cases[i].Deps, nil)
		}
	}
	var n int64
	core.Parallel(len(cases), 32, func(i int) { e.stageAPI(cases[i], i); atomic.AddInt64(&n, 1) })
	var bsel []int
	for i := range cases {
		if env.Thorough() && i%4 == 0 || !env.Thorough() && i%28 == 0 || i >= 4224 && i%3 == 0 || i >= single0 {
			bsel = append(bsel, i)
		}
	}
	core.Parallel(len(bsel), 16, func(k int) { e.stageBin(cases[bsel[k]], bsel[k]); atomic.AddInt64(&n, 1) })
	return e.result(int(n), len(cases), "every assignment of overrides {env, variables, dir} to 2 and 3 stages sharing one task x every dependency arrangement (StagesGen.tla: 4224 configurations) plus seeded random pipelines of 4..6 stages; each run (a) on the real scheduler with a recording Runner that holds stages inside Run so that parallel ones overlap - the task object received must equal View(s) and the shared task must be unchanged afterwards, (b) a sample through the binary as `taskctl p t` (pipeline, then a direct run of the task)",
		map[string]interface{}{"api_runs": len(cases), "binary_runs": len(bsel)})
}
