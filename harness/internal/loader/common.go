// Package loader binds the loader specifications (Imports.tla, Refs.tla, Shapes.tla,
// Formats.tla; C15-C18) to the taskctl binary. internal/config cannot be imported from outside
// the module, and the binary is what the properties' observation points name.
package loader

import (
	"fmt"
	"net/http"
	"net/http/httptest"
	"strings"
	"sync"
	"time"

	"verif/harness/internal/core"
)

type eng struct {
	env     *core.Env
	rep     *core.Report
	samples *core.Samples
	mu      sync.Mutex
	model   []map[string]interface{}
	home    string
}

func newEng(env *core.Env, rep *core.Report) *eng {
	return &eng{env: env, rep: rep, samples: core.NewSamples(12), home: env.Sub("home")}
}

func (e *eng) note(name string, r *core.TLCResult, what string) {
	e.mu.Lock()
	e.model = append(e.model, map[string]interface{}{"config": name, "generated": r.Generated, "distinct": r.Distinct, "wall_s": r.Wall.Seconds(), "result": what})
	e.mu.Unlock()
}

func (e *eng) run(dir string, home string, timeout time.Duration, args ...string) *core.BinResult {
	if home == "" {
		home = e.home
	}
	return core.RunBin(dir, core.CleanEnv(home), timeout, "", e.env.Taskctl, args...)
}

func lines(s string) []string {
	var out []string
	for _, l := range strings.Split(s, "\n") {
		l = strings.TrimRight(l, "\r")
		if strings.TrimSpace(l) != "" {
			out = append(out, l)
		}
	}
	return out
}

func tailS(s string, n int) string {
	if len(s) > n {
		return s[len(s)-n:]
	}
	return s
}

func lastLine(s string) string {
	ls := lines(s)
	if len(ls) == 0 {
		return ""
	}
	return ls[len(ls)-1]
}

func (e *eng) result(level string, evals, nontrivial int, rule string, extra map[string]interface{}, assumptions []string) *core.Result {
	gen, dist, runs, cmds := core.TLCTotals()
	cov := map[string]interface{}{
		"states": dist, "transitions": gen, "tlc_runs": runs,
		"traces_validated_against_impl": evals, "evaluations": evals, "distinct_nontrivial": nontrivial,
		"rule": rule, "model_runs": e.model, "samples": e.samples.List(), "checker_cmds": cmds,
	}
	for k, v := range extra {
		cov[k] = v
	}
	return &core.Result{Level: level, Coverage: cov, Assumptions: assumptions}
}

func yq(s string) string { return fmt.Sprintf("%q", s) }

// loopbackServer starts an HTTP server on the loopback interface (nil when none can be had).
func loopbackServer(h http.Handler) (srv *httptest.Server) {
	defer func() {
		if recover() != nil {
			srv = nil
		}
	}()
	return httptest.NewServer(h)
}
