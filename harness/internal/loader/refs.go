package loader

import (
	"encoding/json"
	"fmt"
	"io/ioutil"
	"path/filepath"
	"sort"
	"strings"
	"time"

	"verif/harness/internal/core"
)

type refStage struct {
	Name string   `json:"name"`
	Task string   `json:"task"`
	Pipe string   `json:"pipe"`
	Deps []string `json:"deps"`
}
type refCase struct {
	Mut []interface{} `json:"mut"`
	Cfg struct {
		Pipes map[string][]refStage `json:"pipes"`
		WTask string                `json:"wtask"`
	} `json:"cfg"`
	WellFormed bool `json:"wellformed"`
}

func refYAML(c refCase, declOrder int) string {
	var b strings.Builder
	b.WriteString("tasks:\n")
	for _, t := range []string{"t1", "t2", "t3"} {
		fmt.Fprintf(&b, "  %s:\n    command: [\"echo %s\"]\n", t, t)
		if t == "t2" {
			// (a task is referred to by its key; `name:` is what it is called in the output)
			b.WriteString("    name: display-name-of-t2\n")
		}
	}
	b.WriteString("pipelines:\n")
	names := []string{"p1", "p2", "p3", "p4"}
	if declOrder%2 == 1 {
		names = []string{"p4", "p3", "p2", "p1"}
	}
	if _, has := c.Cfg.Pipes[""]; has {
		// a pipeline declared under the empty name
		if declOrder%2 == 1 {
			names = append([]string{""}, names...)
		} else {
			names = append(names, "")
		}
	}
	for _, p := range names {
		fmt.Fprintf(&b, "  %s:\n", map[bool]string{true: `""`, false: p}[p == ""])
		stages := append([]refStage{}, c.Cfg.Pipes[p]...)
		if declOrder >= 2 {
			// dependants declared before what they depend on
			for i, j := 0, len(stages)-1; i < j; i, j = i+1, j-1 {
				stages[i], stages[j] = stages[j], stages[i]
			}
		}
		for _, s := range stages {
			first := "    - "
			if s.Name != "" {
				fmt.Fprintf(&b, "    - name: %s\n", s.Name)
				first = "      "
			}
			if s.Task != "" {
				fmt.Fprintf(&b, "%stask: %s\n", first, s.Task)
				if s.Pipe != "" {
					fmt.Fprintf(&b, "      pipeline: %s\n", s.Pipe)
				}
			} else if s.Pipe != "" {
				fmt.Fprintf(&b, "%spipeline: %s\n", first, s.Pipe)
			} else if s.Name == "" {
				b.WriteString("    - {}\n") // a stage that says nothing at all
			}
			if len(s.Deps) > 0 {
				ds := append([]string{}, s.Deps...)
				sort.Strings(ds)
				if declOrder%2 == 1 {
					for i, j := 0, len(ds)-1; i < j; i, j = i+1, j-1 {
						ds[i], ds[j] = ds[j], ds[i]
					}
				}
				fmt.Fprintf(&b, "      depends_on: [%s]\n", strings.Join(ds, ", "))
			}
		}
	}
	// the watcher's task reference is checked whether or not it has anything to watch
	watch := "    watch: [\"*.go\"]\n"
	switch declOrder {
	case 1:
		watch = ""
	case 3:
		watch = "    watch: []\n"
	}
	fmt.Fprintf(&b, "watchers:\n  w:\n%s    events: [\"write\"]\n    task: %s\n", watch, c.Cfg.WTask)
	return b.String()
}

// CheckC18 is the engine behind C18.
func CheckC18(env *core.Env, rep *core.Report) *core.Result {
	e := newEng(env, rep)
	r := core.MustHold(env, core.TLCOpts{Module: "Refs", Config: "Refs.cfg", Workers: 1})
	var cases []refCase
	for _, p := range r.Tagged("REF") {
		var c refCase
		if err := json.Unmarshal([]byte(p), &c); err != nil {
			core.Broken("Refs: %v", err)
		}
		cases = append(cases, c)
	}
	e.note("Refs", r, fmt.Sprintf("%d configurations: the base one and one per broken reference (stage->task x5, stage->pipeline x1, depends_on unknown / other pipeline's stage x4 each, an unknown name next to a valid one x4 (before / after it, the valid stage declared earlier / later), duplicate stage name x4, watcher->task, inclusion cycles of length 1, 2, 3, a pipeline declared under the empty name that a reference-less stage then names: itself, acyclically, in a 2-cycle); WellFormed evaluated; OnlyBaseWellFormed holds", len(cases)))
	if len(cases) != 45 {
		core.Broken("Refs emitted %d cases, expected 45", len(cases))
	}
	sort.Slice(cases, func(i, j int) bool { return core.JSON(cases[i].Mut) < core.JSON(cases[j].Mut) })
	n := 0
	// what `validate` prints for a file it accepts is learnt from a trivially valid file (the wording is
	// nobody's business): a verdict is "valid" when the output is that text
	normV := func(out, file string) string { return strings.TrimSpace(strings.ReplaceAll(out, file, "<FILE>")) }
	var validText string
	{
		cd := env.Sub("refcal")
		okf, badf := filepath.Join(cd, "ok.yaml"), filepath.Join(cd, "bad.yaml")
		_ = ioutil.WriteFile(okf, []byte("tasks:\n  t:\n    command: [\"true\"]\n"), 0o644)
		_ = ioutil.WriteFile(badf, []byte("tasks:\n  t:\n    command: [\"true\"]\npipelines:\n  p:\n    - task: nosuch\n"), 0o644)
		okOut := e.run(cd, "", 10*time.Second, "-c", okf, "validate", okf)
		badOut := e.run(cd, "", 10*time.Second, "-c", okf, "validate", badf)
		validText = normV(okOut.Stdout, okf)
		if validText == "" || validText == normV(badOut.Stdout, badf) {
			core.Broken("calibration: `validate` prints %q for a valid and %q for an invalid file", okOut.Stdout, badOut.Stdout)
		}
	}
	for i, c := range cases {
		orders := []int{2 * (i % 2), 2*(i%2) + 1}
		if k0 := fmt.Sprint(c.Mut[0]); k0 == "depmix" || k0 == "dep" {
			orders = []int{0, 1, 2, 3} // the broken entry before / after a valid one, the valid one declared earlier / later
		}
		for _, order := range orders {
			d := env.Sub("ref")
			f := filepath.Join(d, "tasks.yaml")
			y := refYAML(c, order)
			_ = ioutil.WriteFile(f, []byte(y), 0o644)
			list := e.run(d, "", 10*time.Second, "-c", f, "list")
			val := e.run(d, "", 10*time.Second, "-c", f, "validate", f)
			n += 2
			mut := fmt.Sprint(c.Mut)
			detail := map[string]interface{}{"mutation": c.Mut, "yaml": y, "list_exit": list.Exit, "list_stderr": tailS(list.Stderr, 400), "validate_stdout": val.Stdout}
			add := func(kind, what string) {
				rep.Add(core.Finding{Prop: "C18", Key: "C18:" + kind, What: what + " [mutation " + mut + "]", Detail: detail})
			}
			if list.Crashed() || list.TimedOut || val.Crashed() || val.TimedOut {
				add("crash-or-hang-while-loading", "taskctl crashed or hung while loading")
				continue
			}
			kind := fmt.Sprint(c.Mut[0])
			valid := normV(val.Stdout, f) == validText
			if c.WellFormed {
				if list.Exit != 0 || !valid {
					add("well-formed-rejected", fmt.Sprintf("a configuration without dangling references was rejected (list exit %d: %s; validate: %s)", list.Exit, lastLine(list.Stderr), lastLine(val.Stdout)))
					continue
				}
			} else {
				if list.Exit == 0 {
					add("dangling-accepted:"+kind, "`list` accepted a configuration with a broken reference")
				}
				if valid {
					add("dangling-validated:"+kind, "`validate` reports a configuration with a broken reference as valid")
				}
			}
			// consequence: pipelines of an accepted configuration run to completion
			if list.Exit == 0 {
				pnames := []string{"p1", "p2", "p3", "p4"}
				if _, has := c.Cfg.Pipes[""]; has {
					pnames = append(pnames, "")
				}
				for _, p := range pnames {
					if g := e.run(d, "", 10*time.Second, "-c", f, "graph", p); g.TimedOut || g.Crashed() {
						add("accepted-pipeline-breaks-graph:"+kind, fmt.Sprintf("`graph %s` of an accepted configuration hung or crashed", p))
					}
					run := e.run(d, "", 10*time.Second, "-c", f, "--raw", p)
					n++
					if run.TimedOut {
						add("accepted-pipeline-hangs:"+kind, fmt.Sprintf("pipeline %s of an accepted configuration did not finish within 10 s", p))
					} else if run.Crashed() {
						add("accepted-pipeline-crashes:"+kind, fmt.Sprintf("pipeline %s crashed: %s", p, lastLine(run.Stderr)))
					} else if strings.Contains(run.Stderr, "unknown task") || c.WellFormed && run.Exit != 0 {
						add("accepted-pipeline-aborts:"+kind, fmt.Sprintf("pipeline %s aborted (exit %d): %s", p, run.Exit, lastLine(run.Stderr)))
					} else if c.WellFormed {
						// the references are what is run: every task the pipeline refers to, directly or
						// through the pipelines it includes, has run
						want := map[string]bool{}
						var closure func(q string, depth int)
						closure = func(q string, depth int) {
							if depth > 8 {
								return
							}
							for _, st := range c.Cfg.Pipes[q] {
								if st.Task != "" {
									want[st.Task] = true
								} else if _, has := c.Cfg.Pipes[st.Pipe]; has {
									closure(st.Pipe, depth+1)
								}
							}
						}
						closure(p, 0)
						// (raw output of stages that run together may interleave within a line: "t2t1\n\n")
						for tn := range want {
							if !strings.Contains(run.Stdout, tn) {
								add("accepted-pipeline-does-not-run-what-it-refers-to", fmt.Sprintf("pipeline %s ran without running task %s, which it refers to (through an included pipeline or directly)", p, tn))
								break
							}
						}
					}
				}
			}
		}
		if i%5 == 0 {
			e.samples.Add(map[string]interface{}{"mutation": c.Mut, "wellformed": c.WellFormed})
		}
	}
	return e.result("model_checking", n, len(cases), "the base configuration (3 pipelines, 7 stages, 1 watcher) and every single broken reference of the six kinds at every position, as enumerated by Refs.tla with WellFormed evaluated; each written as YAML in two pipeline declaration orders and given to `list` and `validate`; every pipeline of every accepted configuration is run with a 10 s deadline",
		map[string]interface{}{"mutations": len(cases) - 1}, []string{"one broken reference at a time (plus the repaired twin = the base configuration)"})
}
