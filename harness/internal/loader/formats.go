package loader

import (
	"bytes"
	"encoding/json"
	"fmt"
	"io/ioutil"
	"net/http"
	"path/filepath"
	"regexp"
	"sort"
	"strings"
	"sync"
	"sync/atomic"
	"time"

	"verif/harness/internal/core"
)

type fmtCase struct {
	Vec []struct {
		F string `json:"f"`
		V string `json:"v"`
	} `json:"vec"`
	Built struct {
		Runs     bool     `json:"runs"`
		Imported bool     `json:"imported"`
		Tasks    []string `json:"tasks"`
		Joined   []string `json:"joined"`
	} `json:"built"`
}

func (c fmtCase) val(f string) string {
	for _, x := range c.Vec {
		if x.F == f {
			return x.V
		}
	}
	return ""
}
func (c fmtCase) dev() string {
	var p []string
	for _, x := range c.Vec {
		d := "absent"
		if x.F == "command" {
			d = "list"
		}
		if x.F == "import" {
			d = "none"
		}
		if x.V != d {
			p = append(p, x.F+"="+x.V)
		}
	}
	if len(p) == 0 {
		return "default"
	}
	return strings.Join(p, ",")
}

func strOrList(form string, items ...string) interface{} {
	if form == "scalar" {
		return items[0]
	}
	l := L{}
	for _, i := range items {
		l = append(l, i)
	}
	return l
}

// abstract configuration -> documents (main file, optionally an imported file)
func buildAbstract(c fmtCase, trace string) (main M, imported M) {
	t := M{}
	if c.val("command") == "scalar" {
		t["command"] = "/bin/echo main-c1 >> " + trace
	} else {
		// (a blank followed by two slashes inside a string is text, in every format)
		t["command"] = L{"/bin/echo main-c1 >> " + trace, "/bin/echo main-c2-$E1-$VV // not-a-comment >> " + trace}
	}
	if v := c.val("before"); v != "absent" {
		t["before"] = strOrList(v, "/bin/echo main-before >> "+trace)
	}
	if v := c.val("after"); v != "absent" {
		t["after"] = strOrList(v, "/bin/echo main-after >> "+trace)
	}
	switch c.val("timeout") {
	case "string":
		t["timeout"] = "3s"
	case "int":
		t["timeout"] = 3000000000
	}
	switch c.val("allow") {
	case "true":
		t["allow_failure"] = true
	case "false":
		t["allow_failure"] = false
	}
	switch c.val("env") {
	case "strings":
		t["env"] = M{"E1": "one", "E2": "two"}
	case "scalars":
		t["env"] = M{"E1": 2500000, "E2": true, "E3": 17} // (whole numbers print the same whatever the format's number type)
	}
	if c.val("variations") == "two" {
		t["variations"] = L{M{"VV": "a"}, M{"VV": "b"}}
	}
	switch c.val("variables") {
	case "strings":
		t["variables"] = M{"tv": "tvalue"}
	case "scalars":
		t["variables"] = M{"tv": 7000000, "tb": false, "tn": 5}
	}
	switch c.val("condition") {
	case "true":
		t["condition"] = "exit 0"
	case "false":
		t["condition"] = "exit 1"
	}
	if c.val("dir") == "present" {
		t["dir"] = "/tmp"
	}
	if c.val("exportas") == "present" {
		t["exportas"] = "MAIN_OUT"
	}
	doc := M{"tasks": M{"main": t, "dep": M{"command": L{"/bin/echo dep >> " + trace}, "description": "a dependency // with two slashes\tand a tab"}}}
	// a multi-line value that ends in a line break, as the LAST value of the YAML file when there are
	// no watchers (the marshaller writes it as a block scalar); task zz prints it
	doc["variables"] = M{"zlast": "two lines\nthe second ends in a line break\n"}
	doc["tasks"].(M)["zz"] = M{"command": L{"printf '[%s]' \"{{.zlast}}\" >> " + trace}}
	switch c.val("context") {
	case "plain":
		doc["contexts"] = M{"cx": M{"env": M{"CE": "ce"}, "before": L{"/bin/echo ctx-before >> " + trace}}}
		t["context"] = "cx"
	case "executable":
		doc["contexts"] = M{"cx": M{"executable": M{"bin": "/bin/sh", "args": L{"-c"}}, "quote": "'", "env": M{"CE": "ce"}}}
		t["context"] = "cx"
	}
	st2 := M{"task": "main", "name": "second"}
	switch c.val("dependson") {
	case "scalar":
		st2["depends_on"] = "first"
	case "list":
		st2["depends_on"] = L{"first"}
	}
	if c.val("stageenv") == "present" {
		st2["env"] = M{"E1": "stage"}
		st2["variables"] = M{"sv": "s"}
	}
	doc["pipelines"] = M{"p": L{M{"task": "dep", "name": "first"}, st2}}
	switch c.val("watcher") {
	case "scalar":
		doc["watchers"] = M{"w": M{"watch": "*.go", "events": "write", "task": "dep"}}
	case "list":
		doc["watchers"] = M{"w": M{"watch": L{"*.go", "*.txt"}, "events": L{"write", "create"}, "exclude": L{"x.go"}, "task": "dep"}}
	}
	if c.val("import") != "none" {
		imported = M{"tasks": M{"imported": M{"command": L{"/bin/echo imported >> " + trace}, "env": M{"IE": "1"}}}}
		// a pipeline and a task's variations declared in BOTH files: the lists are joined, whatever the
		// formats of the two files
		doc["pipelines"].(M)["q"] = L{M{"task": "dep", "name": "q1"}}
		imported["pipelines"] = M{"q": L{M{"task": "imported", "name": "q2", "depends_on": L{"q1"}}}}
		doc["tasks"].(M)["both"] = M{"command": L{"/bin/echo both-$VQ >> " + trace}, "variations": L{M{"VQ": "a"}}}
		imported["tasks"].(M)["both"] = M{"variations": L{M{"VQ": "b"}}}
	}
	return doc, imported
}

var reDur = regexp.MustCompile(`[0-9.]+(µs|ms|ns|s)\b`)
var reTime = regexp.MustCompile(`time="[^"]*"`)

func normalise(s, dir string) string {
	s = strings.ReplaceAll(s, dir, "<DIR>")
	s = reDur.ReplaceAllString(s, "<DUR>")
	s = reTime.ReplaceAllString(s, "time=<T>")
	return s
}

// CheckC16 is the engine behind C16.
func CheckC16(env *core.Env, rep *core.Report) *core.Result {
	e := newEng(env, rep)
	thorough := env.Thorough()
	r := core.MustHold(env, core.TLCOpts{Module: "Formats", Config: "Formats.cfg", Workers: 1})
	var cases []fmtCase
	for _, p := range r.Tagged("FMT") {
		var c fmtCase
		if err := json.Unmarshal([]byte(p), &c); err != nil {
			core.Broken("Formats: %v", err)
		}
		cases = append(cases, c)
	}
	e.note("Formats", r, fmt.Sprintf("%d abstract configurations: the default, every single deviation and every pair of deviations over 16 features (pairwise coverage of key x shape)", len(cases)))
	if len(cases) != 394 {
		core.Broken("Formats emitted %d vectors, expected 394", len(cases))
	}
	sort.Slice(cases, func(i, j int) bool { return cases[i].dev() < cases[j].dev() })
	sel := cases
	if !thorough {
		rng := env.Rand("formats")
		sel = nil
		for _, c := range cases {
			if strings.Count(c.dev(), ",") == 0 || rng.Intn(100) < 40 {
				sel = append(sel, c)
			}
		}
	}
	formats := []string{"yaml", "json", "toml"}
	var runs int64
	cmds := [][]string{{"list"}, {"show", "main"}, {"show", "dep"}, {"graph", "p"}, {"--raw", "main"}, {"--raw", "p"}, {"--raw", "dep", "main"}, {"--raw", "zz"}}
	core.Parallel(len(sel), 12, func(i int) {
		c := sel[i]
		cmds := cmds
		if c.val("import") != "none" {
			cmds = append(append([][]string{}, cmds...), []string{"graph", "q"}, []string{"--raw", "q"}, []string{"--raw", "both"})
		}
		type out struct {
			stdout string
			exit   int
			trace  string
			bad    string
		}
		results := map[string]map[string]out{}
		docs := map[string]string{}
		for fi, f := range formats {
			d := env.Sub("fmt")
			trace := filepath.Join(d, "trace")
			mainDoc, imp := buildAbstract(c, trace)
			if imp != nil {
				impFmt := f
				if c.val("import") == "cross" || c.val("import") == "mixed" {
					impFmt = formats[(fi+1)%3]
				}
				b, ok := serialise(imp, impFmt)
				if !ok {
					core.Broken("cannot serialise the imported document as %s", impFmt)
				}
				_ = ioutil.WriteFile(filepath.Join(d, "imp."+impFmt), b, 0o644)
				mainDoc["import"] = L{"imp." + impFmt}
				if c.val("import") == "mixed" {
					// then a second import in the importer's own format
					b2, _ := serialise(M{"tasks": M{"imported2": M{"command": L{"true"}, "env": M{"I2": "x"}}}}, f)
					_ = ioutil.WriteFile(filepath.Join(d, "imp2."+f), b2, 0o644)
					mainDoc["import"] = L{"imp." + impFmt, "imp2." + f}
				}
			}
			b, ok := serialise(mainDoc, f)
			if !ok {
				core.Broken("cannot serialise an abstract configuration as %s: %s", f, c.dev())
			}
			if f == "json" && i%2 == 1 {
				// the same JSON value in another spelling JSON allows: solidus escaped, a character outside
				// the basic plane as a surrogate pair
				b = bytes.ReplaceAll(b, []byte("/bin/echo"), []byte("\\/bin\\/echo"))
				b = bytes.ReplaceAll(b, []byte("a dependency"), []byte("a dependency \\ud83d\\ude00"))
			} else if i%2 == 1 {
				b = bytes.ReplaceAll(b, []byte("a dependency"), []byte("a dependency \U0001F600"))
			}
			cfg := filepath.Join(d, "cfg."+f)
			_ = ioutil.WriteFile(cfg, b, 0o644)
			docs[f] = string(b)
			results[f] = map[string]out{}
			for _, args := range cmds {
				_ = ioutil.WriteFile(trace, nil, 0o644)
				res := e.run(d, "", 20*time.Second, append([]string{"-c", cfg}, args...)...)
				atomic.AddInt64(&runs, 1)
				tb, _ := ioutil.ReadFile(trace)
				tr := string(tb)
				if len(args) == 2 && args[1] == "p" && c.val("dependson") == "absent" {
					// the two stages are independent and run concurrently: only the set of commands is determined
					ls := lines(tr)
					sort.Strings(ls)
					tr = strings.Join(ls, "\n")
				}
				o := out{stdout: normalise(strings.ReplaceAll(res.Stdout, "cfg."+f, "cfg.X"), d), exit: res.Exit, trace: tr}
				if res.Crashed() {
					o.bad = "crash: " + crashLine(res.Stderr)
				} else if res.TimedOut {
					o.bad = "hang"
				}
				results[f][strings.Join(args, " ")] = o
			}
		}
		add := func(kind, what string, detail map[string]interface{}) {
			detail["features"] = c.dev()
			detail["documents"] = docs
			rep.Add(core.Finding{Prop: "C16", Key: "C16:" + kind, What: what + " [" + c.dev() + "]", Detail: detail})
		}
		for _, args := range cmds {
			k := strings.Join(args, " ")
			y := results["yaml"][k]
			for _, f := range formats {
				if o := results[f][k]; o.bad != "" {
					add("crash:"+f, fmt.Sprintf("`taskctl %s` on the %s file: %s", k, f, o.bad), map[string]interface{}{"command": k})
				}
			}
			for _, f := range []string{"json", "toml"} {
				o := results[f][k]
				if o.exit != y.exit {
					add("exit-status-differs:"+f, fmt.Sprintf("`taskctl %s`: exit %d from the yaml file, %d from the %s file", k, y.exit, o.exit, f), map[string]interface{}{"command": k, "yaml_stdout": clipS(y.stdout, 800), f + "_stdout": clipS(o.stdout, 800)})
				} else if o.trace != y.trace {
					add("executed-commands-differ:"+f, fmt.Sprintf("`taskctl %s`: commands executed %q (yaml) vs %q (%s)", k, y.trace, o.trace, f), map[string]interface{}{"command": k})
				} else if o.stdout != y.stdout && !strings.HasPrefix(k, "--raw") {
					add("output-differs:"+f, fmt.Sprintf("`taskctl %s`: output differs between the yaml and the %s file", k, f), map[string]interface{}{"command": k, "yaml_stdout": clipS(y.stdout, 1200), f + "_stdout": clipS(o.stdout, 1200)})
				}
			}
		}
		// against the model's Built(cfg): task set, and whether running `main` executes its commands
		for _, f := range formats {
			lst := results[f]["list"]
			for _, tn := range c.Built.Tasks {
				if lst.exit == 0 && !hasWord(lst.stdout, tn) {
					add("built-differs-from-model:"+f, fmt.Sprintf("task %s is missing from `list` of the %s file", tn, f), map[string]interface{}{"list": lst.stdout})
				}
			}
			m := results[f]["--raw main"]
			ran := strings.Contains(m.trace, "main-c1")
			if m.exit == 0 && ran != c.Built.Runs {
				add("built-differs-from-model:"+f, fmt.Sprintf("running main from the %s file executed its commands=%v, model %v", f, ran, c.Built.Runs), map[string]interface{}{"trace": m.trace})
			}
			// the lists declared in both files are joined: both stages of q run (in dependency order), both
			// variations of `both`
			if len(c.Built.Joined) > 0 {
				q, bt := results[f]["--raw q"], results[f]["--raw both"]
				if q.exit == 0 && strings.Join(lines(q.trace), ",") != "dep,imported" {
					add("built-differs-from-model:"+f, fmt.Sprintf("pipeline q (one stage in the importing, one in the imported file) executed %q from the %s file, model: dep then imported", q.trace, f), map[string]interface{}{"trace": q.trace})
				}
				if bt.exit == 0 && strings.Join(lines(bt.trace), ",") != "both-a,both-b" {
					add("built-differs-from-model:"+f, fmt.Sprintf("task both (one variation in each file) executed %q from the %s file, model: both-a, both-b", bt.trace, f), map[string]interface{}{"trace": bt.trace})
				}
				if q.exit != 0 || bt.exit != 0 {
					add("valid-configuration-rejected:"+f, fmt.Sprintf("running q / both from the %s file: exit %d / %d", f, q.exit, bt.exit), map[string]interface{}{})
				}
			}
			if lst.exit != 0 {
				add("valid-configuration-rejected:"+f, fmt.Sprintf("the %s file was rejected: %s", f, ""), map[string]interface{}{})
			}
		}
		if i%60 == 0 {
			e.samples.Add(map[string]interface{}{"features": c.dev(), "yaml": clipS(docs["yaml"], 500), "toml": clipS(docs["toml"], 500)})
		}
	})
	httpSkipped := false
	// the same three files fetched over HTTP (-c http://127.0.0.1:<port>/<k>/cfg.<format>): a server that
	// labels everything text/plain, application/octet-stream or nothing at all leaves the format to the
	// URL's extension; the three formats still load to the same thing
	func() {
		var mu sync.Mutex
		served := map[string][]byte{}
		ctype := map[string]string{}
		srv := loopbackServer(http.HandlerFunc(func(w http.ResponseWriter, r *http.Request) {
			mu.Lock()
			b, ok := served[r.URL.Path]
			ct := ctype[r.URL.Path]
			mu.Unlock()
			if !ok {
				http.NotFound(w, r)
				return
			}
			if ct != "" {
				w.Header().Set("Content-Type", ct)
			} else {
				w.Header()["Content-Type"] = nil // no header at all
			}
			_, _ = w.Write(b)
		}))
		if srv == nil {
			httpSkipped = true
			return // no loopback listener in this sandbox: the URL scenarios are left out
		}
		defer srv.Close()
		cts := []string{"text/plain; charset=utf-8", "application/octet-stream", "", "text/plain"}
		k := 0
		for _, c := range sel {
			if c.val("import") != "none" || k >= 8 {
				continue
			}
			k++
			d := env.Sub("fmturl")
			trace := filepath.Join(d, "trace")
			outs := map[string][3]string{}
			for _, f := range formats {
				doc, _ := buildAbstract(c, trace)
				b, _ := serialise(doc, f)
				pth := fmt.Sprintf("/%d/cfg.%s", k, f)
				mu.Lock()
				served[pth], ctype[pth] = b, cts[(k+len(f))%len(cts)]
				mu.Unlock()
				var o [3]string
				for j, args := range [][]string{{"list"}, {"show", "main"}, {"--raw", "main"}} {
					_ = ioutil.WriteFile(trace, nil, 0o644)
					// every other configuration is addressed with a query string (which has a dot of its
					// own): the format is a matter of the URL's path, not of what follows it
					query := ""
					if k%2 == 0 {
						query = "?rev=42&name=a.b"
					}
					res := e.run(d, "", 20*time.Second, append([]string{"-c", srv.URL + pth + query}, args...)...)
					atomic.AddInt64(&runs, 1)
					tb, _ := ioutil.ReadFile(trace)
					o[j] = fmt.Sprintf("exit=%d crashed=%v\n%s\n%s", res.Exit, res.Crashed() || res.TimedOut, normalise(strings.ReplaceAll(res.Stdout, "cfg."+f, "cfg.X"), d), string(tb))
					if j == 2 {
						o[j] = fmt.Sprintf("exit=%d crashed=%v\n%s", res.Exit, res.Crashed() || res.TimedOut, string(tb))
					}
				}
				outs[f] = o
			}
			for _, f := range []string{"json", "toml"} {
				for j, name := range []string{"list", "show main", "--raw main"} {
					if outs[f][j] != outs["yaml"][j] || !strings.HasPrefix(outs[f][0], "exit=0 crashed=false") {
						rep.Add(core.Finding{Prop: "C16", Key: "C16:over-http:differs:" + f, What: fmt.Sprintf("the configuration fetched over HTTP (content type %q): `taskctl %s` gives %q from the %s file and %q from the yaml file [%s]", ctype[fmt.Sprintf("/%d/cfg.%s", k, f)], name, clipS(outs[f][j], 300), f, clipS(outs["yaml"][j], 300), c.dev()),
							Detail: map[string]interface{}{"features": c.dev(), "format": f, "command": name}})
						break
					}
				}
			}
		}
	}()
	// YAML's own notation for sharing: anchors, aliases, a merge key whose value is overridden, two
	// merged anchors that share a key. Written out in full as JSON it is the same configuration.
	{
		d := env.Sub("fmtanchor")
		trace := filepath.Join(d, "trace")
		var yml string
		// unknown top-level keys are rejected by the loader, so the anchors live inside the tasks section
		yml = fmt.Sprintf("tasks:\n  v: &base\n    command: [\"/bin/echo base >> %s\"]\n    env: {A: \"1\", B: \"2\"}\n  w: &extra\n    command: [\"/bin/echo w >> %s\"]\n    env: {B: \"3\"}\n    description: shared\n  t:\n    <<: *base\n    command: [\"/bin/echo own-$A-$B >> %s\"]\n  u:\n    <<: [*extra, *base]\n", trace, trace, trace)
		jsn := fmt.Sprintf(`{"tasks": {"v": {"command": ["/bin/echo base >> %s"], "env": {"A": "1", "B": "2"}}, "w": {"command": ["/bin/echo w >> %s"], "env": {"B": "3"}, "description": "shared"}, "t": {"command": ["/bin/echo own-$A-$B >> %s"], "env": {"A": "1", "B": "2"}}, "u": {"command": ["/bin/echo w >> %s"], "env": {"B": "3"}, "description": "shared"}}}`, trace, trace, trace, trace)
		_ = ioutil.WriteFile(filepath.Join(d, "a.yaml"), []byte(yml), 0o644)
		_ = ioutil.WriteFile(filepath.Join(d, "a.json"), []byte(jsn), 0o644)
		outs := map[string]string{}
		for _, f := range []string{"yaml", "json"} {
			var all strings.Builder
			for _, args := range [][]string{{"list"}, {"show", "t"}, {"show", "u"}, {"--raw", "t"}, {"--raw", "u"}, {"--raw", "v"}} {
				_ = ioutil.WriteFile(trace, nil, 0o644)
				res := e.run(d, "", 20*time.Second, append([]string{"-c", filepath.Join(d, "a."+f)}, args...)...)
				atomic.AddInt64(&runs, 1)
				tb, _ := ioutil.ReadFile(trace)
				st := normalise(strings.ReplaceAll(res.Stdout, "a."+f, "a.X"), d)
				if strings.HasPrefix(args[0], "--raw") {
					st = ""
				}
				fmt.Fprintf(&all, "%v: exit=%d crashed=%v trace=%q\n%s\n", args, res.Exit, res.Crashed() || res.TimedOut, string(tb), st)
			}
			outs[f] = all.String()
		}
		if outs["yaml"] != outs["json"] || !strings.Contains(outs["yaml"], "[list]: exit=0") {
			rep.Add(core.Finding{Prop: "C16", Key: "C16:yaml-anchors-and-merge-keys-differ-from-the-written-out-json", What: "a YAML file that uses anchors and merge keys (one merged value overridden, two merged anchors sharing a key) and the same configuration written out as JSON give different results",
				Detail: map[string]interface{}{"yaml": yml, "json": jsn, "yaml_results": clipS(outs["yaml"], 1500), "json_results": clipS(outs["json"], 1500)}})
		}
	}
	// a string-or-list field given as a string in one file and as a list in the file it imports (and the
	// other way round): whatever the merge makes of that, it makes the same of it in every format
	{
		outs := map[string]string{}
		for _, f := range formats {
			d := env.Sub("fmtmix")
			trace := filepath.Join(d, "trace")
			mainDoc := M{"import": L{"imp." + f}, "tasks": M{
				"m1": M{"command": "/bin/echo m1-main >> " + trace, "before": L{"/bin/echo m1-before-main >> " + trace}},
				"m2": M{"command": L{"/bin/echo m2-main >> " + trace}, "after": "/bin/echo m2-after-main >> " + trace}},
				"watchers": M{"w": M{"task": "m1", "watch": "*.go", "events": L{"write"}}}}
			impDoc := M{"tasks": M{
				"m1": M{"command": L{"/bin/echo m1-imp >> " + trace}, "before": "/bin/echo m1-before-imp >> " + trace},
				"m2": M{"command": "/bin/echo m2-imp >> " + trace, "after": L{"/bin/echo m2-after-imp >> " + trace}}},
				"watchers": M{"w": M{"task": "m1", "watch": L{"*.txt"}, "events": "create"}}}
			bm, _ := serialise(mainDoc, f)
			bi, _ := serialise(impDoc, f)
			_ = ioutil.WriteFile(filepath.Join(d, "cfg."+f), bm, 0o644)
			_ = ioutil.WriteFile(filepath.Join(d, "imp."+f), bi, 0o644)
			var all strings.Builder
			for _, args := range [][]string{{"list"}, {"show", "m1"}, {"show", "m2"}, {"--raw", "m1"}, {"--raw", "m2"}} {
				_ = ioutil.WriteFile(trace, nil, 0o644)
				res := e.run(d, "", 20*time.Second, append([]string{"-c", filepath.Join(d, "cfg."+f)}, args...)...)
				atomic.AddInt64(&runs, 1)
				tb, _ := ioutil.ReadFile(trace)
				st := normalise(strings.ReplaceAll(strings.ReplaceAll(res.Stdout, "cfg."+f, "cfg.X"), "imp."+f, "imp.X"), d)
				if strings.HasPrefix(args[0], "--raw") || res.Exit != 0 {
					st = ""
				}
				fmt.Fprintf(&all, "%v: exit=%d crashed=%v trace=%q\n%s\n", args, res.Exit, res.Crashed() || res.TimedOut, string(tb), st)
			}
			outs[f] = all.String()
		}
		for _, f := range []string{"json", "toml"} {
			if outs[f] != outs["yaml"] || strings.Contains(outs[f], "crashed=true") {
				rep.Add(core.Finding{Prop: "C16", Key: "C16:string-or-list-across-import-differs:" + f, What: fmt.Sprintf("fields given as a string in one file and as a list in the file it imports: the %s files and the yaml files give different results", f),
					Detail: map[string]interface{}{"yaml_results": clipS(outs["yaml"], 1500), f + "_results": clipS(outs[f], 1500)}})
			}
		}
	}
	return e.result("model_checking", int(runs), len(sel),
		"abstract configurations from Formats.tla (16 features: command scalar/list, before/after absent/scalar/list, timeout string/int, allow_failure, env and variables with string or numeric/boolean values, variations, condition, context plain/with executable struct, depends_on scalar/list, import same-format/cross-format, watcher scalar/list fields, stage env, dir, exportas; default + all single + all pairs; quick: all singles and 40% of pairs), each serialised to YAML, JSON and TOML with the libraries taskctl itself uses and given to list, show main, show dep, graph p, run main, run p, run dep main; exit status, executed commands and (for non-run commands) normalised stdout must agree pairwise, and agree with the model's Built; eight of them are also fetched over HTTP from a loopback server that labels them text/plain, application/octet-stream or not at all",
		map[string]interface{}{"vectors_in_model": len(cases), "vectors_run": len(sel), "url_scenarios_left_out_no_loopback_listener": httpSkipped},
		[]string{"the serialisers are trusted harness code; string keys and values are always quoted by yaml.v2's marshaller (YAML 1.1 implicit typing is avoided)",
			"that three third-party parsers map bytes to the same tree is observed, not modelled"})
}
