package loader

import (
	"bytes"
	"encoding/json"
	"fmt"
	"hash/crc32"
	"io/ioutil"
	"net/http"
	"os"
	"path/filepath"
	"sort"
	"strings"
	"sync"
	"sync/atomic"
	"time"

	toml "github.com/pelletier/go-toml"
	yaml "gopkg.in/yaml.v2"

	"verif/harness/internal/core"
)

type shpCase struct {
	Kind      string   `json:"kind"`
	Pos       []string `json:"pos"`
	Shape     string   `json:"shape"`
	Lines     []string `json:"lines"`
	Missing   bool     `json:"missing"`
	Predicted string   `json:"predicted"`
}

type M = map[string]interface{}
type L = []interface{}

// baseDoc uses every documented key of every section.
func baseDoc(envFile string) M {
	return M{
		"import":    L{"inc.yaml"},
		"debug":     false,
		"output":    "raw",
		"dryrun":    false,
		"summary":   true,
		"variables": M{"gv": "g1"},
		"contexts": M{"entry": M{
			"dir": "/tmp", "up": L{"true"}, "down": L{"true"}, "before": L{"true"}, "after": L{"true"},
			"env": M{"CE": "1"}, "variables": M{"cv": "1"}, "executable": M{"bin": "/bin/sh", "args": L{"-c"}}, "quote": "'",
		}},
		"tasks": M{"entry": M{
			"name": "entry", "description": "d", "condition": "true", "command": L{"echo a", "echo b"}, "after": L{"true"}, "before": L{"true"},
			"context": "entry", "variations": L{M{"V": "1"}, M{"V": "2"}}, "dir": "/tmp", "timeout": "5s", "allow_failure": false,
			"interactive": false, "exportas": "OUT", "env": M{"TE": "1"}, "env_file": envFile, "variables": M{"tv": "1"},
		}, "other": M{"command": L{"true"}}},
		"pipelines": M{"entry": L{
			M{"name": "s1", "condition": "true", "task": "entry", "depends_on": L{}, "allow_failure": true, "dir": "/tmp", "env": M{"SE": "1"}, "variables": M{"sv": "1"}},
			M{"name": "s2", "task": "other", "depends_on": L{"s1"}},
		}},
		"watchers": M{"entry": M{"events": L{"write"}, "watch": L{"*.go"}, "exclude": L{"x.go"}, "task": "entry", "variables": M{"wv": "1"}}},
	}
}

func shapeValue(shape string) (interface{}, bool) {
	switch shape {
	case "null":
		return nil, true
	case "int":
		return 42, true
	case "string":
		return "str", true
	case "emptystring":
		return "", true
	case "bool":
		return true, true
	case "list":
		return L{"x", "y"}, true
	case "map":
		return M{"k": "v"}, true
	case "listofmaps":
		return L{M{"k": "v"}, M{"k2": L{"z"}}}, true
	case "nestedlist":
		return L{L{"x"}, L{}}, true
	}
	return nil, false
}

func deepCopy(v interface{}) interface{} {
	switch x := v.(type) {
	case M:
		m := M{}
		for k, y := range x {
			m[k] = deepCopy(y)
		}
		return m
	case L:
		l := make(L, len(x))
		for i, y := range x {
			l[i] = deepCopy(y)
		}
		return l
	}
	return v
}

// mutate applies (position, shape) to the document; ok=false when the case cannot be expressed.
func mutate(doc M, pos []string, shape string) (M, bool) {
	d := deepCopy(doc).(M)
	// locate the parent container and key
	var parent M
	var key string
	switch {
	case pos[0] == "top":
		if pos[1] == "import[0]" {
			v, ok := shapeValue(shape)
			if !ok {
				return nil, false
			}
			d["import"] = L{v}
			return d, true
		}
		parent, key = d, pos[1]
	case len(pos) == 1:
		parent, key = d, pos[0]
	case len(pos) == 2:
		parent, key = d[pos[0]].(M), "entry"
	default:
		if pos[0] == "pipelines" {
			parent, key = d["pipelines"].(M)["entry"].(L)[0].(M), pos[2]
		} else {
			parent, key = d[pos[0]].(M)["entry"].(M), pos[2]
		}
	}
	switch shape {
	case "intkey", "boolkey", "nullkey":
		// a key that is not a string next to the entry's fields (only YAML can express it)
		c, ok := parent[key].(M)
		if !ok {
			return nil, false
		}
		g := map[interface{}]interface{}{}
		for k, v := range c {
			g[k] = v
		}
		switch shape {
		case "intkey":
			g[2024] = "x"
		case "boolkey":
			g[true] = "x"
		default:
			g[nil] = "x"
		}
		parent[key] = g
		return d, true
	case "deleted":
		delete(parent, key)
		return d, true
	case "duplicated":
		return nil, false // expressed on the text level (YAML) for top-level sections only, see dupText
	case "unknownkey":
		switch c := parent[key].(type) {
		case M:
			c["no_such_key"] = "x"
		case L:
			if len(c) > 0 {
				if m, ok := c[0].(M); ok {
					m["no_such_key"] = "x"
					return d, true
				}
			}
			return nil, false
		default:
			return nil, false
		}
		return d, true
	}
	v, ok := shapeValue(shape)
	if !ok {
		return nil, false
	}
	parent[key] = v
	return d, true
}

// safeMutate applies a second mutation; the first may have removed the container it addresses.
func safeMutate(doc M, pos []string, shape string) (d M, ok bool) {
	defer func() {
		if recover() != nil {
			d, ok = nil, false
		}
	}()
	return mutate(doc, pos, shape)
}

func serialise(doc M, format string) ([]byte, bool) {
	switch format {
	case "yaml":
		b, err := yaml.Marshal(doc)
		return b, err == nil
	case "json":
		b, err := json.Marshal(doc)
		return b, err == nil
	default:
		t, err := toml.TreeFromMap(tomlable(doc).(M))
		if err != nil {
			return nil, false
		}
		s, err := t.ToTomlString()
		return []byte(s), err == nil
	}
}

// tomlable converts []interface{} of maps to the typed slices go-toml expects; nil has no TOML form.
func tomlable(v interface{}) interface{} {
	switch x := v.(type) {
	case M:
		m := M{}
		for k, y := range x {
			if y == nil {
				continue
			}
			m[k] = tomlable(y)
		}
		return m
	case L:
		allMaps := len(x) > 0
		for _, y := range x {
			if _, ok := y.(M); !ok {
				allMaps = false
			}
		}
		if allMaps {
			var out []map[string]interface{}
			for _, y := range x {
				out = append(out, tomlable(y).(M))
			}
			return out
		}
		l := make(L, 0, len(x))
		for _, y := range x {
			if y != nil {
				l = append(l, tomlable(y))
			}
		}
		return l
	}
	return v
}

var lineText = map[string]string{"kv": "K1=v1", "kempty": "K2=", "emptykey": "=v3", "blankkey": " \t=v9", "nokv": "JUSTAKEY", "blank": "", "kvv": "K4=a=b", "comment": "# a comment", "spaces": "   ", "crlf": "K5=v5\r", "dq": "K6=\"", "sq": "K7='", "quoted": "K8=\"v8\""}

// CheckC15 is the engine behind C15.
func CheckC15(env *core.Env, rep *core.Report) *core.Result {
	e := newEng(env, rep)
	thorough := env.Thorough()
	r := core.MustHold(env, core.TLCOpts{Module: "Shapes", Config: "Shapes.cfg", Workers: 1})
	var cases []shpCase
	for _, p := range r.Tagged("SHP") {
		var c shpCase
		if err := json.Unmarshal([]byte(p), &c); err != nil {
			core.Broken("Shapes: %v", err)
		}
		cases = append(cases, c)
	}
	e.note("Shapes", r, fmt.Sprintf("%d cases: (position, shape) over the configuration schema and env_file line sequences; Total holds", len(cases)))
	if len(cases) != 3191 {
		core.Broken("Shapes emitted %d cases, expected 3191", len(cases))
	}
	sort.Slice(cases, func(i, j int) bool { return core.JSON(cases[i]) < core.JSON(cases[j]) })
	var runs, skipped int64
	distinct := core.NewDistinct()
	judge := func(kind string, res *core.BinResult, what string, detail interface{}) bool {
		atomic.AddInt64(&runs, 1)
		switch {
		case res.TimedOut:
			rep.Add(core.Finding{Prop: "C15", Key: "C15:hang:" + kind, What: "taskctl did not finish within the deadline: " + what, Detail: detail})
		case res.Crashed():
			rep.Add(core.Finding{Prop: "C15", Key: "C15:crash:" + kind, What: "taskctl crashed (" + crashLine(res.Stderr) + "): " + what, Detail: detail})
		case res.Exit != 0 && res.Exit != 1:
			rep.Add(core.Finding{Prop: "C15", Key: "C15:abnormal-exit:" + kind, What: fmt.Sprintf("exit status %d: %s", res.Exit, what), Detail: detail})
		default:
			return true
		}
		return false
	}
	cmdsFor := func(f string) [][]string {
		return [][]string{{"-c", f, "list"}, {"-c", f, "show", "entry"}, {"-c", f, "graph", "entry"}, {"-c", f, "validate", f}}
	}
	rng := env.Rand("shapes")
	type job struct {
		c        shpCase
		format   string
		noImport bool // the base document without its import (the raw tree is decoded unmerged)
	}
	var jobs []job
	for _, c := range cases {
		if c.Kind != "doc" {
			continue
		}
		jobs = append(jobs, job{c: c, format: "yaml"})
		isKey := strings.HasSuffix(c.Shape, "key") && c.Shape != "unknownkey"
		if (isKey || thorough || rng.Intn(4) == 0) && !(len(c.Pos) == 2 && c.Pos[0] == "top" && strings.HasPrefix(c.Pos[1], "import")) {
			jobs = append(jobs, job{c: c, format: "yaml", noImport: true})
		}
		if isKey {
			continue
		}
		if thorough || rng.Intn(3) == 0 {
			jobs = append(jobs, job{c: c, format: "json"})
		}
		if thorough || rng.Intn(3) == 0 {
			jobs = append(jobs, job{c: c, format: "toml"})
		}
	}
	core.Parallel(len(jobs), 16, func(i int) {
		j := jobs[i]
		d := env.Sub("shp")
		envf := filepath.Join(d, "x.env")
		_ = ioutil.WriteFile(envf, []byte("K=v\n"), 0o644)
		_ = ioutil.WriteFile(filepath.Join(d, "inc.yaml"), []byte("tasks:\n  included:\n    command: [\"true\"]\n    env:\n      IK: iv\n"), 0o644)
		base := baseDoc(envf)
		if j.noImport {
			delete(base, "import")
		}
		var data []byte
		if j.c.Shape == "duplicated" {
			// duplicate key on the text level: top-level sections, YAML only
			if j.format != "yaml" || len(j.c.Pos) != 1 {
				atomic.AddInt64(&skipped, 1)
				return
			}
			b, _ := yaml.Marshal(base)
			sec, _ := yaml.Marshal(M{j.c.Pos[0]: base[j.c.Pos[0]]})
			data = append(b, sec...)
		} else {
			doc, ok := mutate(base, j.c.Pos, j.c.Shape)
			if !ok {
				atomic.AddInt64(&skipped, 1)
				return
			}
			var ok2 bool
			data, ok2 = serialise(doc, j.format)
			if !ok2 {
				atomic.AddInt64(&skipped, 1) // the format cannot express this shape
				return
			}
		}
		f := filepath.Join(d, "cfg."+j.format)
		_ = ioutil.WriteFile(f, data, 0o644)
		what := fmt.Sprintf("%s at %s, %s", j.c.Shape, strings.Join(j.c.Pos, "."), j.format)
		if j.noImport {
			what += ", no import"
		}
		distinct.Add(what)
		for _, args := range cmdsFor(f) {
			res := e.run(d, "", 8*time.Second, args...)
			detail := map[string]interface{}{"position": j.c.Pos, "shape": j.c.Shape, "format": j.format, "args": args[2:], "document": clipS(string(data), 3000), "stderr": tailS(res.Stderr, 1200)}
			key := fmt.Sprintf("%s:%s:%s", j.format, strings.Join(j.c.Pos, "."), j.c.Shape)
			if j.noImport {
				key += ":noimport"
			}
			if !judge(key, res, what+" ("+strings.Join(args[2:], " ")+")", detail) {
				break
			}
			if args[2] == "list" && j.c.Predicted == "Rejected" && res.Exit == 0 {
				rep.Add(core.Finding{Prop: "C15", Key: "C15:unknown-key-accepted:" + key, What: "a document with an unknown key was accepted: " + what, Detail: detail})
			}
		}
		if i%331 == 0 {
			e.samples.Add(map[string]interface{}{"kind": "shape", "position": j.c.Pos, "shape": j.c.Shape, "format": j.format})
		}
	})

	// pairs of mutations (thorough): two positions mutated in one document
	if thorough {
		var docCases []shpCase
		for _, c := range cases {
			if c.Kind == "doc" && c.Shape != "duplicated" {
				docCases = append(docCases, c)
			}
		}
		prng := env.Rand("shape-pairs")
		type pair struct{ a, b shpCase }
		var pairs []pair
		for k := 0; k < 2500; k++ {
			pairs = append(pairs, pair{docCases[prng.Intn(len(docCases))], docCases[prng.Intn(len(docCases))]})
		}
		core.Parallel(len(pairs), 16, func(i int) {
			pr := pairs[i]
			d := env.Sub("shp2")
			envf := filepath.Join(d, "x.env")
			_ = ioutil.WriteFile(envf, []byte("K=v\n"), 0o644)
			_ = ioutil.WriteFile(filepath.Join(d, "inc.yaml"), []byte("tasks:\n  included:\n    command: [\"true\"]\n"), 0o644)
			doc, ok := mutate(baseDoc(envf), pr.a.Pos, pr.a.Shape)
			if !ok {
				return
			}
			doc2, ok := safeMutate(doc, pr.b.Pos, pr.b.Shape)
			if !ok {
				return
			}
			data, ok := serialise(doc2, "yaml")
			if !ok {
				return
			}
			f := filepath.Join(d, "cfg.yaml")
			_ = ioutil.WriteFile(f, data, 0o644)
			what := fmt.Sprintf("%s at %s and %s at %s, yaml", pr.a.Shape, strings.Join(pr.a.Pos, "."), pr.b.Shape, strings.Join(pr.b.Pos, "."))
			for _, args := range cmdsFor(f) {
				res := e.run(d, "", 8*time.Second, args...)
				if !judge("yaml:pair:"+strings.Join(pr.a.Pos, ".")+":"+pr.a.Shape+"+"+strings.Join(pr.b.Pos, ".")+":"+pr.b.Shape, res, what, map[string]interface{}{"document": clipS(string(data), 3000), "stderr": tailS(res.Stderr, 1200)}) {
					break
				}
			}
			distinct.Add(what)
		})
	}

	// env_file line sequences
	var ef []shpCase
	for _, c := range cases {
		if c.Kind == "envfile" && (thorough || len(c.Lines) <= 2 || rng.Intn(8) == 0) {
			ef = append(ef, c)
		}
	}
	core.Parallel(len(ef), 16, func(i int) {
		c := ef[i]
		d := env.Sub("envf")
		envf := filepath.Join(d, "x.env")
		if !c.Missing {
			var b strings.Builder
			for k, l := range c.Lines {
				b.WriteString(lineText[l])
				if k < len(c.Lines)-1 || i%2 == 0 {
					b.WriteString("\n")
				}
			}
			_ = ioutil.WriteFile(envf, []byte(b.String()), 0o644)
		}
		y := fmt.Sprintf("tasks:\n  t:\n    env_file: %s\n    command: [\"echo OBS $K1\"]\n", yq(envf))
		f := filepath.Join(d, "tasks.yaml")
		_ = ioutil.WriteFile(f, []byte(y), 0o644)
		what := fmt.Sprintf("env_file lines %v (missing=%v)", c.Lines, c.Missing)
		distinct.Add(what)
		for _, args := range [][]string{{"-c", f, "list"}, {"-c", f, "--raw", "t"}} {
			res := e.run(d, "", 8*time.Second, args...)
			detail := map[string]interface{}{"lines": c.Lines, "missing": c.Missing, "stderr": tailS(res.Stderr, 800)}
			if !judge("envfile:"+strings.Join(c.Lines, ","), res, what, detail) {
				break
			}
			if c.Predicted == "Rejected" && res.Exit == 0 {
				rep.Add(core.Finding{Prop: "C15", Key: "C15:envfile:invalid-accepted", What: "an invalid env_file was accepted: " + what, Detail: detail})
			}
			if c.Predicted == "Loaded" && res.Exit != 0 {
				rep.Add(core.Finding{Prop: "C15", Key: "C15:envfile:valid-rejected", What: "a valid env_file was rejected: " + what + ": " + lastLine(res.Stderr), Detail: detail})
			}
		}
	})

	// byte-level perturbations of the base document in each format (universal oracle only)
	var byteRuns int64
	for _, format := range []string{"yaml", "json", "toml"} {
		d := env.Sub("bytes")
		envf := filepath.Join(d, "x.env")
		_ = ioutil.WriteFile(envf, []byte("K=v\n"), 0o644)
		bd := baseDoc(envf)
		bd["import"] = L{}
		data, ok := serialise(bd, format)
		if !ok {
			core.Broken("cannot serialise the base document as %s", format)
		}
		var variants [][]byte
		for k := 1; k < 16; k++ {
			variants = append(variants, data[:len(data)*k/16]) // truncation
		}
		if format == "yaml" {
			// a YAML document cut at (nearly) every position of a compact configuration: inside keys, inside
			// values, after a colon, in the middle of a list
			small := []byte("tasks:\n  entry:\n    command:\n      - echo one\n      - echo two\n    env:\n      A: b\npipelines:\n  entry:\n    - task: entry\n      name: first\nwatchers:\n  w:\n    task: entry\n    watch: [\"*.go\"]\n")
			step := 1
			if !thorough {
				step = 3
			}
			for k := 1; k < len(small); k += step {
				variants = append(variants, small[:k])
			}
		}
		for _, at := range []int{0, len(data) / 3, len(data) - 1} {
			v := append(append(append([]byte{}, data[:at]...), 0xff, 0xfe, 0xc3), data[at:]...)
			variants = append(variants, v) // invalid UTF-8
		}
		variants = append(variants, []byte{}, []byte("\x00\x00\x00"), bytes.Repeat([]byte("["), 5000), bytes.Repeat([]byte("{"), 5000))
		if format == "yaml" {
			variants = append(variants,
				[]byte("a: &a [*a]\ntasks: *a\n"), // self-referential anchor
				[]byte("base: &b\n  command: [\"true\"]\ntasks:\n  t:\n    <<: *b\n  u: *b\npipelines:\n  p:\n    - task: t\n"),
				[]byte("x: &x {y: *x}\n"),
				// a stage naming a task AND its own pipeline; mutual variant
				[]byte("tasks:\n  t:\n    command: [\"true\"]\npipelines:\n  entry:\n    - task: t\n      pipeline: entry\n"),
				[]byte("tasks:\n  t:\n    command: [\"true\"]\npipelines:\n  entry:\n    - task: t\n      pipeline: b\n  b:\n    - task: t\n      pipeline: entry\n"),
				// imports of mixed formats in both orders
				[]byte("import: [\"i1.json\", \"i2.yaml\"]\ntasks:\n  t:\n    command: [\"true\"]\n"),
				[]byte("import: [\"i2.yaml\", \"i1.toml\", \"i3.yaml\"]\ntasks:\n  t:\n    command: [\"true\"]\n"),
				[]byte("import: [\".\"]\ntasks:\n  t:\n    command: [\"true\"]\n"), // the file's own directory
				[]byte("import: [\"../\" ]\ntasks:\n  t:\n    command: [\"true\"]\n"),
				[]byte("import: [\"cfg.yaml\", \".\", \".\"]\ntasks:\n  t:\n    command: [\"true\"]\n"),
				// the importer has no section of its own; its first import has a JSON / TOML import of its
				// own (and so comes back with string keys), a later plain YAML import defines the same section
				[]byte("import: [\"m1.yaml\", \"i2.yaml\"]\n"),
				[]byte("import: [\"m2.yaml\", \"i3.yaml\", \"i2.yaml\"]\npipelines:\n  entry:\n    - task: y2\n"),
				[]byte("import: [\"i3.yaml\", \"m1.yaml\", \"i2.yaml\"]\ncontexts:\n  c:\n    env:\n      A: \"1\"\n"),
				// a directory one of whose files has an import of its own, the other not
				[]byte("import: [\"sub\"]\ntasks:\n  t:\n    command: [\"true\"]\n"),
				[]byte("import: [\"i3.yaml\", \"sub\"]\ntasks:\n  t:\n    command: [\"true\"]\n    env:\n      A: \"1\"\n"),
				[]byte("tasks: &t\n  t: {command: [\"true\"]}\npipelines: *t\n"),
				[]byte("a: &a [\"l\",\"l\",\"l\",\"l\",\"l\",\"l\",\"l\",\"l\",\"l\"]\nb: &b [*a,*a,*a,*a,*a,*a,*a,*a,*a]\nc: &c [*b,*b,*b,*b,*b,*b,*b,*b,*b]\nd: &d [*c,*c,*c,*c,*c,*c,*c,*c,*c]\ne: &e [*d,*d,*d,*d,*d,*d,*d,*d,*d]\nf: &f [*e,*e,*e,*e,*e,*e,*e,*e,*e]\ntasks: *f\n"),
			)
		}
		core.Parallel(len(variants), 8, func(i int) {
			dd := env.Sub("bv")
			f := filepath.Join(dd, "cfg."+format)
			_ = ioutil.WriteFile(f, variants[i], 0o644)
			_ = ioutil.WriteFile(filepath.Join(dd, "i1.json"), []byte(`{"tasks":{"j1":{"command":["true"],"env":{"A":"1"}}}}`), 0o644)
			_ = ioutil.WriteFile(filepath.Join(dd, "i1.toml"), []byte("[tasks.m1]\ncommand = [\"true\"]\n[tasks.m1.env]\nA = \"1\"\n"), 0o644)
			_ = ioutil.WriteFile(filepath.Join(dd, "i2.yaml"), []byte("tasks:\n  y2:\n    command: [\"true\"]\n    env:\n      B: \"2\"\n"), 0o644)
			_ = ioutil.WriteFile(filepath.Join(dd, "m1.yaml"), []byte("import: [\"i1.json\"]\ntasks:\n  m1:\n    command: [\"true\"]\n    env:\n      M: \"1\"\n"), 0o644)
			_ = ioutil.WriteFile(filepath.Join(dd, "m2.yaml"), []byte("import: [\"i1.toml\"]\ntasks:\n  m2:\n    command: [\"true\"]\n    env:\n      M: \"2\"\n"), 0o644)
			_ = os.MkdirAll(filepath.Join(dd, "sub"), 0o755)
			_ = ioutil.WriteFile(filepath.Join(dd, "sub", "a.yaml"), []byte("import: [\"../i2.yaml\"]\ntasks:\n  sa:\n    command: [\"true\"]\n    env:\n      S: \"1\"\n"), 0o644)
			_ = ioutil.WriteFile(filepath.Join(dd, "sub", "b.yaml"), []byte("tasks:\n  sb:\n    command: [\"true\"]\n    env:\n      S: \"2\"\n"), 0o644)
			_ = ioutil.WriteFile(filepath.Join(dd, "i3.yaml"), []byte("tasks:\n  y3:\n    command: [\"true\"]\n    env:\n      C: \"3\"\n"), 0o644)
			for _, args := range [][]string{{"-c", f, "list"}, {"-c", f, "validate", f}, {"-c", f, "graph", "entry"}, {"-c", f, "show", "t"}} {
				res := e.run(dd, "", 10*time.Second, args...)
				atomic.AddInt64(&byteRuns, 1)
				if !judge(fmt.Sprintf("bytes:%s:%08x", format, crc32.ChecksumIEEE(variants[i])), res, fmt.Sprintf("byte-level variant %d of the %s base document", i, format), map[string]interface{}{"format": format, "variant": i, "document": clipS(string(variants[i]), 600), "stderr": tailS(res.Stderr, 1200)}) {
					break
				}
			}
		})
	}
	// configurations that refer to files that do not exist, found by their default name (no -c):
	// loading reports an error, it does not crash
	for k, doc := range []string{
		"import: [\"nosuch.yaml\"]\ntasks:\n  t:\n    command: [\"true\"]\n",
		"import: [\"sub\"]\ntasks:\n  t:\n    command: [\"true\"]\n", // sub/a.yaml imports a file that is missing
		"tasks:\n  t:\n    env_file: nosuch.env\n    command: [\"true\"]\n",
		"import: [\"nosuchdir/\"]\ntasks:\n  t:\n    command: [\"true\"]\n",
	} {
		dd := env.Sub("dflt")
		_ = ioutil.WriteFile(filepath.Join(dd, "tasks.yaml"), []byte(doc), 0o644)
		_ = os.MkdirAll(filepath.Join(dd, "sub"), 0o755)
		_ = ioutil.WriteFile(filepath.Join(dd, "sub", "a.yaml"), []byte("import: [\"../gone.yaml\"]\ntasks:\n  sa:\n    command: [\"true\"]\n"), 0o644)
		for _, args := range [][]string{{"list"}, {"validate", "tasks.yaml"}, {"--raw", "t"}} {
			res := e.run(dd, "", 10*time.Second, args...)
			atomic.AddInt64(&byteRuns, 1)
			if !judge(fmt.Sprintf("default-name:missing-file:%d", k), res, fmt.Sprintf("tasks.yaml (found by its default name) refers to a file that does not exist: taskctl %s", strings.Join(args, " ")), map[string]interface{}{"document": doc, "stderr": tailS(res.Stderr, 1200)}) {
				break
			}
		}
	}
	// large valid documents: loading time is bounded by the size of the configuration, not by the number
	// of paths through it. A layered pipeline (18 layers of 3 stages, every stage depending on the whole
	// layer before it: 3^17 paths) declared last layer first and first layer first; a chain of 300 stages;
	// 300 tasks
	{
		layered := func(rev bool) string {
			var b strings.Builder
			b.WriteString("tasks:\n  t:\n    command: [\"true\"]\npipelines:\n  p:\n")
			const layers = 18
			for k := 0; k < layers; k++ {
				l := k
				if rev {
					l = layers - 1 - k
				}
				for j := 0; j < 3; j++ {
					fmt.Fprintf(&b, "    - name: l%d_%d\n      task: t\n", l, j)
					if l > 0 {
						fmt.Fprintf(&b, "      depends_on: [l%d_0, l%d_1, l%d_2]\n", l-1, l-1, l-1)
					}
				}
			}
			return b.String()
		}
		var chain, many strings.Builder
		chain.WriteString("tasks:\n  t:\n    command: [\"true\"]\npipelines:\n  p:\n")
		for k := 299; k >= 0; k-- {
			fmt.Fprintf(&chain, "    - name: c%d\n      task: t\n", k)
			if k > 0 {
				fmt.Fprintf(&chain, "      depends_on: [c%d]\n", k-1)
			}
		}
		many.WriteString("tasks:\n")
		for k := 0; k < 300; k++ {
			fmt.Fprintf(&many, "  t%d:\n    command: [\"true\"]\n    env: {A: \"%d\"}\n", k, k)
		}
		many.WriteString("pipelines:\n  p:\n    - task: t0\n")
		for k, doc := range []string{layered(true), layered(false), chain.String(), many.String()} {
			dd := env.Sub("big")
			_ = ioutil.WriteFile(filepath.Join(dd, "tasks.yaml"), []byte(doc), 0o644)
			for _, args := range [][]string{{"list"}, {"validate", "tasks.yaml"}, {"graph", "p"}} {
				res := e.run(dd, "", 20*time.Second, args...)
				atomic.AddInt64(&byteRuns, 1)
				what := fmt.Sprintf("a large valid configuration (%s): taskctl %s", []string{"18 layers of 3 stages, dependents declared first", "18 layers of 3 stages", "a chain of 300 stages", "300 tasks"}[k], strings.Join(args, " "))
				if !judge(fmt.Sprintf("large-valid-document:%d", k), res, what, map[string]interface{}{"stderr": tailS(res.Stderr, 600)}) {
					break
				}
				if res.Exit != 0 {
					rep.Add(core.Finding{Prop: "C15", Key: fmt.Sprintf("C15:large-valid-document-rejected:%d", k), What: what + fmt.Sprintf(": exit %d: %s", res.Exit, lastLine(res.Stderr)), Detail: map[string]interface{}{"stderr": tailS(res.Stderr, 600)}})
					break
				}
			}
		}
	}
	httpSkipped := false
	// a configuration fetched from a URL (loopback server): import entries that are relative, absolute,
	// not valid as URL references (bad escape, leading colon, control character), or missing on the server
	func() {
		var hmu sync.Mutex
		docs := map[string]string{}
		srv := loopbackServer(http.HandlerFunc(func(w http.ResponseWriter, r *http.Request) {
			hmu.Lock()
			b, ok := docs[r.URL.Path]
			hmu.Unlock()
			if !ok {
				http.NotFound(w, r)
				return
			}
			_, _ = w.Write([]byte(b))
		}))
		if srv == nil {
			httpSkipped = true
			return // no loopback listener in this sandbox: the URL scenarios are left out
		}
		defer srv.Close()
		entries := []string{"other.yaml", "%zz.yaml", ":x.yaml", "a\\u0001b.yaml", "sub/other.yaml", "/abs/other.yaml", "http://127.0.0.1:1/refused.yaml", srv.URL + "/other.yaml", srv.URL + "/missing.yaml"}
		hmu.Lock()
		docs["/other.yaml"] = "tasks:\n  o:\n    command: [\"true\"]\n"
		for k, en := range entries {
			docs[fmt.Sprintf("/u%d/tasks.yaml", k)] = fmt.Sprintf("import: [\"%s\"]\ntasks:\n  entry:\n    command: [\"true\"]\n", en)
		}
		hmu.Unlock()
		for k, en := range entries {
			dd := env.Sub("url")
			u := fmt.Sprintf("%s/u%d/tasks.yaml", srv.URL, k)
			for _, args := range [][]string{{"-c", u, "list"}, {"-c", u, "show", "entry"}, {"-c", u, "validate", u}} {
				res := e.run(dd, "", 15*time.Second, args...)
				atomic.AddInt64(&byteRuns, 1)
				if !judge(fmt.Sprintf("url-config:%d", k), res, fmt.Sprintf("a configuration fetched from a URL whose import entry is %q: taskctl %s", en, strings.Join(args[2:], " ")), map[string]interface{}{"import_entry": en, "stderr": tailS(res.Stderr, 800)}) {
					break
				}
			}
		}
	}()
	// TOML's own scalar types (local dates, times, date-times; the decoder yields structures for them)
	// where a section or a field is expected, in a file that imports or is imported: an error, not a crash
	{
		dd := env.Sub("tomlscalars")
		files := map[string]string{
			"b.toml":  "[variables]\nx = \"1\"\n[tasks.tb]\ncommand = [\"true\"]\n",
			"b.yaml":  "tasks:\n  ty:\n    command: [\"true\"]\nvariables:\n  y: \"2\"\n",
			"a1.toml": "import = [\"b.toml\"]\nvariables = 1979-05-27\n[tasks.entry]\ncommand = [\"true\"]\n",
			"a2.toml": "import = [\"b.yaml\"]\ntasks = 07:32:00\n",
			"a3.toml": "import = [\"b.toml\"]\ntasks = 1979-05-27T07:32:00\n",
			"a4.toml": "import = [\"b.toml\"]\n[tasks.entry]\ncommand = [\"true\"]\ntimeout = 1979-05-27\n[tasks.tb]\ncommand = 07:32:00\n",
			"a5.yaml": "import: [\"d.toml\"]\nvariables:\n  x: \"1\"\ntasks:\n  entry:\n    command: [\"true\"]\n",
			"d.toml":  "variables = 1979-05-27\n",
			"a6.toml": "import = [\"d.toml\", \"b.toml\"]\n[tasks.entry]\ncommand = [\"true\"]\n",
			"a7.toml": "import = [\"b.toml\"]\n[tasks.entry]\ncommand = [\"true\"]\n[tasks.entry.env]\nD = 1979-05-27\nT = 07:32:00\n",
		}
		for name, body := range files {
			_ = ioutil.WriteFile(filepath.Join(dd, name), []byte(body), 0o644)
		}
		// the same top-level variable a list (a mapping) on both sides of an import, in every format
		files2 := map[string]string{
			"l1.yaml": "import: [\"l2.yaml\"]\nvariables:\n  x: [1, 2]\n  m: {a: \"1\"}\ntasks:\n  entry:\n    command: [\"true\"]\n",
			"l2.yaml": "variables:\n  x: [3]\n  m: {b: \"2\"}\n",
			"l3.json": `{"import": ["l4.json", "l2.yaml"], "variables": {"x": [1], "m": {"a": "1"}}, "tasks": {"entry": {"command": ["true"]}}}`,
			"l4.json": `{"variables": {"x": [2, 3], "m": {"c": "3"}}}`,
			"l5.toml": "import = [\"l6.toml\"]\n[variables]\nx = [1, 2]\n[variables.m]\na = \"1\"\n[tasks.entry]\ncommand = [\"true\"]\n",
			"l6.toml": "[variables]\nx = [3]\n[variables.m]\nb = \"2\"\n",
		}
		for name, body := range files2 {
			_ = ioutil.WriteFile(filepath.Join(dd, name), []byte(body), 0o644)
			files[name] = body
		}
		for k, start := range []string{"a1.toml", "a2.toml", "a3.toml", "a4.toml", "a5.yaml", "a6.toml", "a7.toml", "l1.yaml", "l3.json", "l5.toml"} {
			f := filepath.Join(dd, start)
			for _, args := range [][]string{{"-c", f, "list"}, {"-c", f, "show", "entry"}, {"-c", f, "validate", f}} {
				res := e.run(dd, "", 10*time.Second, args...)
				atomic.AddInt64(&byteRuns, 1)
				if !judge(fmt.Sprintf("toml-scalar-types:%d", k), res, fmt.Sprintf("%s (a TOML date / time where a section or field is expected, with an import): taskctl %s", start, strings.Join(args[2:], " ")), map[string]interface{}{"document": files[start], "stderr": tailS(res.Stderr, 800)}) {
					break
				}
			}
		}
	}
	// an imported directory with entries that are not plain files: a dangling symbolic link, a link
	// that points at itself, a sub-directory and a FIFO-less oddity named like a configuration
	{
		dd := env.Sub("oddentries")
		_ = os.MkdirAll(filepath.Join(dd, "dir", "sub.yaml"), 0o755)
		_ = ioutil.WriteFile(filepath.Join(dd, "dir", "a.yaml"), []byte("tasks:\n  entry:\n    command: [\"true\"]\n"), 0o644)
		_ = os.Symlink(filepath.Join(dd, "nowhere.yaml"), filepath.Join(dd, "dir", "dangling.yaml"))
		_ = os.Symlink("loop.yaml", filepath.Join(dd, "dir", "loop.yaml"))
		f := filepath.Join(dd, "tasks.yaml")
		_ = ioutil.WriteFile(f, []byte("import: [\"dir\"]\ntasks:\n  t:\n    command: [\"true\"]\n"), 0o644)
		for _, args := range [][]string{{"-c", f, "list"}, {"-c", f, "show", "entry"}, {"-c", f, "validate", f}} {
			res := e.run(dd, "", 10*time.Second, args...)
			atomic.AddInt64(&byteRuns, 1)
			if !judge("directory-import:odd-entries", res, fmt.Sprintf("an imported directory that also holds a dangling link, a link to itself and a sub-directory, all named *.yaml: taskctl %s", strings.Join(args[2:], " ")), map[string]interface{}{"stderr": tailS(res.Stderr, 800)}) {
				break
			}
		}
	}
	// sparse documents: the base document gives every key a value; here entries have next to none
	// (a task without dir whose context is not defined, a watcher with a task only, an empty context, ...)
	for k, doc := range []string{
		"tasks:\n  entry:\n    context: nosuch\n    command: [\"true\"]\n",
		"tasks:\n  entry:\n    command: \"true\"\npipelines:\n  entry:\n    - task: entry\n",
		"tasks:\n  entry:\n    command: \"true\"\nwatchers:\n  entry:\n    task: entry\n",
		"contexts:\n  entry: {}\ntasks:\n  entry:\n    context: entry\n    command: [\"true\"]\n",
		"tasks:\n  entry: {}\npipelines:\n  entry: []\n",
		"tasks:\n  entry:\n    context: \"\"\n    dir: \"\"\n    command: []\n",
		// watch / exclude patterns that are not well-formed globs
		"tasks:\n  entry:\n    command: \"true\"\nwatchers:\n  entry:\n    task: entry\n    watch: [\"[\"]\n",
		"tasks:\n  entry:\n    command: \"true\"\nwatchers:\n  entry:\n    task: entry\n    watch: [\"*\", \"a[\", \"{a,b\"]\n    exclude: [\"[a-z\"]\n",
		"tasks:\n  entry:\n    command: \"true\"\nwatchers:\n  entry:\n    task: entry\n    watch: [\"*\"]\n    exclude: [\"[\"]\n",
	} {
		dd := env.Sub("sparse")
		f := filepath.Join(dd, "tasks.yaml")
		_ = ioutil.WriteFile(f, []byte(doc), 0o644)
		for _, args := range [][]string{{"-c", f, "list"}, {"-c", f, "show", "entry"}, {"-c", f, "graph", "entry"}, {"-c", f, "validate", f}} {
			res := e.run(dd, "", 10*time.Second, args...)
			atomic.AddInt64(&byteRuns, 1)
			if !judge(fmt.Sprintf("sparse-document:%d", k), res, fmt.Sprintf("a sparse configuration: taskctl %s", strings.Join(args[2:], " ")), map[string]interface{}{"document": doc, "stderr": tailS(res.Stderr, 800)}) {
				break
			}
		}
	}
	e.samples.Add(map[string]interface{}{"kind": "envfile", "lines": []string{"kv", "blank", "nokv"}, "predicted": "Rejected"})
	return e.result("exploration", int(runs), distinct.N(),
		"structural: every (position, shape) pair of Shapes.tla - positions = top-level keys, the four sections, one entry of each, every documented field of an entry; shapes = null, int, string, empty string, bool, list, map, list of maps, nested list, deleted, duplicated, unknown key - applied to a base document that uses every documented key, serialised to YAML (all) and JSON/TOML (quick 1/3, thorough all; shapes a format cannot express are skipped and counted) and given to list, show, graph, validate; env_file: line sequences of length <=3 over 12 line classes plus a missing file (quick: all of length <=2 and 1/8 of length 3), predicted accept/reject; byte level: truncation at every 1/16, invalid UTF-8 at three offsets, empty / NUL / deeply nested input, YAML anchors, merge keys and alias expansion; nine configurations fetched from a loopback URL with import entries of every kind (relative, absolute, not valid as URL references, refused, missing); seven TOML files with local dates / times where sections or fields are expected, importing or imported; nine sparse documents (entries with next to no fields, an undefined context without dir, watch / exclude patterns that are not well-formed globs); four large valid documents (a layered pipeline with 3^17 paths in both declaration orders, a chain of 300 stages, 300 tasks) that must load, validate and draw within 20 s. distinct_nontrivial = distinct (position, shape, format) and env_file cases executed",
		map[string]interface{}{"cases_in_model": len(cases), "skipped_not_expressible": skipped, "byte_level_runs": byteRuns, "url_scenarios_left_out_no_loopback_listener": httpSkipped},
		[]string{"'for all byte strings' is addressed structurally plus a fixed set of byte-level perturbations; no claim of coverage of arbitrary bytes",
			"oracle: exit status 0 or 1, no panic / fatal error / goroutine dump, bounded time (8-10 s); accept/reject predicted only for unknown keys and env_file lines"})
}

func crashLine(s string) string {
	for _, l := range strings.Split(s, "\n") {
		if strings.HasPrefix(l, "panic:") || strings.HasPrefix(l, "fatal error:") {
			return l
		}
	}
	return "abnormal termination"
}
func clipS(s string, n int) string {
	if len(s) > n {
		return s[:n] + "..."
	}
	return s
}
