package loader

import (
	"encoding/json"
	"fmt"
	"io/ioutil"
	"os"
	"path/filepath"
	"regexp"
	"sort"
	"strings"
	"sync"
	"sync/atomic"
	"time"

	"verif/harness/internal/core"
)

type impCase struct {
	NF      int      `json:"nf"`
	Imports [][]int  `json:"imports"`
	Health  []string `json:"health"`
	Closure []int    `json:"closure"`
	Fails   bool     `json:"fails"`
}

var depthDir = []string{"", "d1", filepath.Join("d1", "d2")}

func filePath(i int) string { return filepath.Join(depthDir[(i-1)%3], fmt.Sprintf("f%d.yaml", i)) }

// materialise writes the import graph as a directory tree (file i at depth (i-1) mod 3, imports
// written relative to the importing file). variant adds harness-level extras: a repeated entry
// and a directory import.
func materialise(root string, c impCase, variant int, rootFile ...string) (extraTasks []string) {
	filePath := func(i int) string {
		if i == 1 && len(rootFile) > 0 {
			return rootFile[0]
		}
		if len(rootFile) > 1 && rootFile[1] != "" {
			// file names that merely begin like a URL scheme ("http-f2.yaml") are files
			p := filePath(i)
			return filepath.Join(filepath.Dir(p), rootFile[1]+filepath.Base(p))
		}
		return filePath(i)
	}
	for i := 1; i <= c.NF; i++ {
		p := filepath.Join(root, filePath(i))
		_ = os.MkdirAll(filepath.Dir(p), 0o755)
		switch c.Health[i-1] {
		case "missing":
			continue
		case "bad":
			// not a configuration: a syntax error, or well-formed YAML that is not a mapping, or nothing at all
			kinds := []string{"tasks: [\n  : : {\n", "- a\n- b\n", "just some text\n", "42\n", ""}
			_ = ioutil.WriteFile(p, []byte(kinds[(variant+i+len(c.Imports[i-1]))%len(kinds)]), 0o644)
			continue
		}
		var b strings.Builder
		var entries []string
		for _, j := range c.Imports[i-1] {
			rel, _ := filepath.Rel(filepath.Dir(filePath(i)), filePath(j))
			entries = append(entries, rel)
		}
		if variant == 1 && len(entries) > 0 {
			entries = append(entries, entries[0]) // the same file imported twice
		}
		if variant >= 2 && i == c.NF {
			// a directory import: every *.yaml child of the directory; in variant 3 the first child
			// has an import of its own (a file next to the directory), the second has none
			dd := filepath.Join(filepath.Dir(p), fmt.Sprintf("dir%d", i))
			_ = os.MkdirAll(dd, 0o755)
			for _, n := range []string{"a", "b", "x"} {
				tn := fmt.Sprintf("t%d%s", i, n)
				body := fmt.Sprintf("tasks:\n  %s:\n    command: [\"echo %s\"]\n", tn, tn)
				if n == "a" {
					// (its command uses a variable that only v.yaml, a file of the same directory, defines)
					body = fmt.Sprintf("tasks:\n  %s:\n    command: [\"echo %s {{.dv%d}}\"]\n", tn, tn, i)
				}
				target := filepath.Join(dd, n+".yaml")
				switch {
				case n == "x" && variant != 3:
					continue
				case n == "x":
					target = filepath.Join(filepath.Dir(p), fmt.Sprintf("x%d.yaml", i))
				case n == "a" && variant == 3:
					// (the sibling b.yaml, which sorts after a.yaml, is imported too: every file once)
					body = fmt.Sprintf("import:\n  - ../x%d.yaml\n  - b.yaml\n", i) + body
				case n == "b" && variant == 3:
					body += fmt.Sprintf("pipelines:\n  pb%d:\n    - task: %s\n", i, tn)
				}
				_ = ioutil.WriteFile(target, []byte(body), 0o644)
				inClosure := false
				for _, k := range c.Closure {
					if k == i {
						inClosure = true
					}
				}
				if inClosure {
					extraTasks = append(extraTasks, tn)
				}
			}
			// a sub-directory of the imported directory with a configuration nobody imports: a directory
			// import takes the files OF the directory, not what lies below it
			_ = os.MkdirAll(filepath.Join(dd, "nested"), 0o755)
			_ = ioutil.WriteFile(filepath.Join(dd, "nested", "n.yaml"), []byte(fmt.Sprintf("tasks:\n  t%dnested:\n    command: [\"true\"]\n", i)), 0o644)
			// a file of the directory that defines nothing but a variable: it is part of the closure like any
			_ = ioutil.WriteFile(filepath.Join(dd, "v.yaml"), []byte(fmt.Sprintf("variables:\n  dv%d: dirvalue%d\n", i, i)), 0o644)
			_ = ioutil.WriteFile(filepath.Join(dd, "ignored.txt"), []byte("not yaml"), 0o644)
			entries = append(entries, fmt.Sprintf("dir%d", i))
		}
		if len(entries) > 0 {
			b.WriteString("import:\n")
			for _, e := range entries {
				fmt.Fprintf(&b, "  - %s\n", yq(e))
			}
		}
		fmt.Fprintf(&b, "tasks:\n  t%d:\n    command: [\"echo t%d\"]\npipelines:\n  p:\n    - name: s%d\n      task: t%d\n", i, i, i, i)
		_ = ioutil.WriteFile(p, []byte(b.String()), 0o644)
	}
	return
}

// CheckC17 is the engine behind C17.
func CheckC17(env *core.Env, rep *core.Report) *core.Result {
	e := newEng(env, rep)
	thorough := env.Thorough()
	var wg sync.WaitGroup
	par := func(f func()) { wg.Add(1); go func() { defer wg.Done(); f() }() }
	var cases []impCase
	par(func() {
		r := core.MustHold(env, core.TLCOpts{Module: "Imports", Config: "Imports_ok.cfg", Workers: 3})
		e.note("Imports_ok", r, "Bounded (no re-entry, each file at most once), ResultIsClosure, BrokenFails, Terminates hold for all 512 import graphs x 7 health assignments")
	})
	par(func() {
		r := core.MustFail(env, core.TLCOpts{Module: "Imports", Config: "Imports_pinned.cfg", Workers: 2})
		e.note("Imports_pinned", r, "negative control (parse error of an import only logged): "+r.Violated+" violated")
	})
	par(func() {
		r := core.MustFail(env, core.TLCOpts{Module: "Imports", Config: "Imports_markafter.cfg", Workers: 2})
		e.note("Imports_markafter", r, "negative control (file marked visited only after reading): "+r.Violated+" violated")
	})
	for _, nf := range []int{2, 3} {
		nf := nf
		par(func() {
			r := core.MustHold(env, core.TLCOpts{Module: "ImportsGen", Config: fmt.Sprintf("ImportsGen_%d.cfg", nf), Workers: 1})
			e.mu.Lock()
			for _, p := range r.Tagged("IMP") {
				var c impCase
				if err := json.Unmarshal([]byte(p), &c); err != nil {
					core.Broken("ImportsGen: %v", err)
				}
				cases = append(cases, c)
			}
			e.mu.Unlock()
			e.note(fmt.Sprintf("ImportsGen_%d", nf), r, "cases emitted")
		})
	}
	wg.Wait()
	if len(cases) != 3584+80 {
		core.Broken("ImportsGen emitted %d cases, expected 3664", len(cases))
	}
	sort.Slice(cases, func(i, j int) bool { return core.JSON(cases[i]) < core.JSON(cases[j]) })
	sel := cases
	if !thorough {
		rng := env.Rand("imports")
		sel = nil
		for _, c := range cases {
			if c.NF == 2 || rng.Intn(100) < 9 {
				sel = append(sel, c)
			}
		}
	}
	var n, sampled int64
	core.Parallel(len(sel), 16, func(i int) {
		c := sel[i]
		root := env.Sub("imp")
		variant := i % 4
		// (not when the start file itself is missing: without -c that is "no configuration here", which is
		// not an error)
		defaultName := i%5 == 2 && c.Health[0] != "missing"
		rootFile := filePath(1)
		if defaultName {
			rootFile = "tasks.yaml" // file 1 under the name taskctl looks for by default
		}
		prefix := ""
		if i%7 == 3 {
			prefix = "http-"
			if !defaultName {
				rootFile = prefix + rootFile
			}
		}
		extra := materialise(root, c, variant, rootFile, prefix)
		rootArg := filepath.Join(root, rootFile)
		if i%2 == 1 {
			rootArg = rootFile // the root given relative to the working directory
		}
		cfgArgs := []string{"-c", rootArg}
		if defaultName {
			// the configuration is found by its default name instead of being named with -c
			cfgArgs, rootArg = nil, "(tasks.yaml found in the working directory)"
		}
		res := e.run(root, "", 10*time.Second, append(append([]string{}, cfgArgs...), "list", "tasks")...)
		atomic.AddInt64(&n, 1)
		detail := map[string]interface{}{"case": c, "root_argument": rootArg, "variant": []string{"plain", "entry repeated", "directory import", "directory import with a child that imports"}[variant], "stdout": res.Stdout, "stderr": tailS(res.Stderr, 500), "exit": res.Exit}
		add := func(kind, what string) {
			rep.Add(core.Finding{Prop: "C17", Key: "C17:imports:" + kind, What: what + fmt.Sprintf(" [imports %v, health %v]", c.Imports, c.Health), Detail: detail})
		}
		if res.TimedOut {
			add("does-not-terminate", "loading did not terminate within 10 s")
			return
		}
		if res.Crashed() {
			add("crash", "taskctl crashed while loading: "+lastLine(res.Stderr))
			return
		}
		if c.Fails {
			if res.Exit == 0 {
				add("broken-import-ignored", fmt.Sprintf("a file in the import closure is %v but loading succeeded with tasks %v", c.Health, lines(res.Stdout)))
			}
			return
		}
		if res.Exit != 0 {
			add("valid-imports-rejected", fmt.Sprintf("loading failed (exit %d): %s", res.Exit, lastLine(res.Stderr)))
			return
		}
		var want []string
		for _, k := range c.Closure {
			want = append(want, fmt.Sprintf("t%d", k))
		}
		want = append(want, extra...)
		got := taskNamesIn(res.Stdout)
		sort.Strings(got)
		sort.Strings(want)
		if strings.Join(got, ",") != strings.Join(want, ",") {
			add("result-is-not-the-closure", fmt.Sprintf("loaded tasks %v, the import closure defines %v", got, want))
		}
		// the variables-only file of an imported directory is loaded too: the task next to it renders
		for _, tn := range extra {
			if strings.HasSuffix(tn, "a") {
				rr := e.run(root, "", 10*time.Second, append(append([]string{}, cfgArgs...), "--raw", tn)...)
				if rr.Exit != 0 || !strings.Contains(rr.Stdout, "dirvalue") {
					add("definitions-of-a-directory-file-missing", fmt.Sprintf("task %s (imported with its directory) uses a variable defined by v.yaml of the same directory: exit %d, output %q, %s", tn, rr.Exit, clipS(rr.Stdout, 100), lastLine(rr.Stderr)))
				}
			}
		}
		// each file taken once: the shared pipeline has one stage per file of the closure
		g := e.run(root, "", 10*time.Second, append(append([]string{}, cfgArgs...), "graph", "p")...)
		if g.Exit != 0 || g.TimedOut {
			add("pipeline-broken-by-import", "graph p failed: "+lastLine(g.Stderr))
		}
		if i%211 == 0 || atomic.AddInt64(&sampled, 1) <= 3 {
			e.samples.Add(map[string]interface{}{"kind": "imports", "imports": c.Imports, "health": c.Health, "expected_tasks": want, "fails": c.Fails})
		}
	})

	// random larger graphs (up to 6 files): the closure is computed by the harness with the same rule
	nRand := 60
	if thorough {
		nRand = 2000
	}
	rng := env.Rand("imports-rand")
	var rcases []impCase
	for k := 0; k < nRand; k++ {
		nf := 4 + rng.Intn(3)
		c := impCase{NF: nf, Imports: make([][]int, nf), Health: make([]string, nf)}
		for i := range c.Health {
			c.Health[i] = "ok"
		}
		if rng.Intn(3) == 0 {
			c.Health[rng.Intn(nf)] = []string{"missing", "bad"}[rng.Intn(2)]
		}
		for i := 0; i < nf; i++ {
			c.Imports[i] = []int{}
			for j := 0; j < nf; j++ {
				if rng.Intn(4) == 0 {
					c.Imports[i] = append(c.Imports[i], j+1)
				}
			}
		}
		seen := map[int]bool{1: true}
		queue := []int{1}
		for len(queue) > 0 {
			f := queue[0]
			queue = queue[1:]
			if c.Health[f-1] != "ok" {
				c.Fails = true
				continue
			}
			for _, j := range c.Imports[f-1] {
				if !seen[j] {
					seen[j] = true
					queue = append(queue, j)
				}
			}
		}
		for f := range seen {
			c.Closure = append(c.Closure, f)
		}
		sort.Ints(c.Closure)
		rcases = append(rcases, c)
	}
	core.Parallel(len(rcases), 16, func(i int) {
		c := rcases[i]
		root := env.Sub("impr")
		// more files than depth levels: spread over the same three directories
		materialise(root, c, 0)
		res := e.run(root, "", 10*time.Second, "-c", filepath.Join(root, filePath(1)), "list", "tasks")
		atomic.AddInt64(&n, 1)
		add := func(kind, what string) {
			rep.Add(core.Finding{Prop: "C17", Key: "C17:imports:" + kind, What: what + fmt.Sprintf(" [random graph: imports %v, health %v]", c.Imports, c.Health), Detail: map[string]interface{}{"case": c, "stdout": res.Stdout, "stderr": tailS(res.Stderr, 400)}})
		}
		if res.TimedOut {
			add("does-not-terminate", "loading did not terminate within 10 s")
		} else if res.Crashed() {
			add("crash", "taskctl crashed while loading")
		} else if c.Fails && res.Exit == 0 {
			add("broken-import-ignored", "a broken file in the import closure was ignored")
		} else if !c.Fails {
			var want []string
			for _, k := range c.Closure {
				want = append(want, fmt.Sprintf("t%d", k))
			}
			got := taskNamesIn(res.Stdout)
			sort.Strings(got)
			sort.Strings(want)
			if res.Exit != 0 || strings.Join(got, ",") != strings.Join(want, ",") {
				add("result-is-not-the-closure", fmt.Sprintf("exit %d, loaded tasks %v, closure %v", res.Exit, got, want))
			}
		}
	})

	// import chains that mix the three formats (a YAML file importing a JSON or TOML file and the other
	// way round, a file without sections of its own, imported files that import): every file of the
	// closure contributes its tasks, whatever the formats along the way
	{
		dd := env.Sub("mixed")
		files := map[string]string{
			"i1.json": `{"tasks":{"j1":{"command":["true"],"env":{"A":"1"}}}}`,
			"i1.toml": "[tasks.o1]\ncommand = [\"true\"]\n[tasks.o1.env]\nA = \"1\"\n",
			"i2.yaml": "tasks:\n  y2:\n    command: [\"true\"]\n    env:\n      B: \"2\"\n",
			"i3.yaml": "tasks:\n  y3:\n    command: [\"true\"]\n    env:\n      C: \"3\"\n",
			"m1.yaml": "import: [\"i1.json\"]\ntasks:\n  m1:\n    command: [\"true\"]\n    env:\n      M: \"1\"\n",
			"m2.yaml": "import: [\"i1.toml\"]\ntasks:\n  m2:\n    command: [\"true\"]\n    env:\n      M: \"2\"\n",
			"j.json":  `{"import":["i2.yaml","i1.toml"],"tasks":{"jj":{"command":["true"],"env":{"J":"1"}}}}`,
			"o.toml":  "import = [\"i3.yaml\", \"i1.json\"]\n[tasks.oo]\ncommand = [\"true\"]\n[tasks.oo.env]\nO = \"1\"\n",
		}
		for name, body := range files {
			_ = ioutil.WriteFile(filepath.Join(dd, name), []byte(body), 0o644)
		}
		for k, c := range []struct {
			doc  string
			want []string
		}{
			{"import: [\"i1.json\", \"i2.yaml\"]\ntasks:\n  r0:\n    command: [\"true\"]\n", []string{"r0", "j1", "y2"}},
			{"import: [\"i2.yaml\", \"i1.toml\", \"i3.yaml\"]\ntasks:\n  r0:\n    command: [\"true\"]\n", []string{"r0", "y2", "o1", "y3"}},
			{"import: [\"m1.yaml\", \"i2.yaml\"]\n", []string{"m1", "j1", "y2"}},
			{"import: [\"m2.yaml\", \"i3.yaml\", \"i2.yaml\"]\npipelines:\n  entry:\n    - task: y2\n", []string{"m2", "o1", "y3", "y2"}},
			{"import: [\"i3.yaml\", \"m1.yaml\", \"i2.yaml\"]\ncontexts:\n  c:\n    env:\n      A: \"1\"\n", []string{"y3", "m1", "j1", "y2"}},
			{"import: [\"j.json\", \"o.toml\"]\ntasks:\n  r0:\n    command: [\"true\"]\n    env:\n      R: \"0\"\n", []string{"r0", "jj", "y2", "o1", "oo", "y3", "j1"}},
		} {
			f := filepath.Join(dd, fmt.Sprintf("root%d.yaml", k))
			_ = ioutil.WriteFile(f, []byte(c.doc), 0o644)
			res := e.run(dd, "", 10*time.Second, "-c", f, "list", "tasks")
			atomic.AddInt64(&n, 1)
			var missing []string
			for _, w := range c.want {
				if !hasWord(res.Stdout, w) {
					missing = append(missing, w)
				}
			}
			if res.Exit != 0 || len(missing) > 0 {
				rep.Add(core.Finding{Prop: "C17", Key: "C17:imports:mixed-format-chain-not-loaded-completely", What: fmt.Sprintf("an import chain that mixes YAML, JSON and TOML files (%q): exit %d, tasks missing %v: %s", c.doc, res.Exit, missing, lastLine(res.Stderr)),
					Detail: map[string]interface{}{"stdout": res.Stdout, "stderr": tailS(res.Stderr, 400)}})
			}
		}
	}
	// a long chain and a deep walk: 10 files each importing the next (in ever deeper directories), and a
	// start file that imports the first and the last of them: everything reachable is loaded, however
	// deep the walk goes
	{
		root := env.Sub("chain")
		const nf = 10
		dirOf := func(k int) string { return filepath.Join(root, strings.Repeat("d/", k)) }
		for k := 1; k <= nf; k++ {
			_ = os.MkdirAll(dirOf(k), 0o755)
			body := fmt.Sprintf("tasks:\n  t%d:\n    command: [\"echo t%d\"]\n", k, k)
			if k < nf {
				body = fmt.Sprintf("import:\n  - d/c%d.yaml\n", k+1) + body
			}
			_ = ioutil.WriteFile(filepath.Join(dirOf(k), fmt.Sprintf("c%d.yaml", k)), []byte(body), 0o644)
		}
		start := filepath.Join(root, "start.yaml")
		_ = ioutil.WriteFile(start, []byte(fmt.Sprintf("import:\n  - d/c1.yaml\n  - %sc%d.yaml\ntasks:\n  t0:\n    command: [\"echo t0\"]\n", strings.Repeat("d/", nf), nf)), 0o644)
		res := e.run(root, "", 10*time.Second, "-c", start, "list", "tasks")
		atomic.AddInt64(&n, 1)
		got := taskNamesIn(res.Stdout)
		sort.Strings(got)
		var want []string
		for k := 0; k <= nf; k++ {
			want = append(want, fmt.Sprintf("t%d", k))
		}
		sort.Strings(want)
		if res.Exit != 0 || strings.Join(got, ",") != strings.Join(want, ",") {
			rep.Add(core.Finding{Prop: "C17", Key: "C17:imports:long-chain-not-loaded-completely", What: fmt.Sprintf("a chain of %d files, each importing the next: exit %d, loaded tasks %v, expected %v: %s", nf, res.Exit, got, want, lastLine(res.Stderr)),
				Detail: map[string]interface{}{"stdout": res.Stdout, "stderr": tailS(res.Stderr, 400)}})
		}
	}
	// global configuration: every split of four definitions between $HOME/.taskctl/config.yaml and the project
	defs := []string{"task tg", "task tp", "context cg", "variable vg"}
	for mask := 0; mask < 16; mask++ {
		home := env.Sub("ghome")
		proj := env.Sub("gproj")
		_ = os.MkdirAll(filepath.Join(home, ".taskctl"), 0o755)
		var gl, pr [3]strings.Builder // tasks, contexts, variables
		put := func(global bool, sec int, text string) {
			if global {
				gl[sec].WriteString(text)
			} else {
				pr[sec].WriteString(text)
			}
		}
		// both tasks run in the context cg, wherever that is defined: references cross the two files
		put(mask&1 != 0, 0, "  tg:\n    context: cg\n    command: [\"echo tg Q=$Q\"]\n")
		put(mask&2 != 0, 0, "  tp:\n    context: cg\n    command: [\"echo tp Q=$Q\"]\n")
		put(mask&4 != 0, 1, "  cg:\n    env:\n      Q: \"1\"\n")
		put(mask&8 != 0, 2, "  vg: \"vgvalue\"\n")
		pr[0].WriteString("  usev:\n    command: [\"echo OBS {{.vg}}\"]\n")
		render := func(p [3]strings.Builder) string {
			var b strings.Builder
			if p[1].Len() > 0 {
				b.WriteString("contexts:\n" + p[1].String())
			}
			if p[0].Len() > 0 {
				b.WriteString("tasks:\n" + p[0].String())
			}
			if p[2].Len() > 0 {
				b.WriteString("variables:\n" + p[2].String())
			}
			return b.String()
		}
		if g := render(gl); g != "" {
			_ = ioutil.WriteFile(filepath.Join(home, ".taskctl", "config.yaml"), []byte(g), 0o644)
		}
		_ = ioutil.WriteFile(filepath.Join(proj, "tasks.yaml"), []byte(render(pr)), 0o644)
		res := e.run(proj, home, 10*time.Second, "list")
		run := e.run(proj, home, 10*time.Second, "--raw", "usev", "tg", "tp")
		n += 2
		split := map[string]string{}
		for k, d := range defs {
			if mask&(1<<uint(k)) != 0 {
				split[d] = "global"
			} else {
				split[d] = "project"
			}
		}
		ok := res.Exit == 0 && hasWord(res.Stdout, "tg") && hasWord(res.Stdout, "tp") && hasWord(res.Stdout, "cg") && hasWord(res.Stdout, "usev")
		okv := run.Exit == 0 && strings.Contains(run.Stdout, "OBS vgvalue") && strings.Contains(run.Stdout, "tg Q=1") && strings.Contains(run.Stdout, "tp Q=1")
		if !ok || !okv {
			rep.Add(core.Finding{Prop: "C17", Key: "C17:global:definition-not-available", What: fmt.Sprintf("definitions split %v: list ok=%v (exit %d), variable and context usable by the tasks=%v (exit %d: %s)", split, ok, res.Exit, okv, run.Exit, lastLine(run.Stderr)),
				Detail: map[string]interface{}{"split": split, "list": res.Stdout, "run": run.Stdout, "stderr": tailS(run.Stderr, 300)}})
		}
	}
	return e.result("model_checking", int(n), len(sel)+len(rcases), "every import graph over 2 files and (quick ~9%, thorough all) over 3 files - every edge set incl. self-loops and cycles - x one file missing / unparsable at every position, from ImportsGen.tla with the intended closure; materialised as nested directories (file i at depth (i-1) mod 3, relative import paths), a quarter with a repeated entry, a quarter with a directory import and a quarter with a directory import one of whose files has an import of its own; seeded random graphs of 4..6 files; all 16 splits of {task, task, context, variable} between the global and the project file",
		map[string]interface{}{"model_cases": len(cases), "cases_run": len(sel), "random_graphs": len(rcases), "global_splits": 16},
		[]string{"URL imports are not exercised (no network)", "loading must terminate within 10 s (nominal: milliseconds); the model proves termination, so a timeout is a verdict"})
}

// The layout of `list` is nobody's business: the names are looked for as whole words, wherever
// and however they are printed.  Every task the import cases define is called t<digit><letters>.
var reTaskName = regexp.MustCompile(`\bt\d+[a-z]*\b`)

func taskNamesIn(out string) []string {
	seen := map[string]bool{}
	var names []string
	for _, m := range reTaskName.FindAllString(out, -1) {
		if !seen[m] {
			seen[m] = true
			names = append(names, m)
		}
	}
	return names
}

func hasWord(out, w string) bool {
	return regexp.MustCompile(`(^|[^A-Za-z0-9_])` + regexp.QuoteMeta(w) + `($|[^A-Za-z0-9_])`).MatchString(out)
}
