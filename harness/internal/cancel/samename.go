package cancel

import (
	"fmt"
	"io/ioutil"
	"os"
	"path/filepath"
	"sync"
	"time"

	"github.com/taskctl/taskctl/pkg/runner"
	"github.com/taskctl/taskctl/pkg/task"

	"verif/harness/internal/core"
)

// SameNameWorker (child process): two runs of tasks with the SAME name are in flight - as two
// stages of one task, or two watcher events, produce - one dies at once when interrupted, the
// other ignores SIGINT and is only killed later. Cancel must not return before both runs have
// left: at the CancelExit event both RunExit events have been recorded (all three are emitted
// under the runner's mutex, so their order is the order of the state changes).
func SameNameWorker(dir string) int {
	var mu sync.Mutex
	var order []string
	runner.VerifEventHook = func(r *runner.TaskRunner, ev, name string, err error) {
		mu.Lock()
		order = append(order, ev)
		mu.Unlock()
	}
	tr, err := runner.NewTaskRunner()
	if err != nil {
		fmt.Println("ERR", err)
		return 2
	}
	tr.Stdout, tr.Stderr = ioutil.Discard, ioutil.Discard
	quick := task.FromCommands(fmt.Sprintf(": > %s/a.started; sleep 30", dir))
	slow := task.FromCommands(fmt.Sprintf(`: > %s/b.started; perl -e '$SIG{INT}="IGNORE"; sleep 30'`, dir))
	quick.Name, slow.Name = "build", "build"
	done := make(chan struct{}, 2)
	for _, t := range []*task.Task{quick, slow} {
		t := t
		go func() { _ = tr.Run(t); done <- struct{}{} }()
	}
	lim := time.Now().Add(15 * time.Second)
	for time.Now().Before(lim) {
		_, ea := os.Stat(filepath.Join(dir, "a.started"))
		_, eb := os.Stat(filepath.Join(dir, "b.started"))
		if ea == nil && eb == nil {
			break
		}
		time.Sleep(5 * time.Millisecond)
	}
	time.Sleep(200 * time.Millisecond)
	ret := make(chan struct{})
	go func() { tr.Cancel(); close(ret) }()
	select {
	case <-ret:
	case <-time.After(20 * time.Second):
		fmt.Println("CANCEL-BLOCKED")
		return 3
	}
	mu.Lock()
	exits, enters := 0, 0
	for _, e := range order {
		if e == "CancelExit" {
			break
		}
		switch e {
		case "RunEnter":
			enters++
		case "RunExit":
			exits++
		}
	}
	seq := fmt.Sprint(order)
	mu.Unlock()
	fmt.Printf("ORDER enters=%d exits=%d %s\n", enters, exits, seq)
	<-done
	<-done
	if enters != 2 {
		return 2
	}
	if exits != 2 {
		return 4
	}
	return 0
}

// checkSameName runs the scenario in a child process.
func checkSameName(env *core.Env, rep *core.Report) int {
	self, err := os.Executable()
	if err != nil {
		core.Broken("os.Executable: %v", err)
	}
	res := core.RunBin(env.Sub("samename"), nil, 90*time.Second, "", self, "worker", "samename", env.Sub("samename-markers"))
	switch {
	case res.Crashed():
		rep.Add(core.Finding{Prop: "C12", Key: "C12:crash:same-task-name", What: "cancelling two runs of tasks with the same name crashed: " + res.Stderr, Detail: nil})
	case res.Exit == 4:
		rep.Add(core.Finding{Prop: "C12", Key: "C12:cancel-returns-while-a-run-is-in-flight:same-task-name",
			What: "two runs of tasks called \"build\" in flight (one dies at once, one ignores SIGINT): Cancel returned before both runs had left: " + res.Stdout, Detail: nil})
	case res.Exit == 3:
		rep.Add(core.Finding{Prop: "C12", Key: "C12:cancel-does-not-return:same-task-name", What: "two runs of tasks with the same name in flight: Cancel did not return within 20 s", Detail: nil})
	case res.Exit != 0 || res.TimedOut:
		return 0 // driver problem: nothing is claimed
	}
	return 1
}
