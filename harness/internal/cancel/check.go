package cancel

import (
	"bytes"
	"encoding/json"
	"fmt"
	"regexp"
	"sort"
	"strconv"
	"strings"
	"sync"
	"time"

	"verif/harness/internal/core"
	"verif/harness/internal/sched"
)

type scn struct {
	NR         int      `json:"nr"`
	NC         int      `json:"nc"`
	Sched      bool     `json:"sched"`
	CondErr    bool     `json:"conderr"`
	Hold       []string `json:"hold"`
	Rerr       []string `json:"rerr"`
	NCompleted []int    `json:"ncompleted"`
}

func (s scn) key() string {
	return fmt.Sprintf("%d/%d/%v/%v/%s", s.NR, s.NC, s.Sched, s.CondErr, strings.Join(s.Hold, ","))
}
func outcome(rerr []string, nc []int) string {
	var p []string
	for i := range rerr {
		p = append(p, fmt.Sprintf("%s:%d", rerr[i], nc[i]))
	}
	return strings.Join(p, " ")
}

type group struct {
	scn     scn
	allowed map[string]bool
}

var reL = regexp.MustCompile(`(?m)^/\\ l = (\d+)`)

// Check is the engine behind C12 and the cancelled case of C03.
func Check(env *core.Env, rep *core.Report) *core.Result {
	thorough := env.Thorough()
	samples := core.NewSamples(10)
	var mu sync.Mutex
	modelRuns := []map[string]interface{}{}
	note := func(name string, r *core.TLCResult, what string) {
		mu.Lock()
		modelRuns = append(modelRuns, map[string]interface{}{"config": name, "generated": r.Generated, "distinct": r.Distinct, "wall_s": r.Wall.Seconds(), "result": what})
		mu.Unlock()
	}
	var wg sync.WaitGroup
	run := func(f func()) { wg.Add(1); go func() { defer wg.Done(); f() }() }

	// (a) the design: exhaustive TLC on Cancel.tla; the pinned hand-shake as negative controls
	mcs := []string{"runner2", "runner3", "sched3", "sched2h"}
	if thorough {
		mcs = append(mcs, "runner4")
	}
	for _, c := range mcs {
		c := c
		run(func() {
			r := core.MustHold(env, core.TLCOpts{Module: "Cancel", Config: "Cancel_" + c + ".cfg", Workers: 3, Timeout: 20 * time.Minute})
			note("Cancel_"+c, r, "NoPanic, NoStartAfterCancel, InterruptedReportsError, CancelReturnedMeansIdle, InflightIsCount, CancelReturns (ScheduleReturns), FlatRefinement hold")
		})
	}
	// the unbounded part: CancelFlat.tla (which Cancel.tla refines, PROPERTY FlatRefinement and
	// INVARIANT InflightIsCount of the configurations above) keeps "no command starts after a Cancel
	// has returned" for every number of runs and Cancel calls - proved with TLAPS
	run(func() {
		n := core.RunTLAPM(env, "CancelFlatProofs", 10*time.Minute)
		mu.Lock()
		modelRuns = append(modelRuns, map[string]interface{}{"config": "CancelFlatProofs (tlapm)", "obligations_proved": n,
			"result": "THEOREM Safety (Spec => [](NothingStartsAfterCancel /\\ QuietAfterCancel /\\ Registered)) proved for every set of runs and Cancel calls; Cancel.tla refines CancelFlat (PROPERTY FlatRefinement)"})
		mu.Unlock()
	})
	for _, c := range []string{"pinned_panic", "pinned_block", "pinned_conderr"} {
		c := c
		run(func() {
			r := core.MustFail(env, core.TLCOpts{Module: "Cancel", Config: "Cancel_" + c + ".cfg", Workers: 2})
			note("Cancel_"+c, r, "negative control (pinned doneCh hand-shake): "+r.Violated+" violated as required")
		})
	}
	// Scheduler.Cancel while an included pipeline is being scheduled (fake runner that records what it is handed)
	run(func() { sched.NestedCancel(env, rep, map[bool]int{false: 5, true: 100}[thorough]) })
	// the composition: pipelines cancelled by a condition error, end to end (Taskctl.tla with CondErr),
	// model-checked and validated on logs of the real binary
	var composeInfo map[string]interface{}
	run(func() {
		composeInfo = sched.ComposeCheck(env, rep, map[bool]int{false: 24, true: 300}[thorough], "cerr2q", "cerr3_killed", "cerr3_refused", "+cerr2", "+cerr3")
	})
	// two runs of tasks with the same name (outside the model's numbering of runs)
	sameName := 0
	run(func() { sameName = checkSameName(env, rep) })
	// (b) scenarios with the outcomes the model allows
	gens := []string{"r1c1", "r1c2", "r2c1", "r2c2", "s2", "s1c2", "s2c2", "e1", "e2", "e3", "e2c2"}
	if thorough {
		gens = append(gens, "r3c1", "r3c2", "s3", "e4", "r4c1", "s4")
	}
	groups := map[string]*group{}
	var order []string
	for _, g := range gens {
		g := g
		run(func() {
			r := core.MustHold(env, core.TLCOpts{Module: "CancelGen", Config: "CancelGen_" + g + ".cfg", Workers: 4, Timeout: 40 * time.Minute, HeapGB: 6})
			n := 0
			mu.Lock()
			for _, p := range r.Tagged("SCN") {
				var s scn
				if err := json.Unmarshal([]byte(p), &s); err != nil {
					core.Broken("CancelGen: %v", err)
				}
				k := s.key()
				if groups[k] == nil {
					groups[k] = &group{scn: s, allowed: map[string]bool{}}
					order = append(order, k)
					n++
				}
				groups[k].allowed[outcome(s.Rerr, s.NCompleted)] = true
			}
			mu.Unlock()
			note("CancelGen_"+g, r, fmt.Sprintf("%d scenarios; every scenario reaches a terminal state (Finishes)", n))
		})
	}
	wg.Wait()
	sort.Strings(order)

	// choose the scenarios to execute
	var todo []string
	if thorough {
		rng := env.Rand("cancel-scn")
		for _, k := range order {
			g := groups[k]
			if g.scn.NR <= 2 || rng.Intn(100) < 22 {
				todo = append(todo, k)
			}
		}
	} else {
		rng := env.Rand("cancel-scn")
		for _, k := range order {
			g := groups[k]
			switch {
			case g.scn.NR == 1:
				todo = append(todo, k)
			case g.scn.NR == 2 && rng.Intn(100) < 60:
				todo = append(todo, k)
			case g.scn.NR == 3 && rng.Intn(100) < 10:
				todo = append(todo, k)
			}
		}
	}

	type obs struct {
		key string
		sc  Scenario
		res *WorkerResult
		bin *core.BinResult
	}
	results := make([]obs, len(todo))
	core.Parallel(len(todo), 14, func(i int) {
		g := groups[todo[i]]
		rng := env.Rand("nwait-" + todo[i])
		sc := Scenario{NR: g.scn.NR, NC: g.scn.NC, Sched: g.scn.Sched, CondErr: g.scn.CondErr, Hold: g.scn.Hold, Dir: env.Sub("cancel")}
		if sc.Sched {
			sc.NWait = rng.Intn(4)
			sc.Nested = rng.Intn(3) == 0
		}
		for k := 0; k < sc.NR; k++ {
			sc.Allow = append(sc.Allow, rng.Intn(2) == 0)
		}
		arg, _ := json.Marshal(sc)
		b := core.RunBin(sc.Dir, nil, 60*time.Second, "", env.Self, "worker", "cancel", string(arg))
		o := obs{key: todo[i], sc: sc, bin: b}
		for _, line := range strings.Split(b.Stdout, "\n") {
			if strings.HasPrefix(line, "RESULT ") {
				var wr WorkerResult
				if json.Unmarshal([]byte(line[7:]), &wr) == nil {
					o.res = &wr
				}
			}
		}
		results[i] = o
	})

	add := func(prop, kind, what string, o obs) {
		d := map[string]interface{}{"scenario": o.sc, "allowed_outcomes": keysOf(groups[o.key].allowed)}
		if o.res != nil {
			r := *o.res
			r.Events = nil
			d["observed"] = r
		} else {
			d["stderr"] = tailS(o.bin.Stderr, 1500)
			d["exit"] = o.bin.Exit
		}
		rep.Add(core.Finding{Prop: prop, Key: prop + ":" + kind, What: what, Detail: d})
	}
	executed, infeasible, driver := 0, 0, 0
	var traces [][]Event
	distinct := core.NewDistinct()
	for _, o := range results {
		g := groups[o.key]
		mode := "runner"
		if o.sc.CondErr {
			mode = "condition-error"
		} else if o.sc.Sched {
			mode = "scheduler"
		}
		nIn := 0
		for _, h := range o.sc.Hold {
			if inHold(h) {
				nIn++
			}
		}
		desc := fmt.Sprintf("%s cancel x%d, holds %v (%d in flight)", mode, o.sc.NC, o.sc.Hold, nIn)
		if o.sc.Nested {
			desc += ", as a nested pipeline"
		}
		if o.res == nil {
			if o.bin.Crashed() || o.bin.Signaled {
				add("C12", "crash:"+mode, "process crashed: "+desc+": "+firstLine(o.bin.Stderr), o)
				if o.sc.Sched {
					add("C03", "cancelled-run-crashes:"+mode, "the process died while a pipeline run was being cancelled (the run did not return): "+desc+": "+firstLine(o.bin.Stderr), o)
				}
			} else if o.bin.TimedOut {
				add("C12", "hang:"+mode, "worker process hung (60 s): "+desc, o)
			} else {
				core.Broken("cancel worker gave no result (exit %d): %s\n%s", o.bin.Exit, desc, tailS(o.bin.Stderr, 800))
			}
			continue
		}
		r := o.res
		if r.Infeasible != "" {
			infeasible++
			continue
		}
		if r.DriverProblem != "" {
			driver++
			continue
		}
		executed++
		distinct.Add(o.key)
		if executed%7 == 1 {
			samples.Add(map[string]interface{}{"scenario": desc, "allowed": keysOf(g.allowed), "cancel_ms": r.CancelMs})
		}
		for j, ok := range r.CancelReturned {
			if !ok {
				add("C12", "cancel-does-not-return:"+mode, fmt.Sprintf("Cancel call %d did not return within %s: %s", j+1, opDeadline, desc), o)
				if o.sc.Sched {
					add("C03", "cancelled-run-does-not-return:"+mode, "Schedule cannot return because Cancel blocks: "+desc, o)
				}
			}
		}
		if o.sc.Sched && !r.SchedReturned {
			add("C03", "cancelled-run-does-not-return:"+mode, fmt.Sprintf("Schedule did not return within %s after the cancel: %s", opDeadline, desc), o)
			add("C12", "pipeline-run-does-not-return:"+mode, fmt.Sprintf("Schedule did not return within %s after the cancel: %s", opDeadline, desc), o)
		}
		if len(r.StartsAfter) > 0 {
			add("C12", "command-started-after-cancel:"+mode, fmt.Sprintf("commands started after Cancel had returned %v: %s", r.StartsAfter, desc), o)
		}
		if r.ChildrenLeft > 0 {
			add("C12", "commands-not-terminated:"+mode, fmt.Sprintf("%d command processes still alive after the cancel completed: %s", r.ChildrenLeft, desc), o)
		}
		if r.ExtraWaitingRan > 0 {
			add("C12", "waiting-stage-ran-after-cancel:"+mode, fmt.Sprintf("%d waiting stages were executed although the run was cancelled: %s", r.ExtraWaitingRan, desc), o)
		}
		// outcome against the model
		allRet := true
		rerr := make([]string, o.sc.NR)
		nc := make([]int, o.sc.NR)
		for i, rr := range r.Runs {
			h := o.sc.Hold[i]
			nc[i] = rr.Completed
			switch {
			case h == "waiting":
				rerr[i] = "none"
				if rr.Started {
					add("C12", "waiting-stage-ran-after-cancel:"+mode, fmt.Sprintf("waiting stage %d was executed: %s", i+1, desc), o)
				}
			case !rr.Returned:
				allRet = false
				add("C12", "run-does-not-return:"+mode, fmt.Sprintf("run %d did not return within %s after the cancel: %s", i+1, opDeadline, desc), o)
			case rr.Err:
				rerr[i] = "ctx"
			default:
				rerr[i] = "ok"
			}
		}
		if allRet {
			got := outcome(rerr, nc)
			if !g.allowed[got] {
				kind := "outcome-not-allowed-by-model"
				for i := range rerr {
					if rerr[i] == "ok" && nc[i] < 2 {
						kind = "interrupted-task-reports-success"
					}
				}
				add("C12", kind+":"+mode, fmt.Sprintf("observed outcome [%s], model allows %v: %s", got, keysOf(g.allowed), desc), o)
			}
		}
		if len(r.Events) > 0 {
			traces = append(traces, append([]Event{{"e": "cfg"}}, r.Events...))
		}
	}
	if executed == 0 || driver*4 > executed {
		core.Broken("cancel driver: %d scenarios executed, %d could not be driven to their hold points", executed, driver)
	}

	// (e) trace validation of the hook events of the same executions
	accepted, rejected := validate(env, rep, traces)
	selftest := selfTest(env, traces)

	gen, dist, runs, cmds := core.TLCTotals()
	cov := map[string]interface{}{
		"states": dist, "transitions": gen, "tlc_runs": runs,
		"traces_validated_against_impl":            executed + accepted,
		"scenarios_in_model":                       len(order),
		"scenarios_executed":                       executed,
		"scenarios_infeasible_for_a_real_pipeline": infeasible,
		"scenarios_not_driven":                     driver,
		"hook_traces_accepted":                     accepted,
		"hook_traces_rejected":                     rejected,
		"evaluations":                              executed,
		"distinct_nontrivial":                      distinct.N(),
		"rule":                                     "scenario = (mode runner|scheduler|condition-error, number of Cancel calls, hold point of every run: late/waiting, before-hook, command 1, between commands, command 2, after-hook, done) as enumerated by CancelGen.tla with the set of outcomes Cancel.tla allows; each executed in its own child process against the real TaskRunner/Scheduler with gates; distinct = distinct scenarios executed",
		"model_runs":                               modelRuns,
		"same_task_name_scenarios":                 sameName,
		"whole_binary_runs_incl_condition_errors":  composeInfo,
		"binding_selftest":                         selftest,
		"samples":                                  samples.List(),
		"checker_cmds":                             cmds,
	}
	return &core.Result{Level: "model_checking", Coverage: cov, Assumptions: []string{
		"bounded time = 6 s per Cancel / Run / Schedule return (nominal: milliseconds); commands are single external processes (sleep)",
		"an after hook that is cut short does not turn a task whose commands all completed into a failure (DESIGN.md 5)",
		"task conditions and context up/before/after commands run outside the cancellable context and are not part of the scenarios",
	}}
}

func validate(env *core.Env, rep *core.Report, traces [][]Event) (accepted, rejected int) {
	idx := make([]int, len(traces))
	for i := range idx {
		idx[i] = i
	}
	for round := 0; round < 8 && len(idx) > 0; round++ {
		var buf bytes.Buffer
		var lineExec []int
		for _, i := range idx {
			for _, ev := range traces[i] {
				b, _ := json.Marshal(ev)
				buf.Write(b)
				buf.WriteByte('\n')
				lineExec = append(lineExec, i)
			}
		}
		res := core.RunTLC(env, core.TLCOpts{Module: "CancelTrace", Config: "CancelTrace.cfg", Workers: 1, Files: map[string][]byte{"trace.ndjson": buf.Bytes()}})
		if res.Violated == "" {
			accepted += len(idx)
			return
		}
		line := 0
		if res.Violated == "postcondition" {
			for _, p := range res.Tagged("MATCHED") {
				var m struct{ Upto, Of int }
				if json.Unmarshal([]byte(p), &m) == nil {
					line = m.Upto + 1
				}
			}
		} else if all := reL.FindAllStringSubmatch(res.Out, -1); len(all) > 0 {
			line, _ = strconv.Atoi(all[len(all)-1][1])
			line--
		}
		if line < 1 || line > len(lineExec) {
			core.Broken("CancelTrace: cannot locate the rejected line (%s)\n%s", res.Violated, tailS(res.Out, 2000))
		}
		bad := lineExec[line-1]
		rejected++
		kind := "trace:event-not-allowed-by-spec"
		if res.Violated != "postcondition" {
			kind = "trace:" + res.Violated
		}
		rep.Add(core.Finding{Prop: "C12", Key: "C12:" + kind, What: fmt.Sprintf("recorded hook events are not a behaviour of Cancel.tla (%s)", res.Violated),
			Detail: map[string]interface{}{"trace": traces[bad]}})
		var keep []int
		for _, i := range idx {
			if i != bad {
				keep = append(keep, i)
			}
		}
		idx = keep
	}
	return
}

// selfTest: a trace in which a command starts after CancelExit must be rejected.
func selfTest(env *core.Env, traces [][]Event) map[string]interface{} {
	for _, t := range traces {
		for i, e := range t {
			if e["e"] == "CancelExit" {
				c := append([]Event{}, t[:i+1]...)
				c = append(c, Event{"e": "RunEnter", "t": 4})
				c = append(c, t[i+1:]...)
				var buf bytes.Buffer
				for _, ev := range c {
					b, _ := json.Marshal(ev)
					buf.Write(b)
					buf.WriteByte('\n')
				}
				res := core.RunTLC(env, core.TLCOpts{Module: "CancelTrace", Config: "CancelTrace.cfg", Workers: 1, Files: map[string][]byte{"trace.ndjson": buf.Bytes()}})
				if res.Violated == "" {
					core.Broken("binding self-test: a trace in which a run is admitted after Cancel returned was accepted by CancelTrace.tla")
				}
				return map[string]interface{}{"corruption": "RunEnter inserted after CancelExit", "rejected": true}
			}
		}
	}
	return map[string]interface{}{"skipped": "no trace with CancelExit"}
}

func keysOf(m map[string]bool) []string {
	var k []string
	for s := range m {
		k = append(k, s)
	}
	sort.Strings(k)
	return k
}
func tailS(s string, n int) string {
	if len(s) > n {
		return s[len(s)-n:]
	}
	return s
}
func firstLine(s string) string {
	for _, l := range strings.Split(s, "\n") {
		if strings.Contains(l, "panic") || strings.Contains(l, "fatal") {
			return l
		}
	}
	if i := strings.Index(s, "\n"); i > 0 {
		return s[:i]
	}
	return s
}
