// Package cancel binds Cancel.tla (C12, and the cancelled case of C03) to the real TaskRunner
// and Scheduler. Scenarios run in child processes (worker mode) because the code under test
// may crash or dead-lock.
package cancel

import (
	"context"
	"encoding/json"
	"fmt"
	"io/ioutil"
	"os"
	"path/filepath"
	"strings"
	"sync"
	"time"

	"github.com/sirupsen/logrus"
	"github.com/taskctl/taskctl/pkg/executor"
	"github.com/taskctl/taskctl/pkg/runner"
	"github.com/taskctl/taskctl/pkg/scheduler"
	"github.com/taskctl/taskctl/pkg/task"
	"github.com/taskctl/taskctl/pkg/variables"
)

// Scenario is one placement of runs at hold points (CancelGen.tla).
type Scenario struct {
	NR      int      `json:"nr"`
	NC      int      `json:"nc"`
	Sched   bool     `json:"sched"`
	CondErr bool     `json:"conderr"`
	Hold    []string `json:"hold"`
	NWait   int      `json:"nwait"`  // extra waiting stages (scheduler modes), not part of the model
	Nested  bool     `json:"nested"` // scheduler modes: the whole pipeline is included by a stage of an outer pipeline
	Allow   []bool   `json:"allow"`  // allow_failure per task: must not turn an interruption into success
	Dir     string   `json:"dir"`
}

// RunResult is what the worker observed for one run.
type RunResult struct {
	Returned  bool   `json:"returned"`
	Err       bool   `json:"err"`
	ErrText   string `json:"errtext,omitempty"`
	Completed int    `json:"completed"`
	Started   bool   `json:"started"` // any marker of this run exists
	Status    string `json:"status,omitempty"`
}

// WorkerResult is printed by the worker as one JSON line prefixed with RESULT.
type WorkerResult struct {
	Infeasible      string      `json:"infeasible,omitempty"`
	DriverProblem   string      `json:"driver_problem,omitempty"`
	CancelReturned  []bool      `json:"cancel_returned"`
	CancelMs        []float64   `json:"cancel_ms"`
	Runs            []RunResult `json:"runs"`
	StartsAfter     []string    `json:"starts_after_cancel"`
	ChildrenLeft    int         `json:"children_left"`
	SchedReturned   bool        `json:"sched_returned"`
	SchedErr        bool        `json:"sched_err"`
	ExtraWaitingRan int         `json:"extra_waiting_ran"`
	Events          []Event     `json:"events"`
	Log             string      `json:"log"`
}

// Event is a hook event recorded in the worker.
type Event map[string]interface{}

const opDeadline = 6 * time.Second

func inHold(h string) bool {
	switch h {
	case "before", "cmd1", "gate2", "cmd2", "after":
		return true
	}
	return false
}

// Worker executes one scenario against the real code and prints the observation.
func Worker(arg string) int {
	logrus.SetOutput(ioutil.Discard)
	var sc Scenario
	if err := json.Unmarshal([]byte(arg), &sc); err != nil {
		fmt.Println("bad scenario:", err)
		return 3
	}
	res := &WorkerResult{Runs: make([]RunResult, sc.NR)}
	out := func() int {
		b, _ := json.Marshal(res)
		fmt.Println("RESULT " + string(b))
		return 0
	}
	// every marker is its own file (concurrent appends to one file may interleave)
	mdir := filepath.Join(sc.Dir, "m")
	_ = os.MkdirAll(mdir, 0o755)
	markers := func() []string {
		ents, _ := ioutil.ReadDir(mdir)
		var out []string
		for _, e := range ents {
			out = append(out, e.Name())
		}
		return out
	}
	readLog := func() string { return strings.Join(markers(), " ") }
	has := func(m string) bool {
		_, err := os.Stat(filepath.Join(mdir, m))
		return err == nil
	}

	// hook events, ordered by a worker-wide mutex
	var evMu sync.Mutex
	var events []Event
	cancelSet := make(chan struct{})
	var cancelSetOnce sync.Once
	taskIdx := map[string]int{}
	runner.VerifEventHook = func(r *runner.TaskRunner, ev, name string, err error) {
		e := Event{"e": ev}
		if name != "" {
			if taskIdx[name] == 0 {
				return // an extra waiting stage outside the model's runs
			}
			e["t"] = taskIdx[name]
		}
		evMu.Lock()
		events = append(events, e)
		evMu.Unlock()
		if ev == "CancelSet" {
			cancelSetOnce.Do(func() { close(cancelSet) })
		}
	}
	gateReached := make([]chan struct{}, sc.NR+1)
	gateOnce := make([]sync.Once, sc.NR+1)
	for i := range gateReached {
		gateReached[i] = make(chan struct{})
	}
	kindOf := func(cmd string) (int, string) {
		// commands look like ": > <dir>/<i>.<k>.start; ..."
		f := strings.Fields(cmd)
		if len(f) < 3 {
			return 0, ""
		}
		p := strings.Split(filepath.Base(strings.TrimSuffix(f[2], ";")), ".")
		if len(p) != 3 {
			return 0, ""
		}
		var i int
		fmt.Sscanf(p[0], "%d", &i)
		return i, p[1]
	}
	executor.VerifGateHook = func(ctx context.Context, ev string, job *executor.Job, err error) {
		i, k := kindOf(job.Command)
		if i == 0 || i > sc.NR {
			return
		}
		e := Event{"e": ev, "t": i, "k": k}
		if ev == "CmdEnd" {
			e["completed"] = has(fmt.Sprintf("%d.%s.end", i, k))
		}
		evMu.Lock()
		events = append(events, e)
		evMu.Unlock()
		// with several Cancel calls an interrupted command takes a moment to die (as one that traps the
		// signal would): every call is then waiting while the run is still in flight
		if ev == "CmdEnd" && sc.NC >= 2 && ctx.Err() != nil {
			time.Sleep(250 * time.Millisecond)
		}
		if ev == "CmdStart" && k == "2" && sc.Hold[i-1] == "gate2" {
			gateOnce[i].Do(func() { close(gateReached[i]) })
			select {
			case <-cancelSet:
			case <-time.After(30 * time.Second):
			}
		}
	}

	mkCmd := func(i int, k string, sleep bool) string {
		s := fmt.Sprintf(": > %s/%d.%s.start", mdir, i, k)
		if sleep {
			s += "; sleep 30"
		}
		return s + fmt.Sprintf("; : > %s/%d.%s.end", mdir, i, k)
	}
	tasks := make([]*task.Task, sc.NR+1)
	for i := 1; i <= sc.NR; i++ {
		h := sc.Hold[i-1]
		t := task.FromCommands(mkCmd(i, "1", h == "cmd1"), mkCmd(i, "2", h == "cmd2"))
		t.Name = fmt.Sprintf("t%d", i)
		t.Before = []string{mkCmd(i, "b", h == "before")}
		t.After = []string{mkCmd(i, "a", h == "after")}
		if i-1 < len(sc.Allow) {
			t.AllowFailure = sc.Allow[i-1]
		}
		if i%2 == 1 {
			// a generous timeout that never expires: an interruption must not be taken for an expiry
			to := 90 * time.Second
			t.Timeout = &to
		}
		tasks[i] = t
		taskIdx[t.Name] = i
	}
	// every other task runs in a named context whose start-up and before hook leave ".start" markers
	// too: a run that is refused (called after the cancellation) must not get as far as those
	ctxs := map[string]*runner.ExecutionContext{
		"cx": runner.NewExecutionContext(nil, "", variables.NewVariables(),
			[]string{fmt.Sprintf(": > %s/cx.up.start", mdir)}, nil,
			[]string{fmt.Sprintf(": > %s/cx.cb.$RANDOM$RANDOM.start", mdir)},
			[]string{fmt.Sprintf(": > %s/cx.ca.$RANDOM$RANDOM.end", mdir)}),
	}
	for i := 1; i <= sc.NR; i++ {
		if i%2 == 0 {
			tasks[i].Context = "cx"
		}
	}
	tr, err := runner.NewTaskRunner(runner.WithContexts(ctxs))
	if err != nil {
		res.DriverProblem = err.Error()
		return out()
	}
	tr.Stdout, tr.Stderr = ioutil.Discard, ioutil.Discard
	// every third task is interactive; the runner's stdin is a pipe that stays open and silent (a
	// terminal nobody types on): neither a run nor a cancellation may wait for input that never comes
	if pr, pw, perr := os.Pipe(); perr == nil {
		defer pw.Close()
		defer pr.Close()
		tr.Stdin = pr
		for i := 3; i <= sc.NR; i += 3 {
			tasks[i].Interactive = true
		}
	}

	holdMarker := func(i int) string {
		switch sc.Hold[i-1] {
		case "before":
			return fmt.Sprintf("%d.b.start", i)
		case "cmd1":
			return fmt.Sprintf("%d.1.start", i)
		case "cmd2":
			return fmt.Sprintf("%d.2.start", i)
		case "after":
			return fmt.Sprintf("%d.a.start", i)
		}
		return ""
	}
	waitHold := func(i int) bool {
		lim := time.Now().Add(15 * time.Second)
		if sc.Hold[i-1] == "gate2" {
			select {
			case <-gateReached[i]:
				return true
			case <-time.After(15 * time.Second):
				return false
			}
		}
		m := holdMarker(i)
		for time.Now().Before(lim) {
			if has(m) {
				return true
			}
			time.Sleep(2 * time.Millisecond)
		}
		return false
	}

	runDone := make([]chan error, sc.NR+1)
	startRun := func(i int) {
		runDone[i] = make(chan error, 1)
		go func() { runDone[i] <- tr.Run(tasks[i]) }()
	}
	var firstHeld int
	for i := 1; i <= sc.NR; i++ {
		if inHold(sc.Hold[i-1]) && firstHeld == 0 {
			firstHeld = i
		}
	}

	var sched *scheduler.Scheduler
	var graph *scheduler.ExecutionGraph
	var stages []*scheduler.Stage
	schedDone := make(chan error, 1)
	atReturn := make([]int32, sc.NR+1)
	schedRet := make(chan struct{})
	condScript := filepath.Join(sc.Dir, "cond.sh")
	cerrStage := 0
	if sc.Sched {
		// feasibility of the placement for a real pipeline
		nWaiting, nDone := 0, 0
		for _, h := range sc.Hold {
			if h == "waiting" {
				nWaiting++
			}
			if h == "done" {
				nDone++
			}
		}
		if firstHeld == 0 && nWaiting > 0 && !(sc.CondErr && nDone == 0) {
			res.Infeasible = "waiting stages need an unfinished dependency, none is held"
			return out()
		}
		stages = make([]*scheduler.Stage, sc.NR+1)
		for i := 1; i <= sc.NR; i++ {
			st := &scheduler.Stage{Name: fmt.Sprintf("s%d", i), Task: tasks[i]}
			if i%2 == 0 {
				// stage-level settings, as every stage built from a configuration file has: the stage
				// then executes a private copy of its task
				st.Variables = variables.FromMap(map[string]string{".Stage.Name": st.Name})
			}
			if sc.Hold[i-1] == "waiting" {
				if sc.CondErr && cerrStage == 0 {
					cerrStage = i
					st.Condition = condScript
					if firstHeld != 0 {
						st.DependsOn = []string{fmt.Sprintf("s%d", firstHeld)}
					}
				} else if firstHeld != 0 {
					st.DependsOn = []string{fmt.Sprintf("s%d", firstHeld)}
				} else {
					st.DependsOn = []string{fmt.Sprintf("s%d", cerrStage)}
				}
			}
			stages[i] = st
		}
		if sc.CondErr && firstHeld != 0 {
			_ = ioutil.WriteFile(condScript, []byte("#!/bin/sh\nexit 0\n"), 0o755)
		}
		list := append([]*scheduler.Stage{}, stages[1:]...)
		for w := 0; w < sc.NWait; w++ {
			dep := firstHeld
			if dep == 0 {
				dep = cerrStage
			}
			if dep == 0 {
				break
			}
			t := task.FromCommands(fmt.Sprintf(": > %s/w%d.1.start", mdir, w))
			t.Name = fmt.Sprintf("w%d", w)
			list = append(list, &scheduler.Stage{Name: t.Name, Task: t, DependsOn: []string{fmt.Sprintf("s%d", dep)}})
		}
		graph, err = scheduler.NewExecutionGraph(list...)
		if err != nil {
			res.DriverProblem = err.Error()
			return out()
		}
		if sc.Nested {
			// the scenario's pipeline runs as a nested pipeline: its loop (and a Cancel it issues
			// itself) executes inside the stage goroutine of the including stage
			outer, err := scheduler.NewExecutionGraph(&scheduler.Stage{Name: "outer", Pipeline: graph})
			if err != nil {
				res.DriverProblem = err.Error()
				return out()
			}
			graph = outer
		}
		sched = scheduler.NewScheduler(tr)
		sched.VerifSetPause(2 * time.Millisecond)
		// "done" stages must finish before the others reach their hold points: they have no gate,
		// the held ones simply take longer; the condition error is injected after all holds are reached.
		go func() {
			e := sched.Schedule(graph)
			// the statuses as they are at the very moment the run returns: nothing may still be Running
			for i := 1; i <= sc.NR; i++ {
				atReturn[i] = stages[i].ReadStatus()
			}
			close(schedRet)
			schedDone <- e
		}()
		for i := 1; i <= sc.NR; i++ {
			if sc.Hold[i-1] == "done" {
				lim := time.Now().Add(15 * time.Second)
				for stages[i].ReadStatus() != scheduler.StatusDone && time.Now().Before(lim) {
					time.Sleep(2 * time.Millisecond)
				}
				if stages[i].ReadStatus() != scheduler.StatusDone {
					res.DriverProblem = fmt.Sprintf("stage %d did not finish before the cancel", i)
					return out()
				}
			}
		}
	} else {
		for i := 1; i <= sc.NR; i++ {
			if sc.Hold[i-1] == "done" {
				startRun(i)
				select {
				case e := <-runDone[i]:
					runDone[i] <- e
				case <-time.After(15 * time.Second):
					res.DriverProblem = fmt.Sprintf("run %d did not finish before the cancel", i)
					return out()
				}
			}
		}
		for i := 1; i <= sc.NR; i++ {
			if inHold(sc.Hold[i-1]) {
				startRun(i)
			}
		}
	}
	for i := 1; i <= sc.NR; i++ {
		if inHold(sc.Hold[i-1]) && !waitHold(i) {
			res.DriverProblem = fmt.Sprintf("run %d did not reach hold point %s", i, sc.Hold[i-1])
			res.Log = readLog()
			return out()
		}
	}

	// fire the cancel(s)
	res.CancelReturned = make([]bool, sc.NC)
	res.CancelMs = make([]float64, sc.NC)
	cancelDone := make([]chan struct{}, sc.NC)
	t0 := time.Now()
	if sc.CondErr {
		// the scheduling loop calls Cancel itself when the condition can no longer be evaluated
		// (chmod, not remove: an exec that is already under way still finds its script)
		_ = os.Chmod(condScript, 0o644)
		cancelDone[0] = make(chan struct{})
		go func() {
			// observed through the CancelExit hook event
			lim := time.Now().Add(opDeadline + 4*time.Second)
			for time.Now().Before(lim) {
				evMu.Lock()
				n := 0
				for _, e := range events {
					if e["e"] == "CancelExit" {
						n++
					}
				}
				evMu.Unlock()
				if n >= sc.NC {
					close(cancelDone[0])
					return
				}
				// with a caller's Cancel as well the loop may leave before it evaluates the condition:
				// once Schedule has returned, a Cancel the loop issued has returned too
				select {
				case <-schedRet:
					close(cancelDone[0])
					return
				default:
				}
				time.Sleep(time.Millisecond)
			}
		}()
		// further Cancel calls come from the caller and overlap with the loop's own
		for j := 1; j < sc.NC; j++ {
			j := j
			cancelDone[j] = make(chan struct{})
			go func() {
				sched.Cancel()
				close(cancelDone[j])
			}()
		}
	} else {
		for j := 0; j < sc.NC; j++ {
			j := j
			cancelDone[j] = make(chan struct{})
			go func() {
				if sc.Sched {
					sched.Cancel()
				} else {
					tr.Cancel()
				}
				close(cancelDone[j])
			}()
		}
	}
	for j := 0; j < sc.NC; j++ {
		select {
		case <-cancelDone[j]:
			res.CancelReturned[j] = true
			res.CancelMs[j] = float64(time.Since(t0).Microseconds()) / 1000
		case <-time.After(opDeadline):
		}
	}
	atCancel := map[string]bool{}
	for _, m := range markers() {
		atCancel[m] = true
	}

	// runs that are only called once the cancel has completed
	if !sc.Sched {
		for i := 1; i <= sc.NR; i++ {
			if sc.Hold[i-1] == "late" {
				startRun(i)
			}
		}
		for i := 1; i <= sc.NR; i++ {
			if runDone[i] == nil {
				continue
			}
			select {
			case e := <-runDone[i]:
				res.Runs[i-1].Returned = true
				res.Runs[i-1].Err = e != nil
				if e != nil {
					res.Runs[i-1].ErrText = e.Error()
				}
			case <-time.After(opDeadline):
			}
		}
	} else {
		select {
		case e := <-schedDone:
			res.SchedReturned = true
			res.SchedErr = e != nil
		case <-time.After(opDeadline):
		}
		for i := 1; i <= sc.NR; i++ {
			s := stages[i].ReadStatus()
			if res.SchedReturned {
				s = atReturn[i]
			}
			res.Runs[i-1].Status = map[int32]string{0: "W", 1: "R", 2: "S", 3: "D", 4: "E", 5: "C"}[s]
			res.Runs[i-1].Returned = s != scheduler.StatusRunning
			res.Runs[i-1].Err = s == scheduler.StatusError
		}
	}
	time.Sleep(300 * time.Millisecond)
	final := readLog()
	res.Log = final
	for _, m := range markers() {
		if strings.HasSuffix(m, ".start") && !atCancel[m] {
			res.StartsAfter = append(res.StartsAfter, m)
		}
	}
	for i := 1; i <= sc.NR; i++ {
		for _, k := range []string{"1", "2"} {
			if has(fmt.Sprintf("%d.%s.end", i, k)) {
				res.Runs[i-1].Completed++
			}
		}
		res.Runs[i-1].Started = strings.Contains(" "+final, fmt.Sprintf(" %d.", i))
	}
	for w := 0; w < sc.NWait; w++ {
		if has(fmt.Sprintf("w%d.1.start", w)) {
			res.ExtraWaitingRan++
		}
	}
	res.ChildrenLeft = countChildren()
	evMu.Lock()
	res.Events = append([]Event{}, events...)
	evMu.Unlock()
	return out()
}

// countChildren counts live child processes of this process (the commands' sleep processes).
func countChildren() int {
	me := os.Getpid()
	n := 0
	ents, _ := ioutil.ReadDir("/proc")
	for _, e := range ents {
		b, err := ioutil.ReadFile("/proc/" + e.Name() + "/stat")
		if err != nil {
			continue
		}
		s := string(b)
		k := strings.LastIndex(s, ")")
		if k < 0 {
			continue
		}
		f := strings.Fields(s[k+1:])
		if len(f) < 2 {
			continue
		}
		var ppid int
		fmt.Sscanf(f[1], "%d", &ppid)
		if ppid == me && f[0] != "Z" {
			n++
		}
	}
	return n
}
