// Package watch binds Glob.tla / Watch.tla / WatchTable.tla (C20) to the taskctl binary
// (internal/watch cannot be imported from outside the module).
package watch

import (
	"bytes"
	"encoding/json"
	"fmt"
	"io/ioutil"
	"math/rand"
	"os"
	"os/exec"
	"path/filepath"
	"sort"
	"strings"
	"sync"
	"syscall"
	"time"

	"github.com/bmatcuk/doublestar"

	"verif/harness/internal/core"
)

func chars(s string) []string {
	out := []string{}
	for _, c := range s {
		out = append(out, string(c))
	}
	return out
}
func segs(p string) [][]string {
	out := [][]string{}
	for _, s := range strings.Split(p, "/") {
		out = append(out, chars(s))
	}
	return out
}

var segAlphabet = []string{"a", "b", "ab", "*", "?", "a*", "*b", "**", "?b"}
var nameAlphabet = []string{"a", "b", "ab", "ba", "bb"}

func randPattern(rng *rand.Rand) string {
	n := 1 + rng.Intn(4)
	var p []string
	for i := 0; i < n; i++ {
		p = append(p, segAlphabet[rng.Intn(len(segAlphabet))])
	}
	return strings.Join(p, "/")
}

// randTree creates a directory tree (<= 3 levels, <= 12 files) and returns all paths (files and directories).
func randTree(rng *rand.Rand, root string) []string {
	var paths []string
	files := 0
	var fill func(dir string, depth int)
	fill = func(dir string, depth int) {
		names := append([]string{}, nameAlphabet...)
		rng.Shuffle(len(names), func(i, j int) { names[i], names[j] = names[j], names[i] })
		k := 1 + rng.Intn(4)
		for _, n := range names[:k] {
			rel := filepath.Join(dir, n)
			if depth < 3 && rng.Intn(3) == 0 {
				_ = os.MkdirAll(filepath.Join(root, rel), 0o755)
				paths = append(paths, rel)
				fill(rel, depth+1)
			} else if files < 12 {
				_ = ioutil.WriteFile(filepath.Join(root, rel), []byte("x"), 0o644)
				paths = append(paths, rel)
				files++
			}
		}
	}
	fill("", 1)
	sort.Strings(paths)
	return paths
}

// proc is a running `taskctl -d watch` process whose output is collected.
type proc struct {
	cmd   *exec.Cmd
	mu    sync.Mutex
	out   bytes.Buffer
	trace string // directory the process writes its verification trace to (VERIF_TRACE)
}

// wev is an event the watcher recorded through its verification hooks.
type wev struct {
	E    string `json:"e"`
	W    string `json:"w"`
	Path string `json:"path"`
	Op   string `json:"op"`
}

// events reads what the watcher has recorded so far (hooks in internal/watch: start of Run, every
// path handed to the file system watcher, every event received from it).
func (p *proc) events() []wev {
	var out []wev
	files, _ := filepath.Glob(filepath.Join(p.trace, "trace-*.ndjson"))
	for _, f := range files {
		b, _ := ioutil.ReadFile(f)
		for _, l := range bytes.Split(b, []byte("\n")) {
			var e wev
			if len(l) > 0 && json.Unmarshal(l, &e) == nil && strings.HasPrefix(e.E, "watch-") {
				out = append(out, e)
			}
		}
	}
	return out
}
func (p *proc) started(w string) bool {
	for _, e := range p.events() {
		if e.E == "watch-start" && e.W == w {
			return true
		}
	}
	return false
}
func (p *proc) traceSize() int {
	n := 0
	files, _ := filepath.Glob(filepath.Join(p.trace, "trace-*.ndjson"))
	for _, f := range files {
		if fi, err := os.Stat(f); err == nil {
			n += int(fi.Size())
		}
	}
	return n
}

func (p *proc) Write(b []byte) (int, error) {
	p.mu.Lock()
	defer p.mu.Unlock()
	return p.out.Write(b)
}
func (p *proc) text() string {
	p.mu.Lock()
	defer p.mu.Unlock()
	return p.out.String()
}
func startWatch(env *core.Env, dir, cfg, home string, more ...string) (*proc, error) {
	p := &proc{}
	p.cmd = exec.Command(env.Taskctl, append([]string{"-d", "-c", cfg, "watch", "w"}, more...)...)
	p.cmd.Dir = dir
	for _, kv := range os.Environ() {
		if !strings.HasPrefix(kv, "TASKCTL_") && !strings.HasPrefix(kv, "HOME=") {
			p.cmd.Env = append(p.cmd.Env, kv)
		}
	}
	p.trace = env.Sub("wtrace")
	p.cmd.Env = append(p.cmd.Env, "HOME="+home, "VERIF_TRACE="+p.trace)
	p.cmd.Stdout, p.cmd.Stderr = p, p
	p.cmd.SysProcAttr = &syscall.SysProcAttr{Setpgid: true}
	return p, p.cmd.Start()
}
func (p *proc) stop() {
	if p.cmd.Process != nil {
		_ = syscall.Kill(-p.cmd.Process.Pid, syscall.SIGKILL)
		_, _ = p.cmd.Process.Wait()
	}
}

// waitStable waits until the process output has not grown for d (or limit passed).
func (p *proc) waitStable(d, limit time.Duration) {
	end := time.Now().Add(limit)
	last, lastAt := -1, time.Now()
	for time.Now().Before(end) {
		n := len(p.text()) + p.traceSize()
		if n != last {
			last, lastAt = n, time.Now()
		} else if n > 0 && time.Since(lastAt) > d {
			return
		}
		time.Sleep(20 * time.Millisecond)
	}
}

type rowT map[string]interface{}

// Check is the engine behind C20.
func Check(env *core.Env, rep *core.Report) *core.Result {
	thorough := env.Thorough()
	samples := core.NewSamples(10)
	var mu sync.Mutex
	modelRuns := []map[string]interface{}{}
	note := func(name string, r *core.TLCResult, what string) {
		mu.Lock()
		modelRuns = append(modelRuns, map[string]interface{}{"config": name, "generated": r.Generated, "distinct": r.Distinct, "wall_s": r.Wall.Seconds(), "result": what})
		mu.Unlock()
	}
	done := make(chan struct{})
	go func() {
		cfg := "Watch.cfg"
		r := core.MustHold(env, core.TLCOpts{Module: "Watch", Config: cfg, Workers: 6, Timeout: 20 * time.Minute})
		note("Watch", r, "RunsAreDeliveredSubscribed, FiresIffSubscribed, KeepsServing hold for every subset of the five event types x every sequence of <=3 delivered events x every interleaving of deliveries, loop iterations and handlers")
		close(done)
	}()
	home := env.Sub("home")
	rng := env.Rand("watch")
	var rows []rowT
	var meta []string
	add := func(kind, what string, detail interface{}) {
		rep.Add(core.Finding{Prop: "C20", Key: "C20:" + kind, What: what, Detail: detail})
	}

	// (1) calibration: Glob.tla's PathMatch against the library, over the generated pattern x path domain
	nCal := 600
	if thorough {
		nCal = 6000
	}
	for i := 0; i < nCal; i++ {
		pat := randPattern(rng)
		var ps []string
		for k := 0; k < 1+rng.Intn(3); k++ {
			ps = append(ps, nameAlphabet[rng.Intn(len(nameAlphabet))])
		}
		path := strings.Join(ps, "/")
		m, err := doublestar.PathMatch(pat, path)
		if err != nil {
			continue
		}
		rows = append(rows, rowT{"kind": "match", "pattern": segs(pat), "path": segs(path), "matched": m})
		meta = append(meta, fmt.Sprintf("match %q ~ %q = %v", pat, path, m))
	}
	nMatch := len(rows)

	// (2) selection: random trees x pattern sets, observed through the watcher's verification hooks (watch-path events)
	nSel := 40
	if thorough {
		nSel = 600
	}
	type selRes struct {
		row  rowT
		desc string
		err  string
	}
	selJobs := make([]int64, nSel)
	for i := range selJobs {
		selJobs[i] = rng.Int63()
	}
	selOut := make([]selRes, nSel)
	core.Parallel(nSel, 12, func(i int) {
		r := rand.New(rand.NewSource(selJobs[i]))
		root := env.Sub("tree")
		cfgd := env.Sub("wcfg")
		var paths, inc, exc []string
		if i == 0 {
			// the fixed scenario of the recorded finding C20:select:consecutive-doublestar (see KNOWN_FINDINGS.json)
			_ = os.MkdirAll(filepath.Join(root, "b"), 0o755)
			_ = ioutil.WriteFile(filepath.Join(root, "a"), []byte("x"), 0o644)
			_ = ioutil.WriteFile(filepath.Join(root, "b", "a"), []byte("x"), 0o644)
			paths = []string{"a", "b", "b/a"}
			inc = []string{"**/**/a"}
		} else if i == 1 {
			// the same with three adjacent doublestars
			_ = os.MkdirAll(filepath.Join(root, "b"), 0o755)
			_ = ioutil.WriteFile(filepath.Join(root, "a"), []byte("x"), 0o644)
			_ = ioutil.WriteFile(filepath.Join(root, "b", "a"), []byte("x"), 0o644)
			paths = []string{"a", "b", "b/a"}
			inc = []string{"**/**/**/a"}
		} else if i == 4 {
			// literal patterns: one names a path BELOW a regular file (it cannot exist), one an existing file
			_ = os.MkdirAll(filepath.Join(root, "b"), 0o755)
			for _, f := range []string{"a", "b/a"} {
				_ = ioutil.WriteFile(filepath.Join(root, f), []byte("x"), 0o644)
			}
			paths = []string{"a", "b", "b/a"}
			inc = []string{"a/ab", "b/a"}
		} else if i == 3 {
			// adjacent doublestars in an EXCLUDE pattern: they exclude the top-level file too
			_ = os.MkdirAll(filepath.Join(root, "b"), 0o755)
			for _, f := range []string{"a", "ab", "b/a", "b/ab"} {
				_ = ioutil.WriteFile(filepath.Join(root, f), []byte("x"), 0o644)
			}
			paths = []string{"a", "ab", "b", "b/a", "b/ab"}
			inc = []string{"**"}
			exc = []string{"**/**/a"}
		} else if i == 2 {
			// alternatives in braces (doublestar syntax outside Glob.tla's alphabet): judged with the
			// library's own PathMatch below
			_ = os.MkdirAll(filepath.Join(root, "d"), 0o755)
			for _, f := range []string{"a", "b", "ab", "d/a", "d/b"} {
				_ = ioutil.WriteFile(filepath.Join(root, f), []byte("x"), 0o644)
			}
			paths = []string{"a", "ab", "b", "d", "d/a", "d/b"}
			inc = []string{"{a,ab}", "d/{b,zz}"}
		} else {
			paths = randTree(r, root)
			for k := 0; k < 1+r.Intn(2); k++ {
				inc = append(inc, randPattern(r))
			}
			if r.Intn(2) == 0 {
				exc = append(exc, randPattern(r))
			}
		}
		var y strings.Builder
		y.WriteString("tasks:\n  t:\n    command: [\"true\"]\nwatchers:\n  w:\n    task: t\n    watch:\n")
		for _, p := range inc {
			fmt.Fprintf(&y, "      - %q\n", p)
		}
		if len(exc) > 0 {
			y.WriteString("    exclude:\n")
			for _, p := range exc {
				fmt.Fprintf(&y, "      - %q\n", p)
			}
		}
		cfg := filepath.Join(cfgd, "tasks.yaml")
		_ = ioutil.WriteFile(cfg, []byte(y.String()), 0o644)
		p, err := startWatch(env, root, cfg, home)
		if err != nil {
			selOut[i].err = err.Error()
			return
		}
		p.waitStable(500*time.Millisecond, 8*time.Second)
		p.stop()
		txt := p.text()
		if strings.Contains(txt, "panic:") {
			add("select:crash", "the watcher crashed while selecting paths", map[string]interface{}{"include": inc, "exclude": exc, "paths": paths, "output": tail(txt, 800)})
			return
		}
		if !p.started("w") {
			selOut[i].err = "watcher did not start: " + tail(txt, 300)
			return
		}
		idx := map[string]int{}
		var ps [][][]string
		for k, q := range paths {
			idx[q] = k + 1
			ps = append(ps, segs(q))
		}
		obs := []int{}
		for _, e := range p.events() {
			if e.E != "watch-path" || e.W != "w" {
				continue
			}
			q := e.Path
			if k, ok := idx[q]; ok {
				obs = append(obs, k)
			} else {
				add("select:observes-unknown-path", fmt.Sprintf("the watcher waits on %q which is not in the tree", q), map[string]interface{}{"include": inc, "exclude": exc, "paths": paths})
			}
		}
		if i == 2 {
			var want, got []string
			for _, q := range paths {
				for _, pat := range inc {
					if m, _ := doublestar.PathMatch(pat, q); m {
						want = append(want, q)
						break
					}
				}
			}
			for _, k := range obs {
				got = append(got, paths[k-1])
			}
			sort.Strings(got)
			sort.Strings(want)
			if strings.Join(got, ",") != strings.Join(want, ",") {
				add("select:brace-alternatives", fmt.Sprintf("watch: %v over %v: the watcher waits on %v, the patterns select %v", inc, paths, got, want), map[string]interface{}{"include": inc, "paths": paths})
			}
			return
		}
		var is, es [][][]string
		for _, q := range inc {
			is = append(is, segs(q))
		}
		es = [][][]string{}
		for _, q := range exc {
			es = append(es, segs(q))
		}
		selOut[i].row = rowT{"kind": "select", "paths": ps, "inc": is, "exc": es, "observed": obs, "_inc": inc, "_exc": exc, "_paths": paths}
		selOut[i].desc = fmt.Sprintf("select include=%v exclude=%v tree=%v observed=%v", inc, exc, paths, obs)
	})
	broken := 0
	for _, s := range selOut {
		if s.err != "" {
			broken++
			continue
		}
		if s.row != nil {
			rows = append(rows, s.row)
			meta = append(meta, s.desc)
		}
	}
	if broken*3 > nSel {
		core.Broken("watch driver: %d of %d selection runs did not start", broken, nSel)
	}
	nSelRows := len(rows) - nMatch

	// (3) events: file operations on selected, excluded and unrelated files
	nEv := 14
	if thorough {
		nEv = 120
	}
	evSeeds := make([]int64, nEv)
	for i := range evSeeds {
		evSeeds[i] = rng.Int63()
	}
	evOut := make([]selRes, nEv)
	allTypes := []string{"create", "write", "remove", "rename", "chmod"}
	core.Parallel(nEv, 10, func(i int) {
		r := rand.New(rand.NewSource(evSeeds[i]))
		root := env.Sub("ev")
		cfgd := env.Sub("ecfg")
		for _, f := range []string{"f1.txt", "f2.txt", "f3.txt", "ex.txt", "other.dat"} {
			_ = ioutil.WriteFile(filepath.Join(root, f), []byte("x"), 0o644)
		}
		_ = os.MkdirAll(filepath.Join(root, "d"), 0o755)
		_ = ioutil.WriteFile(filepath.Join(root, "d", "in.txt"), []byte("x"), 0o644)
		var listed []string
		if i == 0 {
			listed = []string{"write"}
		} else if i == 3 {
			listed = nil // every event type: the overrunning task certainly runs
		} else if r.Intn(4) != 0 {
			for _, t := range allTypes {
				if r.Intn(2) == 0 {
					listed = append(listed, t)
				}
			}
		}
		logf := filepath.Join(cfgd, "tasklog")
		var y strings.Builder
		// in half of the scenarios the task outlasts the loop's one-second pause, so that a later
		// event is taken while the run for an earlier one is still in progress
		slow := i%2 == 1 && i != 0
		pre := ""
		if slow {
			pre = "sleep 1.7; "
		}
		// every third scenario: the watcher's task has two variations (each run executes both);
		// every third: a second watcher (its own task, *.dat) is served by the same command
		withVars, twoWatchers := i%3 == 1, i%3 == 2
		logf2 := logf + "2"
		vv, varDef := "", ""
		if withVars {
			vv, varDef = "$VV", "    variations:\n      - {VV: a}\n      - {VV: b}\n"
		}
		if i == 3 {
			// the task has a timeout and overruns it whenever it runs for an event: the watcher keeps
			// serving later events all the same (KeepsServing probe below)
			fmt.Fprintf(&y, "tasks:\n  t:\n    timeout: 1s\n    command: ['/bin/echo \"RUN $EventName $EventPath\" >> %s; [ -z \"$EventName\" ] || sleep 3']\n", logf)
		} else {
			fmt.Fprintf(&y, "tasks:\n  t:\n%s    command: ['%s/bin/echo \"RUN%s $EventName $EventPath\" >> %s']\n", varDef, pre, vv, logf)
		}
		fmt.Fprintf(&y, "  t2:\n    command: ['/bin/echo \"RUN2 $EventName $EventPath\" >> %s']\n", logf2)
		// scenario 2 also selects the directory d itself: events on its direct entries are reported
		// through it, but a directory created inside it later is NOT selected by any pattern
		watchList := `["*.txt"]`
		if i == 2 {
			watchList = `["*.txt", "d"]`
		}
		fmt.Fprintf(&y, "watchers:\n  w:\n    task: t\n    watch: %s\n    exclude: [\"ex.txt\"]\n", watchList)
		if len(listed) > 0 {
			fmt.Fprintf(&y, "    events: [%s]\n", strings.Join(listed, ", "))
		}
		y.WriteString("  w2:\n    task: t2\n    watch: [\"*.dat\"]\n")
		var moreWatchers []string
		if twoWatchers {
			moreWatchers = []string{"w2"}
		}
		cfg := filepath.Join(cfgd, "tasks.yaml")
		_ = ioutil.WriteFile(cfg, []byte(y.String()), 0o644)
		p, err := startWatch(env, root, cfg, home, moreWatchers...)
		if err != nil {
			evOut[i].err = err.Error()
			return
		}
		defer p.stop()
		p.waitStable(400*time.Millisecond, 8*time.Second)
		if !p.started("w") {
			if len(p.events()) > 0 {
				// the command serves some watcher, but not every one named on the command line
				add("events:watcher-not-started", fmt.Sprintf("taskctl watch w %s: watcher w was never started (recorded: %v)", strings.Join(moreWatchers, " "), p.events()), map[string]interface{}{"yaml": y.String(), "output": tail(p.text(), 1200)})
				return
			}
			evOut[i].err = "watcher did not start: " + tail(p.text(), 300)
			return
		}
		time.Sleep(300 * time.Millisecond)
		gone := map[string]bool{}
		touchedSel, touchedOther := map[string]bool{}, map[string]bool{}
		var ops []string
		nops := 2 + r.Intn(5)
		// scenario 0: a long run of events that are not subscribed, then a subscribed one
		fixed := [][2]string{{"write", "f1.txt"}, {"chmod", "f1.txt"}, {"chmod", "f2.txt"}, {"chmod", "f1.txt"}, {"chmod", "f2.txt"}, {"chmod", "f3.txt"}, {"write", "f1.txt"}}
		// scenario 1: a selected file is renamed away and, after the rename has been handled, renamed
		// back: the watcher keeps serving it (the KeepsServing probe below writes to it)
		fixed1 := [][2]string{{"rename", "f1.txt"}, {"chmod", "f2.txt"}, {"chmod", "f3.txt"}, {"rename-back", "f1.txt"}, {"chmod", "f2.txt"}}
		if i == 0 {
			nops = len(fixed)
		}
		if i == 1 {
			nops = len(fixed1)
		}
		for k := 0; k < nops; k++ {
			f := []string{"f1.txt", "f2.txt", "f3.txt", "ex.txt", "other.dat", "d/in.txt"}[r.Intn(6)]
			op := []string{"write", "write", "chmod", "remove", "rename"}[r.Intn(5)]
			if i == 0 {
				op, f = fixed[k][0], fixed[k][1]
			}
			if i == 1 {
				op, f = fixed1[k][0], fixed1[k][1]
			}
			if op == "rename-back" {
				_ = os.Rename(filepath.Join(root, f)+".moved", filepath.Join(root, f))
				gone[f] = false
				ops = append(ops, op+" "+f)
				time.Sleep(1250 * time.Millisecond)
				continue
			}
			if gone[f] {
				continue
			}
			full := filepath.Join(root, f)
			switch op {
			case "write":
				fh, e := os.OpenFile(full, os.O_APPEND|os.O_WRONLY, 0o644)
				if e == nil {
					_, _ = fh.WriteString("more\n")
					_ = fh.Close()
				}
			case "chmod":
				_ = os.Chmod(full, os.FileMode(0o600+k))
			case "remove":
				_ = os.Remove(full)
				gone[f] = true
			case "rename":
				_ = os.Rename(full, full+".moved")
				gone[f] = true
			}
			ops = append(ops, op+" "+f)
			if strings.HasPrefix(f, "f") {
				touchedSel[f] = true
			} else if !(i == 2 && strings.HasPrefix(f, "d/")) {
				// (in scenario 2 the directory d is selected: its direct entries report through it)
				touchedOther[f] = true
			}
			time.Sleep(1250 * time.Millisecond)
		}
		// the loop takes one event per second: wait until everything delivered has been handled
		time.Sleep(time.Duration(2+len(ops)) * 1100 * time.Millisecond)
		if slow {
			time.Sleep(2500 * time.Millisecond)
		}
		p.waitStable(1500*time.Millisecond, 10*time.Second)
		if i == 2 {
			// a directory made inside the selected directory, then a file written inside the new one
			_ = os.MkdirAll(filepath.Join(root, "d", "sub"), 0o755)
			time.Sleep(2500 * time.Millisecond)
			_ = ioutil.WriteFile(filepath.Join(root, "d", "sub", "deep.dat"), []byte("x"), 0o644)
			time.Sleep(1250 * time.Millisecond)
			if fh, e := os.OpenFile(filepath.Join(root, "d", "sub", "deep.dat"), os.O_APPEND|os.O_WRONLY, 0o644); e == nil {
				_, _ = fh.WriteString("more\n")
				_ = fh.Close()
			}
			time.Sleep(3 * time.Second)
			for _, e := range p.events() {
				if e.E == "watch-event" && e.W == "w" && strings.HasPrefix(e.Path, "d/sub/") {
					add("events:unselected-directory-watched", fmt.Sprintf("watch: [*.txt, d]: after `mkdir d/sub` the watcher received %s on %s - nothing selects d/sub or what is in it", e.Op, e.Path), map[string]interface{}{"yaml": y.String()})
					return
				}
			}
		}
		// KeepsServing: after all of that the watcher still serves events - one more write to a selected
		// file that still exists must be received
		for _, f := range []string{"f1.txt", "f2.txt", "f3.txt"} {
			if gone[f] {
				continue
			}
			count := func() int {
				n := 0
				for _, e := range p.events() {
					if e.E == "watch-event" && e.W == "w" && e.Path == f {
						n++
					}
				}
				return n
			}
			before := count()
			if fh, e := os.OpenFile(filepath.Join(root, f), os.O_APPEND|os.O_WRONLY, 0o644); e == nil {
				_, _ = fh.WriteString("probe\n")
				_ = fh.Close()
			}
			ops = append(ops, "write "+f)
			touchedSel[f] = true
			lim := time.Now().Add(12 * time.Second)
			for count() == before && time.Now().Before(lim) {
				time.Sleep(50 * time.Millisecond)
			}
			if count() == before {
				add("events:watcher-stopped-serving", fmt.Sprintf("after %v a further write to the selected file %s was not received within 12 s", ops[:len(ops)-1], f), map[string]interface{}{"ops": ops, "yaml": y.String(), "output": tail(p.text(), 1200)})
				return
			}
			if slow {
				time.Sleep(2500 * time.Millisecond)
			}
			p.waitStable(1500*time.Millisecond, 10*time.Second)
			break
		}
		txt := p.text()
		if strings.Contains(txt, "panic:") {
			add("events:crash", "the watcher crashed while handling events", map[string]interface{}{"ops": ops, "output": tail(txt, 800)})
			return
		}
		delivered := []rowT{}
		evs := p.events()
		for _, e := range evs {
			if e.E != "watch-event" || e.W != "w" {
				continue // the second watcher's events are judged below
			}
			for _, t := range strings.Split(e.Op, "|") {
				delivered = append(delivered, rowT{"t": strings.ToLower(t), "p": e.Path})
			}
		}
		runs := []rowT{}
		var runsB []string
		b, _ := ioutil.ReadFile(logf)
		for _, l := range strings.Split(string(b), "\n") {
			f := strings.Fields(l)
			if len(f) == 3 && (f[0] == "RUN" || f[0] == "RUNa") {
				runs = append(runs, rowT{"name": f[1], "path": f[2]})
			}
			if len(f) == 3 && f[0] == "RUNb" {
				runsB = append(runsB, f[1]+" "+f[2])
			}
		}
		if withVars {
			// every execution of the task runs its commands for each variation
			var runsA []string
			for _, r := range runs {
				runsA = append(runsA, fmt.Sprint(r["name"], " ", r["path"]))
			}
			sort.Strings(runsA)
			sort.Strings(runsB)
			if strings.Join(runsA, ",") != strings.Join(runsB, ",") {
				add("events:task-run-without-its-variations", fmt.Sprintf("the watcher's task has two variations: runs for the first %v, for the second %v", runsA, runsB), map[string]interface{}{"ops": ops, "yaml": y.String()})
				return
			}
		}
		if twoWatchers {
			// the second watcher is served as well: it reports what it waits on, and a write to the
			// file it selects runs its task
			second := false
			for _, e := range evs {
				second = second || (e.E == "watch-path" && e.W == "w2" && e.Path == "other.dat")
			}
			if !second {
				add("events:second-watcher-not-started", "taskctl watch w w2: the second watcher never reported the paths it waits on", map[string]interface{}{"output": tail(txt, 1500)})
				return
			}
			wrote := false
			for _, o := range ops {
				wrote = wrote || o == "write other.dat"
			}
			b2, _ := ioutil.ReadFile(logf2)
			if wrote && !strings.Contains(string(b2), "RUN2 write other.dat") {
				add("events:second-watcher-does-not-fire", "taskctl watch w w2: a write to the file the second watcher selects did not run its task", map[string]interface{}{"ops": ops, "log2": string(b2), "output": tail(txt, 1500)})
				return
			}
		}
		ls := listed
		if ls == nil {
			ls = []string{}
		}
		evOut[i].row = rowT{"kind": "events", "listed": ls, "delivered": delivered, "runs": runs, "touchedSelected": keys(touchedSel), "touchedOther": keys(touchedOther)}
		evOut[i].desc = fmt.Sprintf("events subscribed=%v slow-task=%v ops=%v delivered=%v runs=%v", ls, slow, ops, delivered, runs)
	})
	broken = 0
	for _, s := range evOut {
		if s.err != "" {
			broken++
			continue
		}
		if s.row != nil {
			rows = append(rows, s.row)
			meta = append(meta, s.desc)
		}
	}
	if broken*3 > nEv {
		core.Broken("watch driver: %d of %d event scenarios did not start", broken, nEv)
	}
	nEvRows := len(rows) - nMatch - nSelRows

	// judge every row with TLC
	var buf bytes.Buffer
	for _, r := range rows {
		c := rowT{}
		for k, x := range r {
			if !strings.HasPrefix(k, "_") {
				c[k] = x
			}
		}
		b, _ := json.Marshal(c)
		buf.Write(b)
		buf.WriteByte('\n')
	}
	res := core.MustHold(env, core.TLCOpts{Module: "WatchTable", Config: "WatchTable.cfg", Workers: 1, Files: map[string][]byte{"rows.ndjson": buf.Bytes()}, Timeout: 30 * time.Minute})
	ps := res.Tagged("BAD")
	var v struct {
		Bad  []int `json:"bad"`
		Rows int   `json:"rows"`
	}
	if len(ps) == 0 || json.Unmarshal([]byte(ps[0]), &v) != nil || v.Rows != len(rows) {
		core.Broken("WatchTable verdict unreadable: %v", ps)
	}
	for _, bi := range v.Bad {
		r := rows[bi-1]
		switch r["kind"] {
		case "match":
			// Glob.tla disagrees with the library: a specification error, not a verdict about taskctl
			core.Broken("calibration: Glob.tla's PathMatch disagrees with doublestar on %s", meta[bi-1])
		case "select":
			if consecutiveDoublestarOnly(r) {
				add("select:consecutive-doublestar", "an include pattern with two adjacent ** segments does not select paths that need the pair to match zero directories: "+meta[bi-1], r)
			} else {
				add("select:observed-paths-differ-from-selected", "the watcher does not wait on exactly the paths matching an include and no exclude pattern: "+meta[bi-1], r)
			}
		default:
			add("events:runs-do-not-match-subscribed-events", "task runs do not correspond to the delivered, subscribed events (or an unselected file produced events, or a selected one none): "+meta[bi-1], r)
		}
	}
	for i, m := range meta {
		if i == nMatch || i == nMatch+nSelRows || i == 3 {
			samples.Add(m)
		}
	}
	// binding self-test: a select row with one observed path dropped must be flagged
	selftest := map[string]interface{}{"skipped": "no selection row with an observed path"}
	// (taken from a row that TLC accepted: a row that is already wrong could become right)
	isBad := map[int]bool{}
	for _, bi := range v.Bad {
		isBad[bi-1] = true
	}
	for ri, r := range rows {
		if r["kind"] == "select" && len(r["observed"].([]int)) > 0 && !isBad[ri] {
			c := rowT{}
			for k, x := range r {
				c[k] = x
			}
			first := r["observed"].([]int)[0]
			rest := []int{}
			for _, o := range r["observed"].([]int) {
				if o != first {
					rest = append(rest, o)
				}
			}
			c["observed"] = rest
			for k := range c {
				if strings.HasPrefix(k, "_") {
					delete(c, k)
				}
			}
			b, _ := json.Marshal(c)
			r2 := core.MustHold(env, core.TLCOpts{Module: "WatchTable", Config: "WatchTable.cfg", Workers: 1, Files: map[string][]byte{"rows.ndjson": append(b, '\n')}})
			if p2 := r2.Tagged("BAD"); len(p2) == 0 || !strings.Contains(p2[0], `"bad":[1]`) {
				core.Broken("binding self-test: a selection row with an observed path removed was not flagged: %v", p2)
			}
			selftest = map[string]interface{}{"corruption": "one observed path removed from a selection row", "flagged": true}
			break
		}
	}
	<-done
	gen, dist, nruns, cmds := core.TLCTotals()
	cov := map[string]interface{}{
		"states": dist, "transitions": gen, "tlc_runs": nruns,
		"traces_validated_against_impl": nSelRows + nEvRows, "evaluations": len(rows), "distinct_nontrivial": nSelRows + nEvRows,
		"calibration_rows": nMatch, "selection_rows": nSelRows, "event_scenarios": nEvRows,
		"rule":       "calibration: random (pattern, path) pairs over segments {a, b, ab, *, ?, a*, *b, ?b, **} judged equal between Glob.tla and doublestar.PathMatch; selection: random trees (<=3 levels, <=12 files) x 1..2 include and 0..1 exclude patterns, the paths the real watcher reports waiting on must equal Selected; events: 2..6 file operations (write, chmod, remove, rename) on selected, excluded and unrelated files with a random subset of subscribed event types, deliveries taken from the watcher's hook events (watch-event, recorded before the subscription filter), task runs from the task's log; all rows judged by TLC (WatchTable.tla)",
		"model_runs": modelRuns, "binding_selftest": selftest, "samples": samples.List(), "checker_cmds": cmds,
	}
	return &core.Result{Level: "model_checking", Coverage: cov, Assumptions: []string{
		"inotify semantics are taken from the events the watcher's own fsnotify instance delivers (hook events), not re-modelled",
		"operations stay away from non-selected children of selected directories; a removed or renamed file is not touched again",
		"the loop handles one event per second: scenarios wait (operations + 2) x 1.1 s and for a quiet log before judging",
	}}
}

// consecutiveDoublestarOnly recognises the recorded finding: the watcher observes a subset of the
// selected paths, and every missing path is matched only by include patterns that contain two
// adjacent "**" segments (doublestar.Glob, unlike PathMatch, wants a directory for such a pair).
func consecutiveDoublestarOnly(r rowT) bool {
	inc, _ := r["_inc"].([]string)
	exc, _ := r["_exc"].([]string)
	paths, _ := r["_paths"].([]string)
	obs := map[int]bool{}
	for _, o := range r["observed"].([]int) {
		obs[o] = true
	}
	adjacent := func(p string) bool { return strings.Contains("/"+p+"/", "/**/**/") }
	missing := 0
	for k, q := range paths {
		sel, onlyAdj := false, true
		for _, p := range inc {
			if m, _ := doublestar.PathMatch(p, q); m {
				sel = true
				if !adjacent(p) {
					onlyAdj = false
				}
			}
		}
		for _, p := range exc {
			if m, _ := doublestar.PathMatch(p, q); m {
				sel = false
			}
		}
		if obs[k+1] && !sel {
			return false // observes something that is not selected: a different violation
		}
		if sel && !obs[k+1] {
			if !onlyAdj {
				return false
			}
			missing++
		}
	}
	return missing > 0
}

func keys(m map[string]bool) []string {
	out := []string{}
	for k := range m {
		out = append(out, k)
	}
	sort.Strings(out)
	return out
}
func tail(s string, n int) string {
	if len(s) > n {
		return s[len(s)-n:]
	}
	return s
}
