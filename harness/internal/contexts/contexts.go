// Package contexts binds Contexts.tla / ContextsTable.tla (C14) to the real TaskRunner,
// Scheduler and taskctl binary.
package contexts

import (
	"bytes"
	"encoding/json"
	"fmt"
	"io/ioutil"
	"math/rand"
	"path/filepath"
	"strconv"
	"strings"
	"sync"
	"sync/atomic"
	"time"

	"github.com/sirupsen/logrus"
	"github.com/taskctl/taskctl/pkg/runner"
	"github.com/taskctl/taskctl/pkg/scheduler"
	"github.com/taskctl/taskctl/pkg/task"
	"github.com/taskctl/taskctl/pkg/variables"

	"verif/harness/internal/core"
	"verif/harness/internal/sched"
)

func init() { logrus.SetOutput(ioutil.Discard) }

type shape struct {
	Ctx       string `json:"ctx"`
	Cond      bool   `json:"cond"`
	Before    bool   `json:"before"`
	After     bool   `json:"after"`
	CondFalse bool   `json:"condFalse"`
	Fails     bool   `json:"fails"`
}

type tok map[string]interface{}

type row struct {
	Mode     string   `json:"mode"`
	Ctxs     []string `json:"ctxs"`
	UpFails  []bool   `json:"upFails"`
	UpForm   []int    `json:"upForm"` // 0: one up command; 1..3: three commands, the failing one (if up fails) at that position
	Runs     []shape  `json:"runs"`
	Seq      bool     `json:"seq"`
	Finished bool     `json:"finished"`
	Rets     []string `json:"rets"`
	Log      []tok    `json:"log"`
}

func randomCase(rng *rand.Rand, maxK int) row {
	nc := 1 + rng.Intn(3)
	r := row{}
	for i := 1; i <= nc; i++ {
		r.Ctxs = append(r.Ctxs, fmt.Sprintf("c%d", i))
		r.UpFails = append(r.UpFails, rng.Intn(6) == 0)
		r.UpForm = append(r.UpForm, rng.Intn(4))
	}
	k := 1 + rng.Intn(maxK)
	for i := 0; i < k; i++ {
		s := shape{Ctx: r.Ctxs[rng.Intn(nc)], Cond: rng.Intn(3) == 0, Before: rng.Intn(2) == 0, After: rng.Intn(2) == 0, Fails: rng.Intn(4) == 0}
		s.CondFalse = s.Cond && rng.Intn(2) == 0
		r.Runs = append(r.Runs, s)
	}
	return r
}

func expectedRet(r row, i int) string {
	s := r.Runs[i]
	for j, c := range r.Ctxs {
		if c == s.Ctx && r.UpFails[j] {
			return "err"
		}
	}
	if s.Cond && s.CondFalse {
		return "skipped"
	}
	if s.Fails {
		return "err"
	}
	return "ok"
}

func echo(tok, log string) string { return fmt.Sprintf("/bin/echo %s >> %s", tok, log) }

func buildTask(i int, s shape, log string) *task.Task {
	body := echo(fmt.Sprintf("body.%d", i), log)
	if s.Fails {
		body += "; exit 3"
	}
	t := task.FromCommands(body)
	t.Name = fmt.Sprintf("r%d", i)
	t.Context = s.Ctx
	if s.Cond {
		t.Condition = echo(fmt.Sprintf("cond.%d", i), log)
		if s.CondFalse {
			t.Condition += "; exit 1"
		}
	}
	if s.Before {
		t.Before = []string{echo(fmt.Sprintf("tb.%d", i), log)}
	}
	if s.After {
		t.After = []string{echo(fmt.Sprintf("ta.%d", i), log)}
	}
	return t
}

// upCommands: the start-up commands of context j. The up token is written by the last command;
// with form 1..3 there are three commands and a failing start-up fails at that position (the
// commands after it still run - Up keeps going - but the start-up has failed).
func upCommands(r row, j int, log string) []string {
	c := r.Ctxs[j]
	tokc := echo("up."+c, log)
	form := 0
	if j < len(r.UpForm) {
		form = r.UpForm[j]
	}
	if form == 0 {
		if r.UpFails[j] {
			return []string{"sleep 0.02; " + tokc + "; exit 1"}
		}
		return []string{"sleep 0.02; " + tokc}
	}
	cmds := []string{"sleep 0.01", "sleep 0.01", tokc}
	if r.UpFails[j] {
		if form == 3 {
			cmds[2] = tokc + "; exit 1"
		} else {
			cmds[form-1] = "exit 1"
		}
	}
	return cmds
}

// downCommands: the shut-down of a context, in some rows with a failing command before or after the
// one that leaves the token (a failing shut-down is logged; every used context is still shut down,
// every command of it attempted)
func downCommands(r row, j int, log string) []string {
	tokc := echo("down."+r.Ctxs[j], log)
	switch (j + len(r.Runs)) % 3 {
	case 1:
		return []string{tokc + "; exit 1"}
	case 2:
		return []string{"exit 1", tokc}
	}
	return []string{tokc}
}

func buildContexts(r row, log string) map[string]*runner.ExecutionContext {
	m := map[string]*runner.ExecutionContext{}
	for j, c := range r.Ctxs {
		m[c] = runner.NewExecutionContext(nil, "", variables.NewVariables(), upCommands(r, j, log), downCommands(r, j, log),
			[]string{echo("cb."+c, log)}, []string{echo("ca."+c, log)})
	}
	return m
}

func parseLog(path string) []tok {
	b, _ := ioutil.ReadFile(path)
	out := []tok{}
	for _, l := range strings.Split(string(b), "\n") {
		p := strings.SplitN(l, ".", 2)
		if len(p) != 2 {
			continue
		}
		switch p[0] {
		case "up", "down", "cb", "ca":
			out = append(out, tok{"k": p[0], "c": p[1]})
		default:
			n, _ := strconv.Atoi(p[1])
			out = append(out, tok{"k": p[0], "r": n})
		}
	}
	return out
}

func execAPI(r *row, dir string, parallel bool) {
	log := filepath.Join(dir, "log")
	tr, _ := runner.NewTaskRunner(runner.WithContexts(buildContexts(*r, log)))
	tr.Stdout, tr.Stderr = ioutil.Discard, ioutil.Discard
	r.Rets = make([]string, len(r.Runs))
	one := func(i int) {
		t := buildTask(i+1, r.Runs[i], log)
		err := tr.Run(t)
		switch {
		case err != nil:
			r.Rets[i] = "err"
		case t.Skipped:
			r.Rets[i] = "skipped"
		default:
			r.Rets[i] = "ok"
		}
	}
	if parallel {
		start := make(chan struct{})
		var wg sync.WaitGroup
		for i := range r.Runs {
			i := i
			wg.Add(1)
			go func() { defer wg.Done(); <-start; one(i) }()
		}
		close(start)
		wg.Wait()
	} else {
		for i := range r.Runs {
			one(i)
		}
	}
	tr.Finish()
	r.Seq, r.Finished = !parallel, true
	r.Log = parseLog(log)
}

// dirError: a task whose `dir` cannot be rendered (undefined variable) fails after its context was
// entered: up and the context's before have run, no hook or command of the task runs, the context's
// after still runs once, down once at Finish. Judged directly (the shape is outside ContextsTable).
func dirError(dir string, rep *core.Report) {
	log := filepath.Join(dir, "log")
	ctxs := map[string]*runner.ExecutionContext{
		"c1": runner.NewExecutionContext(nil, "", variables.NewVariables(), []string{echo("up.c1", log)}, []string{echo("down.c1", log)},
			[]string{echo("cb.c1", log)}, []string{echo("ca.c1", log)}),
	}
	tr, _ := runner.NewTaskRunner(runner.WithContexts(ctxs))
	tr.Stdout, tr.Stderr = ioutil.Discard, ioutil.Discard
	t := task.FromCommands(echo("body.1", log))
	t.Name, t.Context, t.Dir = "r1", "c1", "{{.nosuchdirvariable}}"
	t.Before, t.After = []string{echo("tb.1", log)}, []string{echo("ta.1", log)}
	err := tr.Run(t)
	ok := task.FromCommands(echo("body.2", log))
	ok.Name, ok.Context = "r2", "c1"
	err2 := tr.Run(ok)
	tr.Finish()
	var got []string
	for _, k := range parseLog(log) {
		if c, isCtx := k["c"]; isCtx {
			got = append(got, fmt.Sprintf("%v.%v", k["k"], c))
		} else {
			got = append(got, fmt.Sprintf("%v.%v", k["k"], k["r"]))
		}
	}
	want := "up.c1 cb.c1 ca.c1 cb.c1 body.2 ca.c1 down.c1"
	if err == nil || err2 != nil || strings.Join(got, " ") != want {
		rep.Add(core.Finding{Prop: "C14", Key: "C14:api-sequential:dir-template-error",
			What:   fmt.Sprintf("a task whose dir refers to an undefined variable, then a sound task, in one context: errors %v / %v, token log %q, expected an error, no error and %q", err, err2, strings.Join(got, " "), want),
			Detail: nil})
	}
}

// execCancel: every run is in flight (its command sleeps) when the runner is cancelled; an
// interrupted task has failed, and the context's after hook and down still run for it.
func execCancel(r *row, dir string) bool {
	log := filepath.Join(dir, "log")
	tr, _ := runner.NewTaskRunner(runner.WithContexts(buildContexts(*r, log)))
	tr.Stdout, tr.Stderr = ioutil.Discard, ioutil.Discard
	r.Rets = make([]string, len(r.Runs))
	expectBodies := 0
	var returned int32
	for i := range r.Runs {
		r.Runs[i].Fails = true // every run that gets as far as its command is interrupted there
		if expectedRet(*r, i) == "err" {
			up := true
			for j, c := range r.Ctxs {
				if c == r.Runs[i].Ctx && r.UpFails[j] {
					up = false
				}
			}
			if up {
				expectBodies++
			}
		}
	}
	var wg sync.WaitGroup
	for i := range r.Runs {
		i := i
		wg.Add(1)
		go func() {
			defer wg.Done()
			t := buildTask(i+1, r.Runs[i], log)
			t.Commands = []string{echo(fmt.Sprintf("body.%d", i+1), log) + "; sleep 20"}
			err := tr.Run(t)
			atomic.AddInt32(&returned, 1)
			switch {
			case err != nil:
				r.Rets[i] = "err"
			case t.Skipped:
				r.Rets[i] = "skipped"
			default:
				r.Rets[i] = "ok"
			}
		}()
	}
	// cancel only when every run is either inside its command or has returned by itself (start-up
	// failed, condition false): a Cancel that comes before a run has entered refuses the run, which
	// is another scenario
	lim := time.Now().Add(15 * time.Second)
	for time.Now().Before(lim) {
		n := 0
		for _, t := range parseLog(log) {
			if t["k"] == "body" {
				n++
			}
		}
		if n >= expectBodies && n+int(atomic.LoadInt32(&returned)) >= len(r.Runs) {
			break
		}
		time.Sleep(5 * time.Millisecond)
	}
	cancelled := make(chan struct{})
	go func() { tr.Cancel(); close(cancelled) }()
	fin := make(chan struct{})
	go func() { wg.Wait(); close(fin) }()
	select {
	case <-fin:
	case <-time.After(20 * time.Second):
		return false
	}
	select {
	case <-cancelled:
	case <-time.After(10 * time.Second):
		return false
	}
	tr.Finish()
	r.Seq, r.Finished = false, true
	r.Log = parseLog(log)
	return true
}

func execSched(r *row, dir string, chain bool) bool {
	log := filepath.Join(dir, "log")
	tr, _ := runner.NewTaskRunner(runner.WithContexts(buildContexts(*r, log)))
	tr.Stdout, tr.Stderr = ioutil.Discard, ioutil.Discard
	var stages []*scheduler.Stage
	tasks := make([]*task.Task, len(r.Runs))
	for i := range r.Runs {
		tasks[i] = buildTask(i+1, r.Runs[i], log)
		st := &scheduler.Stage{Name: tasks[i].Name, Task: tasks[i], AllowFailure: true}
		if i%2 == 1 {
			// stage-level settings (as every stage built from a configuration file has): the stage runs
			// a private copy of its task
			st.Variables = variables.FromMap(map[string]string{".Stage.Name": tasks[i].Name})
		}
		if chain && i > 0 {
			st.DependsOn = []string{tasks[i-1].Name}
		}
		stages = append(stages, st)
	}
	g, err := scheduler.NewExecutionGraph(stages...)
	if err != nil {
		core.Broken("graph: %v", err)
	}
	sd := scheduler.NewScheduler(tr)
	sd.VerifSetPause(time.Millisecond)
	done := make(chan error, 1)
	go func() { done <- sd.Schedule(g) }()
	select {
	case <-done:
	case <-time.After(30 * time.Second):
		return false
	}
	sd.Finish()
	r.Rets = make([]string, len(r.Runs))
	for i, t := range tasks {
		if c := stages[i].Task; c != nil {
			t = c // the task the stage actually ran (a copy when the stage has settings of its own)
		}
		switch {
		case t.Skipped:
			r.Rets[i] = "skipped"
		case t.Errored || expectedRet(*r, i) == "err" && t.ExitCode == -1:
			r.Rets[i] = "err"
		default:
			r.Rets[i] = "ok"
		}
	}
	r.Seq, r.Finished = chain, true
	r.Log = parseLog(log)
	return true
}

func yamlFor(r row, log string) string {
	var b strings.Builder
	b.WriteString("contexts:\n")
	for j, c := range r.Ctxs {
		var ups []string
		for _, u := range upCommands(r, j, log) {
			ups = append(ups, fmt.Sprintf("%q", u))
		}
		var downs []string
		for _, u := range downCommands(r, j, log) {
			downs = append(downs, fmt.Sprintf("%q", u))
		}
		fmt.Fprintf(&b, "  %s:\n    up: [%s]\n    down: [%s]\n    before: [%q]\n    after: [%q]\n", c, strings.Join(ups, ", "), strings.Join(downs, ", "), echo("cb."+c, log), echo("ca."+c, log))
	}
	b.WriteString("  unused:\n")
	fmt.Fprintf(&b, "    up: [%q]\n    down: [%q]\n", echo("up.unused", log), echo("down.unused", log))
	b.WriteString("tasks:\n")
	for i, s := range r.Runs {
		t := buildTask(i+1, s, log)
		fmt.Fprintf(&b, "  %s:\n    context: %s\n    command: [%q]\n", t.Name, s.Ctx, t.Commands[0])
		if t.Condition != "" {
			fmt.Fprintf(&b, "    condition: %q\n", t.Condition)
		}
		if len(t.Before) > 0 {
			fmt.Fprintf(&b, "    before: [%q]\n", t.Before[0])
		}
		if len(t.After) > 0 {
			fmt.Fprintf(&b, "    after: [%q]\n", t.After[0])
		}
	}
	// p: every run, chained; pre<k>: the first k runs, chained (used as a first target followed by
	// the remaining runs as task targets)
	b.WriteString("pipelines:\n")
	for k := len(r.Runs); k >= 1; k-- {
		name := fmt.Sprintf("pre%d", k)
		if k == len(r.Runs) {
			name = "p"
		}
		fmt.Fprintf(&b, "  %s:\n", name)
		for i := 0; i < k; i++ {
			fmt.Fprintf(&b, "    - task: r%d\n      allow_failure: true\n", i+1)
			if i > 0 {
				fmt.Fprintf(&b, "      depends_on: [r%d]\n", i)
			}
		}
	}
	return b.String()
}

// Check is the engine behind C14.
func Check(env *core.Env, rep *core.Report) *core.Result {
	thorough := env.Thorough()
	samples := core.NewSamples(10)
	var mu sync.Mutex
	modelRuns := []map[string]interface{}{}
	note := func(name string, r *core.TLCResult, what string) {
		mu.Lock()
		modelRuns = append(modelRuns, map[string]interface{}{"config": name, "generated": r.Generated, "distinct": r.Distinct, "wall_s": r.Wall.Seconds(), "result": what})
		mu.Unlock()
	}
	var wg sync.WaitGroup
	par := func(f func()) { wg.Add(1); go func() { defer wg.Done(); f() }() }
	cfgs := []string{"Contexts_k2"}
	if thorough {
		cfgs = append(cfgs, "Contexts_k3")
	}
	for _, c := range cfgs {
		c := c
		par(func() {
			r := core.MustHold(env, core.TLCOpts{Module: "Contexts", Config: c + ".cfg", Workers: 4, Timeout: 20 * time.Minute})
			note(c, r, "UpOnce, UpFirst, UpFailedRunsNothing, Before/AfterOncePerExecution, BeforePrecedesBody, AfterFollowsBody, DownOnceOnlyUsed hold over all interleavings")
		})
	}
	par(func() {
		r := core.MustFail(env, core.TLCOpts{Module: "Contexts", Config: "Contexts_pinned.cfg", Workers: 2})
		note("Contexts_pinned", r, "negative control (every helper re-enters contextForTask): "+r.Violated+" violated")
	})

	dirError(env.Sub("direrr"), rep)
	n := 240
	if thorough {
		n = 3000
	}
	rows := make([]row, n)
	hung := make([]bool, n)
	home := env.Sub("home")
	core.Parallel(n, 12, func(i int) {
		rng := env.Rand(fmt.Sprintf("ctx-%d", i))
		r := randomCase(rng, 8)
		d := env.Sub("ctx")
		switch i % 6 {
		case 0:
			if i%12 == 6 {
				r.Mode = "api-cancel"
				hung[i] = !execCancel(&r, d)
				break
			}
			r.Mode = "api-sequential"
			execAPI(&r, d, false)
		case 1, 2:
			r.Mode = "api-parallel"
			execAPI(&r, d, true)
		case 3:
			r.Mode = "scheduler-parallel"
			hung[i] = !execSched(&r, d, false)
		case 4:
			r.Mode = "scheduler-chain"
			hung[i] = !execSched(&r, d, true)
		default:
			// CLI: targets in order (or the chained pipeline), the first failing target ends the run
			log := filepath.Join(d, "log")
			_ = ioutil.WriteFile(filepath.Join(d, "tasks.yaml"), []byte(yamlFor(r, log)), 0o644)
			usePipe := rng.Intn(3) == 0
			mixed := !usePipe && len(r.Runs) >= 2 && rng.Intn(2) == 0
			var args []string
			if usePipe {
				r.Mode = "cli-pipeline"
				args = []string{"--raw", "p"}
			} else if mixed {
				// a pipeline of the first k runs (its stages allow failure) followed by the other runs as
				// task targets: the contexts are shut down after the LAST target
				r.Mode = "cli-pipeline-then-targets"
				k := 1 + rng.Intn(len(r.Runs)-1)
				full := yamlFor(r, log) // pipelines pre<k> are defined for the full list of runs
				_ = ioutil.WriteFile(filepath.Join(d, "tasks.yaml"), []byte(full), 0o644)
				args = []string{"--raw", fmt.Sprintf("pre%d", k)}
				cut := len(r.Runs)
				for j := k; j < len(r.Runs); j++ {
					args = append(args, fmt.Sprintf("r%d", j+1))
					if expectedRet(r, j) == "err" {
						cut = j + 1
						break
					}
				}
				r.Runs = r.Runs[:cut]
			} else {
				r.Mode = "cli-targets"
				// the three ways of naming task targets: `taskctl T..`, `taskctl run T..`, `taskctl run task T..`
				args = [][]string{{"--raw"}, {"--raw", "run"}, {"--raw", "run", "task"}}[rng.Intn(3)]
				cut := len(r.Runs)
				for k := range r.Runs {
					args = append(args, fmt.Sprintf("r%d", k+1))
					if expectedRet(r, k) == "err" {
						cut = k + 1
						break
					}
				}
				r.Runs = r.Runs[:cut]
			}
			res := core.RunBin(d, core.CleanEnv(home), 40*time.Second, "", env.Taskctl, args...)
			r.Seq, r.Finished = true, true
			r.Log = parseLog(log)
			anyErr := false
			for k := range r.Runs {
				r.Rets = append(r.Rets, expectedRet(r, k))
				if expectedRet(r, k) == "err" {
					anyErr = true
				}
			}
			if res.TimedOut || res.Crashed() {
				rep.Add(core.Finding{Prop: "C14", Key: "C14:" + r.Mode + ":crash-or-hang", What: "taskctl crashed or hung", Detail: map[string]interface{}{"yaml": yamlFor(r, log), "stderr": res.Stderr}})
			} else if !usePipe && !mixed && (res.Exit != 0) != anyErr {
				rep.Add(core.Finding{Prop: "C14", Key: "C14:" + r.Mode + ":exit-status", What: fmt.Sprintf("exit status %d, a run reporting an error expected=%v", res.Exit, anyErr), Detail: map[string]interface{}{"yaml": yamlFor(r, log), "stderr": res.Stderr}})
			}
			// the unused context must not be started or shut down
			for _, t := range r.Log {
				if t["c"] == "unused" {
					rep.Add(core.Finding{Prop: "C14", Key: "C14:" + r.Mode + ":unused-context-touched", What: fmt.Sprintf("a context no task uses ran %v", t["k"]), Detail: map[string]interface{}{"yaml": yamlFor(r, log)}})
				}
			}
		}
		rows[i] = r
	})
	wg.Wait()
	var buf bytes.Buffer
	var idx []int
	for i, r := range rows {
		if hung[i] {
			rep.Add(core.Finding{Prop: "C14", Key: "C14:" + r.Mode + ":pipeline-does-not-return", What: "pipeline did not return", Detail: r})
			continue
		}
		b, _ := json.Marshal(r)
		buf.Write(b)
		buf.WriteByte('\n')
		idx = append(idx, i)
	}
	res := core.MustHold(env, core.TLCOpts{Module: "ContextsTable", Config: "ContextsTable.cfg", Workers: 1, Files: map[string][]byte{"rows.ndjson": buf.Bytes()}, Timeout: 30 * time.Minute})
	ps := res.Tagged("BAD")
	var v struct {
		Bad  map[string][]string `json:"bad"`
		Rows int                 `json:"rows"`
	}
	if len(ps) == 0 {
		core.Broken("ContextsTable printed no verdict")
	}
	if err := json.Unmarshal([]byte(ps[0]), &v); err != nil {
		// no bad rows prints an empty function: <<>> -> []
		var v2 struct {
			Bad  []interface{} `json:"bad"`
			Rows int           `json:"rows"`
		}
		if err2 := json.Unmarshal([]byte(ps[0]), &v2); err2 != nil || len(v2.Bad) != 0 {
			core.Broken("ContextsTable verdict unreadable: %v: %s", err, ps[0])
		}
		v.Rows = v2.Rows
	}
	if v.Rows != len(idx) {
		core.Broken("ContextsTable judged %d rows, %d were sent", v.Rows, len(idx))
	}
	for k, names := range v.Bad {
		j, _ := strconv.Atoi(k)
		r := rows[idx[j-1]]
		for _, nm := range names {
			rep.Add(core.Finding{Prop: "C14", Key: "C14:" + r.Mode + ":" + nm, What: fmt.Sprintf("token log of a %s execution violates %s of Contexts.tla: %s", r.Mode, nm, logString(r.Log)), Detail: r})
		}
	}
	modes := map[string]int{}
	nontrivial := 0
	for _, i := range idx {
		modes[rows[i].Mode]++
		if len(rows[i].Runs) >= 2 {
			nontrivial++
		}
		if i%37 == 0 {
			samples.Add(map[string]interface{}{"mode": rows[i].Mode, "runs": rows[i].Runs, "up_fails": rows[i].UpFails, "log": logString(rows[i].Log)})
		}
	}
	// binding self-test: a log with the context's before hook doubled must be flagged
	// (taken from a row that TLC accepted)
	selftest := map[string]interface{}{}
	for j, i := range idx {
		r := rows[i]
		if _, bad := v.Bad[strconv.Itoa(j+1)]; bad {
			continue
		}
		for p, t := range r.Log {
			if t["k"] == "cb" {
				c := r
				c.Log = append(append(append([]tok{}, r.Log[:p+1]...), t), r.Log[p+1:]...)
				b, _ := json.Marshal(c)
				r2 := core.MustHold(env, core.TLCOpts{Module: "ContextsTable", Config: "ContextsTable.cfg", Workers: 1, Files: map[string][]byte{"rows.ndjson": append(b, '\n')}})
				if p2 := r2.Tagged("BAD"); len(p2) == 0 || !strings.Contains(p2[0], "BeforeAfterCounts") {
					core.Broken("binding self-test: a log with a doubled context before hook was not flagged: %v", p2)
				}
				selftest = map[string]interface{}{"corruption": "context before token doubled", "flagged": true}
				break
			}
		}
		if len(selftest) > 0 {
			break
		}
	}
	// the composed specification (Taskctl.tla): context jobs in whole-binary event logs of pipelines
	composeInfo := sched.ComposeCheck(env, rep, map[bool]int{false: 30, true: 400}[env.Thorough()], "ctx2", "+ctx3")
	gen, dist, nruns, cmds := core.TLCTotals()
	cov := map[string]interface{}{
		"whole_binary_traces_against_Taskctl_tla": composeInfo,
		"states": dist, "transitions": gen, "tlc_runs": nruns,
		"traces_validated_against_impl": len(idx), "evaluations": len(idx), "distinct_nontrivial": nontrivial,
		"executions_by_mode": modes,
		"rule":               "seeded random executions: 1..8 task runs over 1..3 contexts (up failing 1/6), tasks with/without condition (false 1/2), before, after, failing command; run sequentially and simultaneously on the real TaskRunner, as parallel and chained pipeline stages on the real Scheduler, and through the binary as several targets / a pipeline; every hook and command appends a token (/bin/echo, O_APPEND); logs are judged by TLC (ContextsTable.tla). non-trivial = at least 2 runs",
		"model_runs":         modelRuns, "binding_selftest": selftest, "samples": samples.List(), "checker_cmds": cmds,
	}
	return &core.Result{Level: "model_checking", Coverage: cov, Assumptions: []string{
		"context hook commands carry no task identity: under concurrency before/after are checked by counts and prefix inequalities, exactly per execution when runs are sequential",
		"the up token is written when the up command ends",
	}}
}

func logString(l []tok) string {
	var p []string
	for _, t := range l {
		if c, ok := t["c"]; ok {
			p = append(p, fmt.Sprintf("%v.%v", t["k"], c))
		} else {
			p = append(p, fmt.Sprintf("%v.%v", t["k"], t["r"]))
		}
	}
	return strings.Join(p, " ")
}
