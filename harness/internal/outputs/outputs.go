// Package outputs binds Output.tla (C11) to the real TaskRunner + Scheduler.
package outputs

import (
	"bytes"
	"context"
	"encoding/json"
	"fmt"
	"io/ioutil"
	"path/filepath"
	"strings"
	"sync"
	"sync/atomic"
	"time"

	"github.com/sirupsen/logrus"
	"github.com/taskctl/taskctl/pkg/executor"
	"github.com/taskctl/taskctl/pkg/runner"
	"github.com/taskctl/taskctl/pkg/scheduler"
	"github.com/taskctl/taskctl/pkg/task"
	"github.com/taskctl/taskctl/pkg/variables"

	"verif/harness/internal/core"
)

func init() { logrus.SetOutput(ioutil.Discard) }

// one execution of a pipeline under observation
type obsRun struct {
	id      string
	mu      sync.Mutex
	envAt   map[string]map[string]string // task name -> env seen at its first CmdStart
	outAt   map[string][]string          // task name -> .Output seen at each CmdStart
	barrier bool
	waiting int32
	running int32
	release chan struct{}
}

var runs sync.Map // id -> *obsRun
var runSeq, pipeSeq int64

func init() {
	executor.VerifGateHook = func(ctx context.Context, ev string, job *executor.Job, err error) {
		if job.Env == nil {
			return
		}
		m := job.Env.Map()
		id, _ := m["VERIF_RUNID"].(string)
		v, ok := runs.Load(id)
		if !ok {
			return
		}
		r := v.(*obsRun)
		name, _ := m["TASK_NAME"].(string)
		if ev == "CmdStart" {
			r.mu.Lock()
			if _, seen := r.envAt[name]; !seen {
				cp := map[string]string{}
				for k, x := range m {
					cp[k] = fmt.Sprint(x)
				}
				r.envAt[name] = cp
			}
			r.outAt[name] = append(r.outAt[name], fmt.Sprint(job.Vars.Get("Output")))
			r.mu.Unlock()
			atomic.AddInt32(&r.running, 1)
			return
		}
		// CmdEnd: optionally wait until every command that is running has ended, so that the
		// producers store their outputs at the same moment
		if r.barrier {
			r.mu.Lock()
			ch := r.release
			r.mu.Unlock()
			if atomic.AddInt32(&r.waiting, 1) >= atomic.LoadInt32(&r.running) {
				r.mu.Lock()
				close(r.release)
				r.release = make(chan struct{})
				atomic.StoreInt32(&r.waiting, 0)
				atomic.StoreInt32(&r.running, 0)
				r.mu.Unlock()
			} else {
				select {
				case <-ch:
				case <-time.After(400 * time.Millisecond):
				}
			}
		} else {
			atomic.AddInt32(&r.running, -1)
		}
	}
}

func newObs(barrier bool) *obsRun {
	r := &obsRun{id: fmt.Sprintf("run%d", atomic.AddInt64(&runSeq, 1)), envAt: map[string]map[string]string{}, outAt: map[string][]string{}, barrier: barrier, release: make(chan struct{})}
	runs.Store(r.id, r)
	return r
}
func (r *obsRun) close() { runs.Delete(r.id) }

type stageSpec struct {
	t    *task.Task
	deps []string
}

// runPipeline executes stages on the real scheduler and runner.
func runPipeline(o *obsRun, stages []stageSpec, format ...string) (error, bool) {
	var list []*scheduler.Stage
	pipeN := atomic.AddInt64(&pipeSeq, 1)
	for _, s := range stages {
		if s.t.Env == nil {
			s.t.Env = variables.NewVariables()
		}
		s.t.Env = s.t.Env.With("VERIF_RUNID", o.id)
		st := &scheduler.Stage{Name: s.t.Name, Task: s.t, DependsOn: s.deps}
		// every other pipeline has stage-level settings, as every stage built from a configuration
		// file has (.Stage.Name): the stage then runs a private copy of its task
		if n := pipeN; n%2 == 0 {
			st.Variables = variables.FromMap(map[string]string{".Stage.Name": s.t.Name})
			if n%4 == 0 {
				st.Env = variables.FromMap(map[string]string{"STAGE_ONLY": "1"})
			}
		}
		list = append(list, st)
	}
	g, err := scheduler.NewExecutionGraph(list...)
	if err != nil {
		core.Broken("graph: %v", err)
	}
	tr, _ := runner.NewTaskRunner()
	tr.Stdout, tr.Stderr = ioutil.Discard, ioutil.Discard
	if len(format) > 0 {
		tr.OutputFormat = format[0]
	}
	sd := scheduler.NewScheduler(tr)
	sd.VerifSetPause(500 * time.Microsecond)
	done := make(chan error, 1)
	go func() { done <- sd.Schedule(g) }()
	select {
	case e := <-done:
		// a stage with settings of its own executed a private copy of its task: the results the
		// harness reads (Output, Errored, ...) are the ones of the task the stage ran
		for i, s := range stages {
			if c := list[i].Task; c != nil && c != s.t {
				s.t.Log, s.t.Errored, s.t.ExitCode, s.t.Skipped, s.t.Error = c.Log, c.Errored, c.ExitCode, c.Skipped, c.Error
			}
		}
		return e, true
	case <-time.After(30 * time.Second):
		return nil, false
	}
}

// expected export name for a concrete task name (the concretisation of EnvName's classes)
func classOf(c byte) string {
	switch {
	case c >= 'a' && c <= 'z':
		return "l"
	case c >= 'A' && c <= 'Z':
		return "u"
	case c >= '0' && c <= '9':
		return "d"
	case c == '_':
		return "_"
	}
	return "o"
}

func concretise(name string, envClasses []string) string {
	var b strings.Builder
	for i := 0; i < len(name); i++ {
		c := name[i]
		switch envClasses[i] {
		case "u":
			if c >= 'a' && c <= 'z' {
				c = c - 'a' + 'A'
			}
			b.WriteByte(c)
		case "d":
			b.WriteByte(c)
		default:
			b.WriteByte('_')
		}
	}
	return b.String() + "_OUTPUT"
}

type nameRow struct {
	Name []string `json:"name"`
	Env  []string `json:"env"`
}
type dagRow struct {
	N    int     `json:"n"`
	Deps [][]int `json:"deps"`
	Anc  [][]int `json:"anc"`
}

var classChars = map[string]string{
	"l": "abcdefghijklmnopqrstuvwxyz", "u": "ABCDEFGHIJKLMNOPQRSTUVWXYZ", "d": "0123456789", "_": "_",
	"o": " !\"#$%&'()*+,-./:;<=>?@[\\]^`{|}~",
}

// Check is the engine behind C11.
func Check(env *core.Env, rep *core.Report) *core.Result {
	thorough := env.Thorough()
	samples := core.NewSamples(10)
	var mu sync.Mutex
	modelRuns := []map[string]interface{}{}
	note := func(name string, r *core.TLCResult, what string) {
		mu.Lock()
		modelRuns = append(modelRuns, map[string]interface{}{"config": name, "generated": r.Generated, "distinct": r.Distinct, "wall_s": r.Wall.Seconds(), "result": what})
		mu.Unlock()
	}
	var wg sync.WaitGroup
	par := func(f func()) { wg.Add(1); go func() { defer wg.Done(); f() }() }
	var names []nameRow
	var dags, dags4 []dagRow
	par(func() {
		r := core.MustHold(env, core.TLCOpts{Module: "Output", Config: "Output_ok.cfg", Workers: 2})
		note("Output_ok", r, "DependantSees holds for every dependency arrangement of 3 stages x every interleaving of launch / store / publish")
	})
	par(func() {
		r := core.MustHold(env, core.TLCOpts{Module: "Output", Config: "Output_ok4.cfg", Workers: 4})
		note("Output_ok4", r, "DependantSees holds, 4 stages")
	})
	par(func() {
		r := core.MustFail(env, core.TLCOpts{Module: "Output", Config: "Output_neg.cfg", Workers: 2})
		note("Output_neg", r, "negative control (copy-and-assign store): "+r.Violated+" violated")
	})
	par(func() {
		r := core.MustHold(env, core.TLCOpts{Module: "OutputGen", Config: "OutputGen.cfg", Workers: 1})
		for _, p := range r.Tagged("NAME") {
			var x nameRow
			if json.Unmarshal([]byte(p), &x) == nil {
				names = append(names, x)
			}
		}
		for _, p := range r.Tagged("DAG") {
			var x dagRow
			if json.Unmarshal([]byte(p), &x) == nil {
				dags = append(dags, x)
			}
		}
		note("OutputGen", r, fmt.Sprintf("%d name shapes, %d dependency arrangements", len(names), len(dags)))
	})
	if thorough {
		par(func() {
			r := core.MustHold(env, core.TLCOpts{Module: "OutputGen", Config: "OutputGen_4.cfg", Workers: 1})
			mu.Lock()
			for _, p := range r.Tagged("DAG") {
				var x dagRow
				if json.Unmarshal([]byte(p), &x) == nil {
					dags4 = append(dags4, x)
				}
			}
			mu.Unlock()
			note("OutputGen_4", r, "64 dependency arrangements of 4 stages")
		})
	}
	wg.Wait()
	if len(names) != 155 || len(dags) != 8 {
		core.Broken("OutputGen emitted %d names / %d graphs, expected 155 / 8", len(names), len(dags))
	}
	add := func(kind, what string, detail interface{}) {
		rep.Add(core.Finding{Prop: "C11", Key: "C11:" + kind, What: what, Detail: detail})
	}
	dir := env.Sub("c11")
	var evals int64

	// (A) export names: every shape, then every printable character at every position
	type ncase struct {
		name, want string
		exportAs   string
	}
	var ncases []ncase
	rot := map[string]int{}
	for _, n := range names {
		var b strings.Builder
		for _, c := range n.Name {
			cs := classChars[c]
			b.WriteByte(cs[rot[c]%len(cs)])
			rot[c]++
		}
		nm := b.String()
		ncases = append(ncases, ncase{nm, concretise(nm, n.Env), ""})
		if len(ncases)%3 == 0 {
			// (an exportAs name is taken as it is written, whatever characters it has)
			ex := []string{"MY_%d", "MY_.%d", "MY_RES-%d", "MY_ci/b:%d x"}[(len(ncases)/3)%4]
			ex = fmt.Sprintf(ex, len(ncases))
			ncases = append(ncases, ncase{nm, ex, ex})
		}
	}
	for pos := 0; pos < 3; pos++ {
		for c := byte(32); c < 127; c++ {
			nm := "ab"[:pos] + string([]byte{c})
			cls := make([]string, len(nm))
			for i := 0; i < len(nm); i++ {
				k := classOf(nm[i])
				cls[i] = map[string]string{"l": "u", "u": "u", "d": "d", "_": "_", "o": "_"}[k]
			}
			ncases = append(ncases, ncase{nm, concretise(nm, cls), ""})
		}
	}
	core.Parallel(len(ncases), 16, func(i int) {
		c := ncases[i]
		o := newObs(false)
		defer o.close()
		payload := fmt.Sprintf("out-%d\n", i)
		p := task.FromCommands(fmt.Sprintf("echo out-%d", i))
		p.Name = c.name
		p.ExportAs = c.exportAs
		cons := task.FromCommands("true")
		cons.Name = "consumer-x"
		if c.name == cons.Name {
			return
		}
		_, ok := runPipeline(o, []stageSpec{{p, nil}, {cons, []string{c.name}}})
		atomic.AddInt64(&evals, 1)
		if !ok {
			add("names:pipeline-does-not-return", fmt.Sprintf("producer %q -> consumer did not return", c.name), nil)
			return
		}
		o.mu.Lock()
		got, has := o.envAt["consumer-x"][c.want]
		var outs []string
		for k := range o.envAt["consumer-x"] {
			if strings.HasSuffix(k, "_OUTPUT") || strings.HasPrefix(k, "MY_") {
				outs = append(outs, k)
			}
		}
		o.mu.Unlock()
		if !has || got != payload {
			add("names:export-name-or-value", fmt.Sprintf("task %q (exportAs %q): the dependant's environment has no %s=%q (output variables present: %v, value %q)", c.name, c.exportAs, c.want, payload, outs, got), map[string]interface{}{"task": c.name, "export_as": c.exportAs, "expected_name": c.want})
		}
		if p.Output() != payload {
			add("capture:task-output-differs", fmt.Sprintf("Task.Output() = %q, commands wrote %q", p.Output(), payload), nil)
		}
		if i%97 == 0 {
			samples.Add(map[string]interface{}{"kind": "name", "task": c.name, "export_as": c.exportAs, "expected_variable": c.want})
		}
	})

	// (B) captured bytes for producer shapes x payload classes; .Output chaining
	payloads := map[string][]byte{
		"empty": {}, "line": []byte("one line\n"), "multi": []byte("l1\nl2\n\nl4\n"), "notail": []byte("no newline at end"),
		"utf8": []byte("héllo wörld ✓ 日本語\n"), "big": bytes.Repeat([]byte("0123456789abcdef"), 4096),
		"crlf": []byte("a\r\nb\r\n"), "spaces": []byte("  lead and trail  \n\n"),
	}
	// "esc": complete escape sequences; "esccut": an external producer writes its output in two
	// pieces, the first ending inside an escape sequence (the prefixed format strips escape
	// sequences from what it displays - the captured bytes must not be affected)
	// text that looks like template syntax is text
	payloads["braces"] = []byte("a {{ b }} and {{.NoSuchVariable}} and an unclosed {{ \n{{end}}\n")
	payloads["esc"] = []byte("\x1b[1mbold\x1b[0m and \x1b[31mred\x1b[0m\n")
	payloads["esccut"] = []byte("ab\x1b[1mcdefghijklmnopqrstuvwxyz0123456789\x1b[0m\n")
	var pnames []string
	for k, v := range payloads {
		pnames = append(pnames, k)
		_ = ioutil.WriteFile(filepath.Join(dir, "p_"+k), v, 0o644)
	}
	_ = ioutil.WriteFile(filepath.Join(dir, "p_esccut.sh"), []byte("printf 'ab\\033['\nsleep 0.15\nprintf '1mcdefghijklmnopqrstuvwxyz0123456789\\033[0m\\n'\n"), 0o644)
	produce := func(name string) string {
		if name == "esccut" {
			return "/bin/sh " + filepath.Join(dir, "p_esccut.sh")
		}
		return "cat " + filepath.Join(dir, "p_"+name)
	}
	type pcase struct {
		nc, nv int
		format string
		pay    []string // per command
		to     []string // out | err | both
	}
	var pcases []pcase
	rng := env.Rand("payloads")
	sortStrings(pnames)
	for nc := 1; nc <= 2; nc++ {
		for nv := 1; nv <= 2; nv++ {
			for _, p1 := range pnames {
				reps := 4
				if thorough {
					reps = 8
				}
				for k := 0; k < reps; k++ {
					c := pcase{nc: nc, nv: nv, format: []string{"raw", "prefixed"}[k%2]}
					for j := 0; j < nc; j++ {
						if j == 0 {
							c.pay = append(c.pay, p1)
						} else {
							c.pay = append(c.pay, pnames[rng.Intn(len(pnames))])
						}
						c.to = append(c.to, []string{"out", "err", "both", "out"}[rng.Intn(4)])
						if j == 0 && k < 2 {
							c.to[0] = "out" // every payload at least once on stdout under each format
						}
					}
					pcases = append(pcases, c)
				}
			}
		}
	}
	core.Parallel(len(pcases), 16, func(i int) {
		c := pcases[i]
		o := newObs(false)
		defer o.close()
		var cmds []string
		var perCmdOut, perCmdAll [][]byte
		for j := 0; j < c.nc; j++ {
			f := produce(c.pay[j])
			b := payloads[c.pay[j]]
			switch c.to[j] {
			case "out":
				cmds = append(cmds, f)
				perCmdOut, perCmdAll = append(perCmdOut, b), append(perCmdAll, b)
			case "err":
				cmds = append(cmds, f+" >&2")
				perCmdOut, perCmdAll = append(perCmdOut, nil), append(perCmdAll, b)
			default:
				cmds = append(cmds, f+"; "+f+" >&2")
				perCmdOut, perCmdAll = append(perCmdOut, b), append(perCmdAll, append(append([]byte{}, b...), b...))
			}
		}
		// every seventh producer allows failure and its first command fails AFTER writing its output:
		// the output is captured and handed on (.Output, exported variable) like any other
		if i%7 == 2 {
			cmds[0] = "{ " + cmds[0] + "; }; exit 3"
		}
		p := task.FromCommands(cmds...)
		p.Name = "prod"
		if i%7 == 2 {
			p.AllowFailure = true
		}
		if i%5 == 3 {
			p.Interactive = true // an interactive task's output is captured and handed over like any other
		}
		if c.nv == 2 {
			p.Variations = []map[string]string{{"VV": "1"}, {"VV": "2"}}
		}
		// every third producer has before and after hooks that print: what hooks write is not the
		// task's output (the captured output is what its COMMANDS wrote to standard output)
		hooked := i%3 == 1
		if hooked {
			p.Before = []string{"echo before-hook-says-something; echo and-on-stderr >&2"}
			p.After = []string{"echo after-hook-says-something"}
		}
		outf := filepath.Join(env.Sub("c11o"), "seen")
		cons := task.FromCommands(fmt.Sprintf(`printf %%s "$PROD_OUTPUT" > %s`, outf))
		cons.Name = "cons"
		_, ok := runPipeline(o, []stageSpec{{p, nil}, {cons, []string{"prod"}}}, c.format)
		atomic.AddInt64(&evals, 1)
		if !ok {
			add("capture:pipeline-does-not-return", "producer -> consumer did not return", c)
			return
		}
		var want []byte
		var chain []string // expected .Output at each job start
		prev := ""
		for v := 0; v < c.nv; v++ {
			for j := 0; j < c.nc; j++ {
				chain = append(chain, prev)
				want = append(want, perCmdOut[j]...)
				prev = string(perCmdAll[j])
			}
		}
		desc := fmt.Sprintf("[commands %v to %v, %d variation(s), output format %s, interactive=%v, first command fails (allowed)=%v, printing before/after hooks=%v]", c.pay, c.to, c.nv, c.format, p.Interactive, p.AllowFailure, hooked)
		if p.Output() != string(want) {
			add("capture:task-output-differs", fmt.Sprintf("Task.Output() has %d bytes, the commands wrote %d bytes to stdout %s", len(p.Output()), len(want), desc), map[string]interface{}{"case": c, "got_prefix": clip(p.Output()), "want_prefix": clip(string(want))})
		}
		o.mu.Lock()
		got := o.envAt["cons"]["PROD_OUTPUT"]
		outs := append([]string{}, o.outAt["prod"]...)
		o.mu.Unlock()
		if got != string(want) {
			add("handover:dependant-sees-different-bytes", fmt.Sprintf("PROD_OUTPUT in the dependant's environment has %d bytes, expected %d %s", len(got), len(want), desc), map[string]interface{}{"case": c, "got_prefix": clip(got), "want_prefix": clip(string(want))})
		}
		if b, _ := ioutil.ReadFile(outf); string(b) != string(want) {
			add("handover:dependant-prints-different-bytes", fmt.Sprintf("the dependant printed %d bytes for \"$PROD_OUTPUT\", expected %d %s", len(b), len(want), desc), map[string]interface{}{"case": c})
		}
		if !hooked && strings.Join(outs, "\x00") != strings.Join(chain, "\x00") {
			add("chain:dot-output-is-not-previous-command", fmt.Sprintf(".Output seen by the commands %q, expected %q %s", clipAll(outs), clipAll(chain), desc), c)
		}
		if i%41 == 0 {
			samples.Add(map[string]interface{}{"kind": "payload", "format": c.format, "commands": c.pay, "streams": c.to, "variations": c.nv, "expected_bytes": len(want)})
		}
	})

	// (B2) a task that was already run directly (its log is not empty) is then used by two stages with
	// settings of their own, and run directly again: every run captures exactly its own output
	for k := 0; k < 6; k++ {
		o := newObs(false)
		tr, _ := runner.NewTaskRunner()
		tr.Stdout, tr.Stderr = ioutil.Discard, ioutil.Discard
		prod := task.FromCommands(`echo "hello $WHO, a somewhat longer line than the next ones"`)
		prod.Name = "prod"
		prod.Env = variables.FromMap(map[string]string{"WHO": "direct", "VERIF_RUNID": o.id})
		if err := tr.Run(prod); err != nil {
			core.Broken("direct run: %v", err)
		}
		first := prod.Output()
		outf := filepath.Join(env.Sub("c11d"), "seen")
		cons := task.FromCommands(fmt.Sprintf(`printf %%s "$PROD_OUTPUT" > %s`, outf))
		cons.Name = "cons"
		cons.Env = variables.FromMap(map[string]string{"VERIF_RUNID": o.id})
		s1 := &scheduler.Stage{Name: "s1", Task: prod, Env: variables.FromMap(map[string]string{"WHO": "one"})}
		s2 := &scheduler.Stage{Name: "s2", Task: prod, DependsOn: []string{"s1"}, Env: variables.FromMap(map[string]string{"WHO": "two"})}
		s3 := &scheduler.Stage{Name: "s3", Task: cons, DependsOn: []string{"s2"}}
		g, err := scheduler.NewExecutionGraph(s1, s2, s3)
		if err != nil {
			core.Broken("graph: %v", err)
		}
		sd := scheduler.NewScheduler(tr)
		sd.VerifSetPause(500 * time.Microsecond)
		if err := sd.Schedule(g); err != nil {
			add("capture:reuse:pipeline-failed", "a task run directly and then by two stages: the pipeline failed: "+err.Error(), nil)
			o.close()
			break
		}
		seen, _ := ioutil.ReadFile(outf)
		got := []string{first, s1.Task.Output(), s2.Task.Output(), string(seen)}
		want := []string{"hello direct, a somewhat longer line than the next ones\n", "hello one, a somewhat longer line than the next ones\n", "hello two, a somewhat longer line than the next ones\n", "hello two, a somewhat longer line than the next ones\n"}
		atomic.AddInt64(&evals, 1)
		o.close()
		if strings.Join(got, "|") != strings.Join(want, "|") {
			add("capture:reuse:outputs-of-different-runs-mixed", fmt.Sprintf("a task run directly, then by stages s1 and s2 (own env each), then read by a dependant: captured %q, expected %q", got, want), nil)
			break
		}
	}

	// (B3) through the binary: one task used by two stages WITHOUT settings of their own, one after the
	// other, then read by a dependant: every run's captured output is that run's output (not the
	// outputs of both runs piled up in one shared buffer)
	{
		// a stage's NAME is not a task name: a stage called `shared` must not touch SHARED_OUTPUT, which
		// task alpha exports (exportAs); nor does the stage of task beta, called `alpha`-like, matter
		d := env.Sub("c11b4")
		home := env.Sub("c11home4")
		seen := filepath.Join(d, "seen")
		y := fmt.Sprintf("tasks:\n  alpha:\n    exportAs: SHARED_OUTPUT\n    command: [\"echo from-alpha\"]\n  beta:\n    command: [\"echo from-beta\"]\n  reader:\n    command:\n      - 'printf \"[%%s|%%s]\" \"$SHARED_OUTPUT\" \"$BETA_OUTPUT\" > %s'\npipelines:\n  p:\n    - task: alpha\n    - name: shared\n      task: beta\n      depends_on: [alpha]\n    - task: reader\n      depends_on: [shared]\n", seen)
		_ = ioutil.WriteFile(filepath.Join(d, "tasks.yaml"), []byte(y), 0o644)
		res := core.RunBin(d, core.CleanEnv(home), 30*time.Second, "", env.Taskctl, "--raw", "p")
		atomic.AddInt64(&evals, 1)
		b, _ := ioutil.ReadFile(seen)
		if want := "[from-alpha\n|from-beta\n]"; res.Exit != 0 || string(b) != want {
			add("handover:dependant-sees-different-bytes", fmt.Sprintf("alpha exports SHARED_OUTPUT, a stage named `shared` runs task beta after it, a dependant reads both: saw %q (exit %d), expected %q", string(b), res.Exit, want), map[string]interface{}{"yaml": y, "stderr": clip(res.Stderr)})
		}
	}
	for k := 0; k < 2; k++ {
		// and: the second run of the task prints NOTHING (the stage silences it): its output is the empty
		// text, not what an earlier run left behind
		d := env.Sub("c11b3q")
		home := env.Sub("c11homeq")
		seen := filepath.Join(d, "seen")
		y := fmt.Sprintf("tasks:\n  greet:\n    command: ['[ -n \"$QUIET\" ] || echo hello']\n  reader:\n    command:\n      - 'printf \"[%%s]\" \"$GREET_OUTPUT\" > %s'\npipelines:\n  p:\n    - name: g1\n      task: greet\n    - name: g2\n      task: greet\n      depends_on: [g1]\n      env: {QUIET: \"1\"}\n    - task: reader\n      depends_on: [g2]\n", seen)
		_ = ioutil.WriteFile(filepath.Join(d, "tasks.yaml"), []byte(y), 0o644)
		args := [][]string{{"--raw", "p"}, {"-o", "prefixed", "p"}}[k]
		res := core.RunBin(d, append(core.CleanEnv(home), "GREET_OUTPUT=from-the-parent-process"), 30*time.Second, "", env.Taskctl, args...)
		atomic.AddInt64(&evals, 1)
		b, _ := ioutil.ReadFile(seen)
		if res.Exit != 0 || string(b) != "[]" {
			add("handover:empty-output-not-handed-over", fmt.Sprintf("task greet run by g1 (prints hello) and then by g2 (silenced by the stage's env: prints nothing), read by a dependant of g2, GREET_OUTPUT also set in the parent process: the dependant saw %q (exit %d), expected the empty text \"[]\"", string(b), res.Exit), map[string]interface{}{"yaml": y, "stderr": clip(res.Stderr)})
			break
		}
	}
	for k := 0; k < 2; k++ {
		d := env.Sub("c11b3")
		home := env.Sub("c11home")
		seen := filepath.Join(d, "seen")
		y := fmt.Sprintf("tasks:\n  greet:\n    command: [\"echo hello\"]\n  reader:\n    command:\n      - 'printf %%s \"$GREET_OUTPUT\" > %s'\npipelines:\n  p:\n    - name: g1\n      task: greet\n    - name: g2\n      task: greet\n      depends_on: [g1]\n    - task: reader\n      depends_on: [g2]\n", seen)
		_ = ioutil.WriteFile(filepath.Join(d, "tasks.yaml"), []byte(y), 0o644)
		args := [][]string{{"--raw", "p"}, {"-o", "prefixed", "p"}}[k]
		res := core.RunBin(d, core.CleanEnv(home), 30*time.Second, "", env.Taskctl, args...)
		atomic.AddInt64(&evals, 1)
		b, _ := ioutil.ReadFile(seen)
		if res.Exit != 0 || string(b) != "hello\n" {
			add("capture:reuse:outputs-of-different-runs-mixed", fmt.Sprintf("task greet (echo hello) run by stages g1 and g2 (no settings of their own), then read by a dependant of g2: GREET_OUTPUT = %q (exit %d), expected \"hello\\n\"", string(b), res.Exit), map[string]interface{}{"yaml": y, "stderr": clip(res.Stderr)})
			break
		}
	}

	// (C) every dependency arrangement: every stage exports, every stage checks its ancestors;
	// producers that run together store their outputs at the same moment
	reps := 25
	if thorough {
		reps = 300
	}
	type dcase struct {
		d   dagRow
		rep int
	}
	var dcases []dcase
	for _, d := range dags {
		for k := 0; k < reps; k++ {
			dcases = append(dcases, dcase{d, k})
		}
	}
	for _, d := range dags4 {
		for k := 0; k < 40; k++ {
			dcases = append(dcases, dcase{d, k})
		}
	}
	// wider fan-in (not in the 3-stage model): 6 producers, one consumer
	fan := dagRow{N: 7, Deps: [][]int{{}, {}, {}, {}, {}, {}, {1, 2, 3, 4, 5, 6}}, Anc: [][]int{{}, {}, {}, {}, {}, {}, {1, 2, 3, 4, 5, 6}}}
	for k := 0; k < reps*8; k++ {
		dcases = append(dcases, dcase{fan, k})
	}
	core.Parallel(len(dcases), 8, func(i int) {
		d := dcases[i].d
		o := newObs(true)
		defer o.close()
		var st []stageSpec
		for s := 1; s <= d.N; s++ {
			t := task.FromCommands(fmt.Sprintf("echo from-s%d", s))
			t.Name = fmt.Sprintf("s%d", s)
			var deps []string
			for _, x := range d.Deps[s-1] {
				deps = append(deps, fmt.Sprintf("s%d", x))
			}
			st = append(st, stageSpec{t, deps})
		}
		_, ok := runPipeline(o, st)
		atomic.AddInt64(&evals, 1)
		if !ok {
			add("handover:pipeline-does-not-return", "pipeline did not return", d)
			return
		}
		o.mu.Lock()
		defer o.mu.Unlock()
		for s := 1; s <= d.N; s++ {
			envs := o.envAt[fmt.Sprintf("s%d", s)]
			for _, a := range d.Anc[s-1] {
				k := fmt.Sprintf("S%d_OUTPUT", a)
				if envs[k] != fmt.Sprintf("from-s%d\n", a) {
					add("handover:dependant-misses-output", fmt.Sprintf("stage s%d depends (transitively) on s%d but its environment has %s=%q (deps %v)", s, a, k, envs[k], d.Deps), map[string]interface{}{"deps": d.Deps})
				}
			}
		}
		if i%97 == 0 {
			samples.Add(map[string]interface{}{"kind": "dag", "deps": d.Deps, "ancestors": d.Anc})
		}
	})

	gen, dist, nruns, cmds := core.TLCTotals()
	cov := map[string]interface{}{
		"states": dist, "transitions": gen, "tlc_runs": nruns,
		"traces_validated_against_impl": int(evals), "evaluations": int(evals),
		"distinct_nontrivial": len(ncases) + len(pcases) + len(dags) + 1,
		"name_cases":          len(ncases), "payload_cases": len(pcases), "dag_runs": len(dcases),
		"rule":       "names: every shape of length <=3 over {lower, upper, digit, _, other} from OutputGen.tla with the expected export name, plus every printable ASCII character at each of 3 positions, with and without exportAs; payloads: producers with 1..2 commands x 1..2 variations writing payload classes (empty, line, multi-line, no trailing newline, CRLF, UTF-8, 64 KiB, escape sequences, an external producer whose first chunk ends inside an escape sequence) to stdout/stderr/both, under the raw and the prefixed output format; graphs: every dependency arrangement of 3 stages (all stages export and check their ancestors) and a 6-producer fan-in, repeated with producers released together",
		"model_runs": modelRuns, "samples": samples.List(), "checker_cmds": cmds,
	}
	return &core.Result{Level: "model_checking", Coverage: cov, Assumptions: []string{
		"payload contents are outside the specification (classes only); byte equality is checked by the harness",
		"the dependant's environment is observed at the executor gate (job.Env) and through a printf of \"$PROD_OUTPUT\"",
		"not claimed for stages that do not depend on the producer",
	}}
}

func clip(s string) string {
	if len(s) > 60 {
		return s[:60] + "..."
	}
	return s
}
func clipAll(xs []string) []string {
	var out []string
	for _, x := range xs {
		out = append(out, clip(x))
	}
	return out
}
func sortStrings(a []string) {
	for i := 1; i < len(a); i++ {
		for j := i; j > 0 && a[j] < a[j-1]; j-- {
			a[j], a[j-1] = a[j-1], a[j]
		}
	}
}
