// Package graph binds Graph.tla (C05) to scheduler.NewExecutionGraph and to the taskctl binary.
package graph

import (
	"bytes"
	"encoding/json"
	"errors"
	"fmt"
	"io/ioutil"
	"math/rand"
	"path/filepath"
	"regexp"
	"sort"
	"strings"
	"sync"
	"sync/atomic"
	"time"

	"github.com/taskctl/taskctl/pkg/scheduler"
	"github.com/taskctl/taskctl/pkg/task"

	"verif/harness/internal/core"
)

type row struct {
	N      int     `json:"n"`
	Deps   [][]int `json:"deps"`
	Cyclic bool    `json:"cyclic"`
}

// Stage names: the first four contain ':' in a way that makes concatenations of two names
// ambiguous ("x" + ":" + "y:z" = "x:y" + ":" + "z"), as names in real configurations do
// ("lint:go", "graph:task1"); the others are plain.
var nameTableColon = []string{"", "x", "x:y", "y:z", "z"}

// a second table without separators: "a" + "bb" = "ab" + "b"
var nameTablePrefix = []string{"", "a", "ab", "b", "bb"}
var nameTable = nameTableColon

func name(i int) string {
	if i > 0 && i < len(nameTable) {
		return nameTable[i]
	}
	return fmt.Sprintf("s%d", i)
}

// build feeds the stages to the real NewExecutionGraph in the given declaration order.
func build(n int, deps [][]int, order []int) (*scheduler.ExecutionGraph, error) {
	stages := make([]*scheduler.Stage, 0, n)
	for _, i := range order {
		st := &scheduler.Stage{Name: name(i), Task: task.FromCommands("true")}
		for _, d := range deps[i-1] {
			st.DependsOn = append(st.DependsOn, name(d))
		}
		stages = append(stages, st)
	}
	return scheduler.NewExecutionGraph(stages...)
}

func perms(n int) [][]int {
	var out [][]int
	var rec func(cur []int, used int)
	rec = func(cur []int, used int) {
		if len(cur) == n {
			out = append(out, append([]int(nil), cur...))
			return
		}
		for i := 1; i <= n; i++ {
			if used&(1<<uint(i)) == 0 {
				rec(append(cur, i), used|1<<uint(i))
			}
		}
	}
	rec(nil, 0)
	return out
}

func idsOf(names []string) []int {
	out := []int{}
	for _, s := range names {
		var k int
		for j := 1; j < len(nameTable); j++ {
			if nameTable[j] == s {
				k = j
			}
		}
		if k == 0 {
			fmt.Sscanf(s, "s%d", &k)
		}
		out = append(out, k)
	}
	return out
}

func sortedCopy(a []int) []int { b := append([]int{}, a...); sort.Ints(b); return b }

func sameSet(a, b []int) bool {
	a, b = sortedCopy(a), sortedCopy(b)
	if len(a) != len(b) {
		return false
	}
	for i := range a {
		if a[i] != b[i] {
			return false
		}
	}
	return true
}

// compare checks one (edge set, order) against the model's expectation.
func compare(r row, order []int) (kind, what string) {
	g, err := build(r.N, r.Deps, order)
	if r.Cyclic {
		if err == nil {
			return "cycle-accepted", fmt.Sprintf("deps=%v order=%v: the dependencies contain a cycle but the pipeline was accepted", r.Deps, order)
		}
		if !errors.Is(err, scheduler.ErrCycleDetected) {
			return "cycle-other-error", fmt.Sprintf("deps=%v order=%v: rejected with %v instead of a cycle error", r.Deps, order, err)
		}
		return "", ""
	}
	if err != nil {
		return "acyclic-rejected", fmt.Sprintf("deps=%v order=%v: acyclic pipeline rejected: %v", r.Deps, order, err)
	}
	for s := 1; s <= r.N; s++ {
		to := idsOf(g.To(name(s)))
		if !sameSet(to, r.Deps[s-1]) || len(to) != len(r.Deps[s-1]) {
			return "edges-differ", fmt.Sprintf("deps=%v order=%v: To(%d)=%v, declared %v", r.Deps, order, s, to, r.Deps[s-1])
		}
		var want []int
		for t := 1; t <= r.N; t++ {
			for _, d := range r.Deps[t-1] {
				if d == s {
					want = append(want, t)
				}
			}
		}
		from := idsOf(g.From(name(s)))
		if !sameSet(from, want) || len(from) != len(want) {
			return "edges-differ", fmt.Sprintf("deps=%v order=%v: From(%d)=%v, expected %v", r.Deps, order, s, from, want)
		}
		if _, err := g.Node(name(s)); err != nil {
			return "node-missing", fmt.Sprintf("deps=%v order=%v: stage %d missing from the graph", r.Deps, order, s)
		}
	}
	if len(g.Nodes()) != r.N {
		return "node-count", fmt.Sprintf("deps=%v order=%v: %d nodes, expected %d", r.Deps, order, len(g.Nodes()), r.N)
	}
	return "", ""
}

// yamlFor writes the pipeline as YAML. Stage i runs a task named after ANOTHER stage (s_{i+1}),
// so stage names and task names collide across stages, as a configuration may; depends_on must
// still be resolved among stage names only.
// variant 1: the stage declared first has no name of its own and runs the task called like it
// (default stage name = task name); variant 2: it has no name and includes a pipeline called like
// it (default stage name = pipeline name). Other stages depend on it by that default name.
func yamlFor(n int, deps [][]int, order []int, variant int) string {
	var b strings.Builder
	b.WriteString("tasks:\n")
	for i := 1; i <= n; i++ {
		fmt.Fprintf(&b, "  %q:\n    command: [\"true\"]\n", name(i))
	}
	b.WriteString("pipelines:\n")
	if variant == 2 {
		fmt.Fprintf(&b, "  %q:\n    - task: %q\n", name(order[0]), name(order[0]))
	}
	b.WriteString("  p:\n")
	for k, i := range order {
		switch {
		case k == 0 && variant == 1:
			fmt.Fprintf(&b, "    - task: %q\n", name(i))
		case k == 0 && variant == 2:
			fmt.Fprintf(&b, "    - pipeline: %q\n", name(i))
		default:
			fmt.Fprintf(&b, "    - name: %q\n      task: %q\n", name(i), name(i%n+1))
		}
		if len(deps[i-1]) > 0 {
			var ds []string
			for _, d := range deps[i-1] {
				ds = append(ds, fmt.Sprintf("%q", name(d)))
			}
			fmt.Fprintf(&b, "      depends_on: [%s]\n", strings.Join(ds, ", "))
		}
	}
	return b.String()
}

var reNode = regexp.MustCompile(`(n\d+)\[label="([^"]+)"\]`)
var reEdge = regexp.MustCompile(`(n\d+)->(n\d+);`)

// Check is the engine behind C05.
func Check(env *core.Env, rep *core.Report) *core.Result {
	thorough := env.Thorough()
	samples := core.NewSamples(10)
	add := func(kind, what string, detail interface{}) {
		rep.Add(core.Finding{Prop: "C05", Key: "C05:" + kind, What: what, Detail: detail})
	}
	var mu sync.Mutex
	modelRuns := []map[string]interface{}{}
	note := func(name string, r *core.TLCResult, what string) {
		mu.Lock()
		modelRuns = append(modelRuns, map[string]interface{}{"config": name, "generated": r.Generated, "distinct": r.Distinct, "wall_s": r.Wall.Seconds(), "result": what})
		mu.Unlock()
	}
	// (a) intended definition == transcription of the repaired detector, whole bounded domain
	var wg sync.WaitGroup
	var rows3, rows4 []row
	run := func(f func()) { wg.Add(1); go func() { defer wg.Done(); f() }() }
	run(func() {
		r := core.MustHold(env, core.TLCOpts{Module: "Graph", Config: "Graph_fixed3.cfg", Workers: 2})
		note("Graph_fixed3", r, "IffFixed, EdgesExact hold for all 512 edge sets x 6 declaration orders")
	})
	run(func() {
		r := core.MustFail(env, core.TLCOpts{Module: "Graph", Config: "Graph_pinned4.cfg", Workers: 2})
		note("Graph_pinned4", r, "negative control: the visited-set-only detector violates "+r.Violated)
	})
	if thorough {
		run(func() {
			r := core.MustHold(env, core.TLCOpts{Module: "Graph", Config: "Graph_fixed4.cfg", Workers: 10, Timeout: 30 * time.Minute, HeapGB: 8})
			note("Graph_fixed4", r, "IffFixed, EdgesExact hold for all 65536 edge sets x 24 declaration orders")
		})
	}
	parse := func(ps []string) []row {
		var out []row
		for _, p := range ps {
			var r row
			if err := json.Unmarshal([]byte(p), &r); err != nil {
				core.Broken("GraphGen row: %v", err)
			}
			out = append(out, r)
		}
		return out
	}
	run(func() {
		r := core.MustHold(env, core.TLCOpts{Module: "GraphGen", Config: "GraphGen_3.cfg", Workers: 1})
		rows3 = parse(r.Tagged("ROW"))
		note("GraphGen_3", r, fmt.Sprintf("%d expectations emitted", len(rows3)))
	})
	run(func() {
		r := core.MustHold(env, core.TLCOpts{Module: "GraphGen", Config: "GraphGen_4.cfg", Workers: 1})
		rows4 = parse(r.Tagged("ROW"))
		note("GraphGen_4", r, fmt.Sprintf("%d expectations emitted", len(rows4)))
	})
	wg.Wait()
	if len(rows3) != 512 || len(rows4) != 65536 {
		core.Broken("GraphGen emitted %d/%d rows, expected 512/65536", len(rows3), len(rows4))
	}

	// (c) model -> code: every edge set in every declaration order
	var calls, cyc int64
	all := append(append([]row{}, rows3...), rows4...)
	p3, p4 := perms(3), perms(4)
	// (twice: with stage names that are ambiguous when joined with ':' and when simply concatenated)
	for _, tbl := range [][]string{nameTablePrefix, nameTableColon} {
		nameTable = tbl
		core.Parallel(len(all), 16, func(i int) {
			r := all[i]
			ps := p4
			if r.N == 3 {
				ps = p3
			}
			for _, o := range ps {
				atomic.AddInt64(&calls, 1)
				if k, w := compare(r, o); k != "" {
					add("api:"+k, w, map[string]interface{}{"n": r.N, "deps": r.Deps, "order": o, "model_cyclic": r.Cyclic, "stage_names": tbl[1:]})
				}
			}
		})
	}
	core.Parallel(len(all), 16, func(i int) {
		r := all[i]
		ps := p4
		if r.N == 3 {
			ps = p3
		}
		if r.Cyclic {
			atomic.AddInt64(&cyc, 1)
		}
		if i%9000 == 17 {
			samples.Add(map[string]interface{}{"kind": "exhaustive", "n": r.N, "deps": r.Deps, "cyclic": r.Cyclic, "orders": len(ps)})
		}
	})

	// (d)+(e) code -> model: random graphs up to 10 stages, validated by TLC as a call/return table
	nRand := 2000
	if thorough {
		nRand = 50000
	}
	rng := env.Rand("graphs")
	type rrow struct {
		N     int     `json:"n"`
		Deps  [][]int `json:"deps"`
		Order []int   `json:"order"`
		Err   bool    `json:"err"`
		To    [][]int `json:"to"`
		From  [][]int `json:"from"`
		other string
	}
	rrows := make([]rrow, nRand)
	for i := range rrows {
		n := 2 + rng.Intn(9)
		dens := []float64{0.05, 0.12, 0.25}[rng.Intn(3)]
		acyclicBias := rng.Intn(2) == 0
		lab := rng.Perm(n)
		deps := make([][]int, n)
		for s := 0; s < n; s++ {
			deps[s] = []int{}
			for d := 0; d < n; d++ {
				if acyclicBias && lab[d] >= lab[s] {
					continue
				}
				if rng.Float64() < dens*2 {
					deps[s] = append(deps[s], d+1)
				}
			}
			rng.Shuffle(len(deps[s]), func(a, b int) { deps[s][a], deps[s][b] = deps[s][b], deps[s][a] })
		}
		order := rng.Perm(n)
		for k := range order {
			order[k]++
		}
		rr := rrow{N: n, Deps: deps, Order: order, To: make([][]int, n), From: make([][]int, n)}
		g, err := build(n, deps, order)
		rr.Err = err != nil
		if err != nil && !errors.Is(err, scheduler.ErrCycleDetected) {
			rr.other = err.Error()
		}
		for s := 1; s <= n; s++ {
			rr.To[s-1], rr.From[s-1] = []int{}, []int{}
			if g != nil {
				rr.To[s-1], rr.From[s-1] = idsOf(g.To(name(s))), idsOf(g.From(name(s)))
			}
		}
		rrows[i] = rr
		if rr.other != "" {
			add("api:cycle-other-error", rr.other, rr)
		}
	}
	var tableStates, tableTrans int64
	modelCyclic := make([]bool, len(rrows))
	badTotal := 0
	badRow := map[int]bool{}
	chunk := 5000
	for off := 0; off < len(rrows); off += chunk {
		end := off + chunk
		if end > len(rrows) {
			end = len(rrows)
		}
		var buf bytes.Buffer
		for _, rr := range rrows[off:end] {
			b, _ := json.Marshal(rr)
			buf.Write(b)
			buf.WriteByte('\n')
		}
		res := core.MustHold(env, core.TLCOpts{Module: "GraphTable", Config: "GraphTable.cfg", Workers: 1, Files: map[string][]byte{"rows.ndjson": buf.Bytes()}, Timeout: 20 * time.Minute})
		tableStates += res.Distinct
		tableTrans += res.Generated
		ps := res.Tagged("BAD")
		if len(ps) == 0 {
			core.Broken("GraphTable printed no verdict")
		}
		var v struct {
			Bad    []int `json:"bad"`
			Cyclic []int `json:"cyclic"`
			Rows   int   `json:"rows"`
		}
		if err := json.Unmarshal([]byte(ps[0]), &v); err != nil || v.Rows != end-off {
			core.Broken("GraphTable verdict unreadable: %v %s", err, ps[0])
		}
		for _, ci := range v.Cyclic {
			modelCyclic[off+ci-1] = true
		}
		for _, bi := range v.Bad {
			rr := rrows[off+bi-1]
			badRow[off+bi-1] = true
			badTotal++
			kind := "acyclic-rejected"
			if !rr.Err {
				kind = "cycle-accepted-or-edges-differ"
			}
			add("table:"+kind, fmt.Sprintf("random graph n=%d deps=%v order=%v: err=%v to=%v from=%v contradicts Graph.tla", rr.N, rr.Deps, rr.Order, rr.Err, rr.To, rr.From), rr)
		}
	}
	if len(rrows) > 0 {
		samples.Add(map[string]interface{}{"kind": "random-row", "row": rrows[0]})
	}
	// binding self-test: a row with the verdict flipped must be flagged by TLC
	// (taken from a row that TLC accepted: flipping a row that is already wrong could make it right)
	selftest := map[string]interface{}{}
	pick := -1
	for i := range rrows {
		if !badRow[i] {
			pick = i
			break
		}
	}
	if pick >= 0 {
		rr := rrows[pick]
		rr.Err = !rr.Err
		b, _ := json.Marshal(rr)
		res := core.MustHold(env, core.TLCOpts{Module: "GraphTable", Config: "GraphTable.cfg", Workers: 1, Files: map[string][]byte{"rows.ndjson": append(b, '\n')}})
		ps := res.Tagged("BAD")
		if len(ps) == 0 || !strings.Contains(ps[0], `"bad":[1]`) {
			core.Broken("binding self-test: a row with a flipped verdict was not flagged by GraphTable.tla: %v", ps)
		}
		selftest["corruption"] = "err flag of the first accepted random row flipped"
		selftest["flagged"] = true
	}

	// through the binary: pipelines written as YAML
	nBin := 200
	if thorough {
		nBin = 5000
	}
	dir := env.Sub("c05bin")
	home := env.Sub("home")
	var binRuns int64
	brng := env.Rand("bin")
	type bcase struct {
		r     row
		order []int
	}
	cases := make([]bcase, nBin)
	for i := range cases {
		var r row
		if i%2 == 0 {
			r = rows4[brng.Intn(len(rows4))]
		} else {
			k := brng.Intn(len(rrows))
			rr := rrows[k]
			r = row{N: rr.N, Deps: rr.Deps, Cyclic: modelCyclic[k]}
		}
		o := brng.Perm(r.N)
		for k := range o {
			o[k]++
		}
		cases[i] = bcase{r, o}
	}
	core.Parallel(nBin, 16, func(i int) {
		c := cases[i]
		f := filepath.Join(dir, fmt.Sprintf("g%d.yaml", i))
		_ = ioutil.WriteFile(f, []byte(yamlFor(c.r.N, c.r.Deps, c.order, i%3)), 0o644)
		res := core.RunBin(dir, core.CleanEnv(home), 20*time.Second, "", env.Taskctl, "-c", f, "graph", "p")
		atomic.AddInt64(&binRuns, 1)
		detail := map[string]interface{}{"yaml": yamlFor(c.r.N, c.r.Deps, c.order, i%3), "stdout": res.Stdout, "stderr": tail(res.Stderr, 400), "exit": res.Exit}
		if res.TimedOut || res.Crashed() {
			add("bin:crash-or-hang", fmt.Sprintf("taskctl graph crashed or hung on deps=%v order=%v", c.r.Deps, c.order), detail)
			return
		}
		if c.r.Cyclic {
			// (that the error is the cycle error is checked at the API, by the error's identity; the
			// wording of the message the binary prints is not fixed by anything)
			if res.Exit == 0 {
				add("bin:cycle-accepted", fmt.Sprintf("taskctl accepted a cyclic pipeline deps=%v order=%v", c.r.Deps, c.order), detail)
			}
			return
		}
		if res.Exit != 0 {
			add("bin:acyclic-rejected", fmt.Sprintf("taskctl rejected an acyclic pipeline deps=%v order=%v", c.r.Deps, c.order), detail)
			return
		}
		lab := map[string]string{}
		for _, m := range reNode.FindAllStringSubmatch(res.Stdout, -1) {
			lab[m[1]] = m[2]
		}
		got := map[string]bool{}
		for _, m := range reEdge.FindAllStringSubmatch(res.Stdout, -1) {
			got[lab[m[1]]+">"+lab[m[2]]] = true
		}
		want := map[string]bool{}
		for s := 1; s <= c.r.N; s++ {
			for _, d := range c.r.Deps[s-1] {
				want[name(d)+">"+name(s)] = true
			}
		}
		if len(got) != len(want) {
			add("bin:edges-differ", fmt.Sprintf("taskctl graph printed edges %v, declared %v", keys(got), keys(want)), detail)
			return
		}
		for k := range want {
			if !got[k] {
				add("bin:edges-differ", fmt.Sprintf("taskctl graph printed edges %v, declared %v", keys(got), keys(want)), detail)
				return
			}
		}
	})

	gen, dist, runs, cmds := core.TLCTotals()
	cov := map[string]interface{}{
		"states": dist, "transitions": gen, "tlc_runs": runs,
		"traces_validated_against_impl": int(calls) + nRand + int(binRuns),
		"api_calls_exhaustive":          calls,
		"random_rows_validated_by_tlc":  nRand,
		"random_rows_flagged":           badTotal,
		"binary_runs":                   binRuns,
		"evaluations":                   int(calls) + nRand + int(binRuns),
		"distinct_nontrivial":           int(cyc) + len(all),
		"rule":                          "every edge set on 3 and 4 stages (self-loops included) emitted by GraphGen.tla with its expected verdict, each fed to NewExecutionGraph in all 6 / 24 declaration orders; random graphs of 2..10 stages in random orders recorded as rows and judged by TLC (GraphTable.tla); a sample written as YAML and given to `taskctl graph`. distinct_nontrivial = edge sets + those of them that are cyclic",
		"model_runs":                    modelRuns,
		"binding_selftest":              selftest,
		"samples":                       samples.List(),
		"checker_cmds":                  cmds,
		"exhaustive":                    true,
	}
	_ = tableStates
	_ = tableTrans
	return &core.Result{Level: "model_checking", Coverage: cov, Assumptions: []string{
		"depends_on entries range over declared stages (dangling names are C18's subject)",
		"TLC trusted; the intended definition (Cyclic) is three lines of TLA+",
	}}
}

func keys(m map[string]bool) []string {
	var k []string
	for s := range m {
		k = append(k, s)
	}
	sort.Strings(k)
	return k
}

func tail(s string, n int) string {
	if len(s) > n {
		return s[len(s)-n:]
	}
	return s
}

var _ = rand.Int
