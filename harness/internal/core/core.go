// Package core holds what every check shares: the run environment, the TLC
// driver, evidence files, known findings and the exit-code policy.
package core

import (
	"context"
	"crypto/sha1"
	"encoding/hex"
	"encoding/json"
	"fmt"
	"io/ioutil"
	"math/rand"
	"os"
	"os/exec"
	"path/filepath"
	"regexp"
	"sort"
	"strconv"
	"strings"
	"sync"
	"time"
)

// Exit statuses (DESIGN.md §9).
const (
	ExitOK        = 0
	ExitViolation = 1
	ExitBroken    = 2
)

// Env describes one invocation of a check.
type Env struct {
	Prop     string
	Tier     string // quick | thorough
	Seed     int64
	VerifDir string // /verif
	RepoDir  string // /repo
	Scratch  string // private scratch directory (removed by ./check)
	Self     string // path of this binary (for worker re-execution)
	Taskctl  string // path of the taskctl binary built from RepoDir with -tags verif
	Start    time.Time
	Replay   string
}

// Thorough reports whether the thorough tier was requested.
func (e *Env) Thorough() bool { return e.Tier == "thorough" }

// Rand returns a deterministic source derived from the seed and a label.
func (e *Env) Rand(label string) *rand.Rand {
	h := sha1.Sum([]byte(fmt.Sprintf("%d/%s", e.Seed, label)))
	var s int64
	for i := 0; i < 8; i++ {
		s = s<<8 | int64(h[i])
	}
	return rand.New(rand.NewSource(s))
}

// Sub creates a fresh sub-directory of the scratch directory.
func (e *Env) Sub(name string) string {
	d, err := ioutil.TempDir(e.Scratch, name+"-")
	if err != nil {
		Broken("scratch: %v", err)
	}
	return d
}

// Broken aborts the check with exit status 2: the machinery, not the code under
// test, failed. Never a verdict.
func Broken(format string, a ...interface{}) {
	fmt.Printf("CHECK-BROKEN: "+format+"\n", a...)
	os.Exit(ExitBroken)
}

// ---------------------------------------------------------------------------
// Findings

// Finding is one observation of the real code that the specification excludes.
type Finding struct {
	Prop   string      `json:"property"`
	Key    string      `json:"key"`  // names the failing input / call site / history class
	What   string      `json:"what"` // human readable
	Detail interface{} `json:"detail,omitempty"`
}

type knownEntry struct {
	Property string `json:"property"`
	Key      string `json:"key"`
	Status   string `json:"status"` // known | fixed
	What     string `json:"what"`
	Commit   string `json:"commit,omitempty"`
}

// Report collects findings of one run.
type Report struct {
	mu       sync.Mutex
	env      *Env
	findings []Finding
	related  []Finding // findings about other properties seen by a shared engine
	known    []knownEntry
}

// NewReport loads KNOWN_FINDINGS.json.
func NewReport(env *Env) *Report {
	r := &Report{env: env}
	b, err := ioutil.ReadFile(filepath.Join(env.VerifDir, "KNOWN_FINDINGS.json"))
	if err == nil {
		var f struct {
			Findings []knownEntry `json:"findings"`
		}
		if err := json.Unmarshal(b, &f); err != nil {
			Broken("KNOWN_FINDINGS.json: %v", err)
		}
		r.known = f.Findings
	}
	return r
}

// Add records a finding. Findings about another property than the one being
// checked are kept as "related" and do not influence the verdict.
func (r *Report) Add(f Finding) {
	r.mu.Lock()
	defer r.mu.Unlock()
	if f.Prop != r.env.Prop {
		if len(r.related) < 50 {
			r.related = append(r.related, f)
		}
		return
	}
	for _, g := range r.findings {
		if g.Key == f.Key {
			return // one finding per key
		}
	}
	r.findings = append(r.findings, f)
}

// Has reports whether a finding with the key was recorded for the checked property.
func (r *Report) Has(key string) bool {
	r.mu.Lock()
	defer r.mu.Unlock()
	for _, f := range r.findings {
		if f.Key == key {
			return true
		}
	}
	return false
}

// Count returns the number of findings for the checked property.
func (r *Report) Count() int {
	r.mu.Lock()
	defer r.mu.Unlock()
	return len(r.findings)
}

// Related returns findings about other properties.
func (r *Report) Related() []Finding {
	r.mu.Lock()
	defer r.mu.Unlock()
	return append([]Finding(nil), r.related...)
}

func (r *Report) isKnown(f Finding) (knownEntry, bool) {
	for _, k := range r.known {
		if k.Status == "known" && k.Property == f.Prop && k.Key == f.Key {
			return k, true
		}
	}
	return knownEntry{}, false
}

// Conclude prints the verdict lines and returns (violations, exit status).
func (r *Report) Conclude() (int, int) {
	r.mu.Lock()
	defer r.mu.Unlock()
	sort.Slice(r.findings, func(i, j int) bool { return r.findings[i].Key < r.findings[j].Key })
	viol := 0
	for _, f := range r.findings {
		if k, ok := r.isKnown(f); ok {
			fmt.Printf("KNOWN-FINDING: property=%s %s [%s]\n", f.Prop, k.What, f.Key)
			continue
		}
		viol++
		dir := filepath.Join(r.env.VerifDir, "replays")
		_ = os.MkdirAll(dir, 0o755)
		h := sha1.Sum([]byte(f.Key))
		p := filepath.Join(dir, fmt.Sprintf("%s-%s.json", f.Prop, hex.EncodeToString(h[:6])))
		b, _ := json.MarshalIndent(map[string]interface{}{
			"property": f.Prop, "key": f.Key, "what": f.What, "detail": f.Detail,
			"seed": r.env.Seed, "tier": r.env.Tier,
		}, "", " ")
		_ = ioutil.WriteFile(p, b, 0o644)
		fmt.Printf("VIOLATION property=%s replay=%s\n", f.Prop, p)
		fmt.Printf("  key=%s\n  what=%s\n", f.Key, f.What)
	}
	if viol > 0 {
		return viol, ExitViolation
	}
	return 0, ExitOK
}

// ---------------------------------------------------------------------------
// Evidence

// Result is what an engine hands back for the evidence file.
type Result struct {
	Level       string
	Coverage    map[string]interface{}
	Assumptions []string
}

// Evidence mirrors EVIDENCE.schema.json.
type Evidence struct {
	PropertyID  string                 `json:"property_id"`
	Tier        string                 `json:"tier"`
	Seed        int64                  `json:"seed"`
	Level       string                 `json:"level"`
	Coverage    map[string]interface{} `json:"coverage"`
	Assumptions []string               `json:"assumptions,omitempty"`
	WallS       float64                `json:"wall_s"`
	Violations  int                    `json:"violations"`
}

// WriteEvidence writes /verif/evidence/<id>.json.
func WriteEvidence(env *Env, level string, cov map[string]interface{}, assumptions []string, violations int) {
	ev := Evidence{
		PropertyID: env.Prop, Tier: env.Tier, Seed: env.Seed, Level: level,
		Coverage: cov, Assumptions: assumptions,
		WallS:      float64(time.Since(env.Start).Milliseconds()) / 1000.0,
		Violations: violations,
	}
	// the schema wants at least one concrete sample: an engine that sampled nothing (every case
	// ended early) still says so explicitly
	if l, ok := cov["samples"].([]interface{}); ok && len(l) == 0 {
		cov["samples"] = []interface{}{map[string]interface{}{"note": "no case reached the point at which samples are recorded in this run"}}
	}
	b, err := json.MarshalIndent(ev, "", " ")
	if err != nil {
		Broken("evidence: %v", err)
	}
	dir := filepath.Join(env.VerifDir, "evidence")
	if filepath.Clean(env.RepoDir) != "/repo" {
		// a trial against another tree (seeded change, behaviour-preserving change): the evidence
		// directory describes /repo itself and is left alone
		dir = filepath.Join(env.VerifDir, "evidence-trials")
	}
	_ = os.MkdirAll(dir, 0o755)
	if err := ioutil.WriteFile(filepath.Join(dir, env.Prop+".json"), append(b, '\n'), 0o644); err != nil {
		Broken("evidence: %v", err)
	}
}

// ---------------------------------------------------------------------------
// TLC

// TLCOpts configures one TLC run.
type TLCOpts struct {
	Module          string // e.g. "Scheduler" (file specs/Scheduler.tla)
	Config          string // e.g. "Scheduler_flat3.cfg"
	Workers         int
	Timeout         time.Duration
	HeapGB          int
	Files           map[string][]byte // extra files placed next to the specs (trace logs, generated cfgs)
	Simulate        string            // e.g. "num=100" (adds -simulate)
	Depth           int
	Seed            int64
	Coverage        bool
	DFS             bool // StateDeque queue (depth-first) for branching trace specs
	ExpectViolation bool
}

// TLCResult is what a TLC run reported.
type TLCResult struct {
	Generated, Distinct int64
	Out                 string
	ExitCode            int
	Violated            string   // name of the violated invariant/property, "" if none
	Printed             []string // payloads of PrintT(<<"TAG", json>>) lines, raw
	Wall                time.Duration
	Dir                 string
}

var tlcMu sync.Mutex
var tlcTotals struct {
	gen, dist int64
	runs      int
	cmds      []string
}

// TLCTotals returns accumulated counts over all TLC runs of this process.
func TLCTotals() (gen, dist int64, runs int, cmds []string) {
	tlcMu.Lock()
	defer tlcMu.Unlock()
	return tlcTotals.gen, tlcTotals.dist, tlcTotals.runs, append([]string(nil), tlcTotals.cmds...)
}

const tlaCP = "/opt/veriftools/tla/tla2tools.jar:/opt/veriftools/tla/CommunityModules-deps.jar"

// RunTLC copies the specs into a private directory and runs TLC there.
// Anything that is not a clean verdict (parse error, timeout, OOM) is exit 2.
func RunTLC(env *Env, o TLCOpts) *TLCResult {
	dir := env.Sub("tlc-" + o.Module)
	specs, _ := filepath.Glob(filepath.Join(env.VerifDir, "specs", "*"))
	for _, s := range specs {
		b, err := ioutil.ReadFile(s)
		if err != nil {
			continue
		}
		_ = ioutil.WriteFile(filepath.Join(dir, filepath.Base(s)), b, 0o644)
	}
	for n, b := range o.Files {
		if err := ioutil.WriteFile(filepath.Join(dir, n), b, 0o644); err != nil {
			Broken("tlc files: %v", err)
		}
	}
	if o.Workers == 0 {
		o.Workers = 8
	}
	if o.Timeout == 0 {
		o.Timeout = 10 * time.Minute
	}
	if o.HeapGB == 0 {
		o.HeapGB = 6
	}
	args := []string{"-XX:+UseParallelGC", "-Xss64m", fmt.Sprintf("-Xmx%dg", o.HeapGB), "-Djava.io.tmpdir=" + dir}
	if o.DFS {
		args = append(args, "-Dtlc2.tool.queue.IStateQueue=StateDeque")
	}
	args = append(args, "-cp", tlaCP, "tlc2.TLC",
		"-workers", strconv.Itoa(o.Workers), "-metadir", filepath.Join(dir, "meta"),
		"-config", o.Config, "-noGenerateSpecTE")
	if o.Simulate != "" {
		args = append(args, "-simulate", o.Simulate)
		if o.Depth > 0 {
			args = append(args, "-depth", strconv.Itoa(o.Depth))
		}
	}
	if o.Seed != 0 {
		args = append(args, "-seed", strconv.FormatInt(o.Seed, 10))
	}
	if o.Coverage {
		args = append(args, "-coverage", "1")
	}
	args = append(args, o.Module+".tla")
	cmd := exec.Command("java", args...)
	cmd.Dir = dir
	start := time.Now()
	done := make(chan struct{})
	var out []byte
	var err error
	go func() { out, err = cmd.CombinedOutput(); close(done) }()
	select {
	case <-done:
	case <-time.After(o.Timeout):
		if cmd.Process != nil {
			_ = cmd.Process.Kill()
		}
		<-done
		Broken("TLC timeout after %s: %s %s", o.Timeout, o.Module, o.Config)
	}
	res := &TLCResult{Out: string(out), Wall: time.Since(start), Dir: dir}
	if cmd.ProcessState != nil {
		res.ExitCode = cmd.ProcessState.ExitCode()
	}
	_ = err
	for _, line := range strings.Split(res.Out, "\n") {
		line = strings.TrimSpace(line)
		if strings.Contains(line, "states generated") && strings.Contains(line, "distinct states found") {
			// "123 states generated, 45 distinct states found, 0 states left on queue."
			f := strings.Fields(line)
			if len(f) >= 5 {
				g, e1 := strconv.ParseInt(strings.ReplaceAll(f[0], ",", ""), 10, 64)
				d, e2 := strconv.ParseInt(strings.ReplaceAll(f[3], ",", ""), 10, 64)
				if e1 == nil && e2 == nil {
					res.Generated, res.Distinct = g, d
				}
			}
		}
		if strings.HasPrefix(line, "Error: Invariant ") && strings.HasSuffix(line, " is violated.") {
			res.Violated = strings.TrimSuffix(strings.TrimPrefix(line, "Error: Invariant "), " is violated.")
		}
		if strings.HasPrefix(line, "Error: Invariant ") && strings.Contains(line, "is violated by the initial state") {
			res.Violated = strings.Fields(strings.TrimPrefix(line, "Error: Invariant "))[0]
		}
		if strings.HasPrefix(line, "Error: Action property ") && strings.HasSuffix(line, " is violated.") {
			res.Violated = strings.TrimSuffix(strings.TrimPrefix(line, "Error: Action property "), " is violated.")
		}
		if strings.HasPrefix(line, "Error: Temporal propert") && strings.Contains(line, "violated") {
			res.Violated = "temporal:" + strings.TrimSpace(strings.TrimSuffix(strings.TrimPrefix(line, "Error: Temporal property"), "was violated."))
		}
		if strings.HasPrefix(line, "Error: Postcondition ") {
			res.Violated = "postcondition"
		}
		if strings.HasPrefix(line, "<<\"") {
			res.Printed = append(res.Printed, line)
		}
	}
	tlcMu.Lock()
	tlcTotals.gen += res.Generated
	tlcTotals.dist += res.Distinct
	tlcTotals.runs++
	tlcTotals.cmds = append(tlcTotals.cmds, fmt.Sprintf("tlc -config %s %s.tla", o.Config, o.Module))
	tlcMu.Unlock()
	ok := res.ExitCode == 0 && res.Violated == ""
	violated := res.Violated != "" || res.ExitCode == 12 || res.ExitCode == 13
	if !ok && !violated {
		tail := res.Out
		if len(tail) > 4000 {
			tail = tail[len(tail)-4000:]
		}
		first := ""
		for _, l := range strings.Split(res.Out, "\n") {
			if strings.HasPrefix(l, "Error:") || strings.Contains(l, "Exception") {
				first += l + "\n"
			}
		}
		Broken("TLC failed (exit %d) on %s %s:\n%s...\n%s", res.ExitCode, o.Module, o.Config, first, tail)
	}
	if violated && res.Violated == "" {
		res.Violated = "unknown"
	}
	return res
}

// MustHold runs TLC and treats a violation on the *model* as a broken check: the
// specification of the current tree is expected to satisfy its properties; a
// violation here is a modelling problem, not an observation of the real code.
func MustHold(env *Env, o TLCOpts) *TLCResult {
	res := RunTLC(env, o)
	if res.Violated != "" {
		tail := res.Out
		if len(tail) > 6000 {
			tail = tail[len(tail)-6000:]
		}
		Broken("model-level violation of %s in %s %s (specification does not satisfy its own property):\n%s", res.Violated, o.Module, o.Config, tail)
	}
	return res
}

// MustFail runs a negative-control configuration: the named property must be
// violated, otherwise the formulation is vacuous and the check is broken.
func MustFail(env *Env, o TLCOpts) *TLCResult {
	res := RunTLC(env, o)
	if res.Violated == "" {
		Broken("negative control %s %s was expected to violate a property but did not (vacuous formulation)", o.Module, o.Config)
	}
	return res
}

// Tagged returns the JSON payloads of lines printed as <<"TAG", "json">>.
func (r *TLCResult) Tagged(tag string) []string {
	var out []string
	prefix := "<<\"" + tag + "\", \""
	for _, l := range r.Printed {
		if !strings.HasPrefix(l, prefix) || !strings.HasSuffix(l, "\">>") {
			continue
		}
		body := l[len(prefix) : len(l)-3]
		out = append(out, unescapeTLA(body))
	}
	return out
}

func unescapeTLA(s string) string {
	var b strings.Builder
	for i := 0; i < len(s); i++ {
		if s[i] == '\\' && i+1 < len(s) {
			i++
			switch s[i] {
			case 'n':
				b.WriteByte('\n')
			case 't':
				b.WriteByte('\t')
			default:
				b.WriteByte(s[i])
			}
			continue
		}
		b.WriteByte(s[i])
	}
	return b.String()
}

// ---------------------------------------------------------------------------
// helpers

// Parallel runs f(i) for i in [0,n) on w workers.
func Parallel(n, w int, f func(i int)) {
	if w < 1 {
		w = 1
	}
	var wg sync.WaitGroup
	ch := make(chan int)
	for k := 0; k < w; k++ {
		wg.Add(1)
		go func() {
			defer wg.Done()
			for i := range ch {
				f(i)
			}
		}()
	}
	for i := 0; i < n; i++ {
		ch <- i
	}
	close(ch)
	wg.Wait()
}

// JSON marshals v compactly (panics on error; inputs are harness data).
func JSON(v interface{}) string {
	b, err := json.Marshal(v)
	if err != nil {
		panic(err)
	}
	return string(b)
}

// Samples keeps up to n samples.
type Samples struct {
	mu sync.Mutex
	n  int
	s  []interface{}
}

// NewSamples creates a bounded sample list.
func NewSamples(n int) *Samples { return &Samples{n: n} }

// Add keeps v if there is room.
func (s *Samples) Add(v interface{}) {
	s.mu.Lock()
	if len(s.s) < s.n {
		s.s = append(s.s, v)
	}
	s.mu.Unlock()
}

// List returns the samples.
func (s *Samples) List() []interface{} {
	s.mu.Lock()
	defer s.mu.Unlock()
	if s.s == nil {
		return []interface{}{}
	}
	return s.s
}

// Distinct counts distinct keys concurrently.
type Distinct struct {
	mu sync.Mutex
	m  map[string]struct{}
}

// NewDistinct creates the counter.
func NewDistinct() *Distinct { return &Distinct{m: map[string]struct{}{}} }

// Add adds a key.
func (d *Distinct) Add(k string) {
	d.mu.Lock()
	d.m[k] = struct{}{}
	d.mu.Unlock()
}

// N returns the number of distinct keys.
func (d *Distinct) N() int {
	d.mu.Lock()
	defer d.mu.Unlock()
	return len(d.m)
}

var reProved = regexp.MustCompile(`All (\d+) obligations? proved`)

// RunTLAPM proves the theorems of a proof module with tlapm in a private copy of the specs and
// returns the number of obligations proved.  A proof that does not go through says nothing about
// the code: it is exit 2, never a violation.
func RunTLAPM(env *Env, module string, timeout time.Duration) int {
	dir := env.Sub("tlapm-" + module)
	specs, _ := filepath.Glob(filepath.Join(env.VerifDir, "specs", "*.tla"))
	for _, s := range specs {
		b, err := ioutil.ReadFile(s)
		if err != nil {
			continue
		}
		_ = ioutil.WriteFile(filepath.Join(dir, filepath.Base(s)), b, 0o644)
	}
	// the back-end provers run under time limits: on a loaded machine an obligation can time out,
	// so the limits are stretched and a failed attempt is repeated with longer ones
	var out []byte
	var err error
	var m [][]byte
	for _, stretch := range []string{"3", "10", "30"} {
		ctx, cancel := context.WithTimeout(context.Background(), timeout)
		cmd := exec.CommandContext(ctx, "tlapm", "--threads", "4", "--stretch", stretch, "--cleanfp", module+".tla")
		cmd.Dir = dir
		out, err = cmd.CombinedOutput()
		cancel()
		m = reProved.FindSubmatch(out)
		if err == nil && m != nil {
			break
		}
	}
	if err != nil || m == nil {
		s := string(out)
		if len(s) > 1500 {
			s = s[len(s)-1500:]
		}
		Broken("tlapm %s: %v\n%s", module, err, s)
	}
	n, _ := strconv.Atoi(string(m[1]))
	tlcMu.Lock()
	tlcTotals.cmds = append(tlcTotals.cmds, "tlapm --threads 4 --stretch 3 --cleanfp "+module+".tla")
	tlcMu.Unlock()
	return n
}
