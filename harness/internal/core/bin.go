package core

import (
	"bytes"
	"os"
	"os/exec"
	"strings"
	"syscall"
	"time"
)

// BinResult is the outcome of one child process.
type BinResult struct {
	Stdout, Stderr string
	Exit           int
	TimedOut       bool
	Signaled       bool
	Wall           time.Duration
}

// Crashed reports a Go crash (panic, fatal runtime error, abnormal death).
func (b *BinResult) Crashed() bool {
	if b.Signaled && !b.TimedOut {
		return true
	}
	for _, m := range []string{"panic:", "fatal error:", "goroutine 1 [", "runtime error:", "SIGSEGV"} {
		if strings.Contains(b.Stderr, m) || strings.Contains(b.Stdout, m) {
			return true
		}
	}
	return b.Exit == 2 && strings.Contains(b.Stderr, "goroutine ")
}

// RunBin runs a program in dir with the given extra environment under a deadline.
// The child gets its own process group, which is killed on timeout.
func RunBin(dir string, extraEnv []string, timeout time.Duration, stdin string, prog string, args ...string) *BinResult {
	cmd := exec.Command(prog, args...)
	cmd.Dir = dir
	for _, kv := range os.Environ() {
		if !strings.HasPrefix(kv, "TASKCTL_") {
			cmd.Env = append(cmd.Env, kv)
		}
	}
	cmd.Env = append(cmd.Env, extraEnv...)
	cmd.SysProcAttr = &syscall.SysProcAttr{Setpgid: true}
	var so, se bytes.Buffer
	cmd.Stdout, cmd.Stderr = &so, &se
	if stdin != "" {
		cmd.Stdin = strings.NewReader(stdin)
	}
	start := time.Now()
	res := &BinResult{}
	if err := cmd.Start(); err != nil {
		res.Exit = -1
		res.Stderr = err.Error()
		return res
	}
	done := make(chan error, 1)
	go func() { done <- cmd.Wait() }()
	select {
	case <-done:
	case <-time.After(timeout):
		res.TimedOut = true
		_ = syscall.Kill(-cmd.Process.Pid, syscall.SIGKILL)
		<-done
	}
	res.Wall = time.Since(start)
	res.Stdout, res.Stderr = so.String(), se.String()
	if ps := cmd.ProcessState; ps != nil {
		res.Exit = ps.ExitCode()
		if ws, ok := ps.Sys().(syscall.WaitStatus); ok && ws.Signaled() {
			res.Signaled = true
		}
	}
	return res
}

// CleanEnv returns an environment for child taskctl processes: a private HOME (no global
// config), no TASKCTL_* variables.
func CleanEnv(home string) []string {
	return []string{"HOME=" + home}
}
