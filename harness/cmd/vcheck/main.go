// vcheck runs the check of one property (see /verif/check).
package main

import (
	"bytes"
	"encoding/json"
	"flag"
	"fmt"
	"io"
	"io/ioutil"
	"os"
	"os/exec"
	"strings"
	"time"

	"verif/harness/internal/cancel"
	"verif/harness/internal/contexts"
	"verif/harness/internal/core"
	"verif/harness/internal/decor"
	"verif/harness/internal/graph"
	"verif/harness/internal/layers"
	"verif/harness/internal/loader"
	"verif/harness/internal/outputs"
	"verif/harness/internal/sched"
	"verif/harness/internal/taskrun"
	"verif/harness/internal/timed"
	"verif/harness/internal/watch"
)

type engine func(env *core.Env, rep *core.Report) *core.Result

var engines = map[string]engine{
	"C01": sched.Check, "C02": sched.Check, "C03": c03, "C04": sched.Check,
	"C05": graph.Check,
	"C06": taskrun.CheckC06, "C07": taskrun.CheckC07,
	"C08": layers.CheckC08, "C09": layers.CheckC09, "C10": layers.CheckC10,
	"C11": outputs.Check,
	"C12": cancel.Check,
	"C14": contexts.Check,
	"C15": loader.CheckC15, "C16": loader.CheckC16, "C17": loader.CheckC17,
	"C19": decor.Check, "C20": watch.Check, "C18": loader.CheckC18,
	"C13": timed.Check,
}

// c03: the scheduler engine plus the cancelled runs with the real TaskRunner (cancel engine).
func c03(env *core.Env, rep *core.Report) *core.Result {
	res := sched.Check(env, rep)
	res2 := cancel.Check(env, rep)
	res.Coverage["cancelled_runs_with_real_taskrunner"] = map[string]interface{}{
		"scenarios_executed": res2.Coverage["scenarios_executed"], "scenarios_in_model": res2.Coverage["scenarios_in_model"],
		"hook_traces_accepted": res2.Coverage["hook_traces_accepted"], "model_runs": res2.Coverage["model_runs"],
	}
	gen, dist, runs, cmds := core.TLCTotals()
	res.Coverage["states"], res.Coverage["transitions"], res.Coverage["tlc_runs"], res.Coverage["checker_cmds"] = dist, gen, runs, cmds
	if n, ok := res2.Coverage["scenarios_executed"].(int); ok {
		if m, ok := res.Coverage["traces_validated_against_impl"].(int); ok {
			res.Coverage["traces_validated_against_impl"] = m + n
		}
	}
	res.Assumptions = append(res.Assumptions, res2.Assumptions...)
	return res
}

func main() {
	if len(os.Args) > 1 && os.Args[1] == "worker" {
		worker(os.Args[2:])
		return
	}
	env := &core.Env{Start: time.Now()}
	flag.StringVar(&env.Prop, "prop", "", "property id")
	flag.StringVar(&env.Tier, "tier", "quick", "quick|thorough")
	flag.Int64Var(&env.Seed, "seed", 1, "seed")
	flag.StringVar(&env.VerifDir, "verif", "/verif", "")
	flag.StringVar(&env.RepoDir, "repo", "/repo", "")
	flag.StringVar(&env.Scratch, "scratch", "", "")
	flag.StringVar(&env.Taskctl, "taskctl", "", "")
	flag.StringVar(&env.Replay, "replay", "", "")
	flag.Parse()
	if env.Tier != "quick" && env.Tier != "thorough" {
		core.Broken("unknown tier %q", env.Tier)
	}
	env.Self, _ = os.Executable()
	if os.Getenv("VERIF_SUPERVISED") == "" {
		supervise(env)
	}
	e, ok := engines[env.Prop]
	if !ok {
		core.Broken("no check for property %q", env.Prop)
	}
	rep := core.NewReport(env)
	res := e(env, rep)
	viol, code := rep.Conclude()
	if rel := rep.Related(); len(rel) > 0 {
		res.Coverage["related_mismatches_other_properties"] = rel
		seen := map[string]bool{}
		for _, f := range rel {
			if !seen[f.Key] {
				seen[f.Key] = true
				fmt.Printf("NOTE: a mismatch attributed to %s was seen (not part of this verdict; run ./check %s): %s\n", f.Prop, f.Prop, f.Key)
			}
		}
	}
	core.WriteEvidence(env, res.Level, res.Coverage, res.Assumptions, viol)
	if env.Replay != "" {
		// a replay re-executes the check that produced the file with its seed and tier and says
		// whether the recorded violation (same key) came back
		var rf struct {
			Key string `json:"key"`
		}
		if b, err := ioutil.ReadFile(env.Replay); err == nil && json.Unmarshal(b, &rf) == nil {
			fmt.Printf("replay of %s: recorded violation %q reproduced: %v\n", env.Replay, rf.Key, rep.Has(rf.Key))
		}
	}
	fmt.Printf("check %s %s seed=%d: exit %d after %.1fs\n", env.Prop, env.Tier, env.Seed, code, time.Since(env.Start).Seconds())
	os.Exit(code)
}

// worker mode: isolated child processes for scenarios that may crash or hang.
func worker(args []string) {
	if len(args) == 0 {
		os.Exit(2)
	}
	if args[0] == "samename" && len(args) > 1 {
		os.Exit(cancel.SameNameWorker(args[1]))
	}
	if args[0] == "cancel" && len(args) > 1 {
		os.Exit(cancel.Worker(args[1]))
	}
	if args[0] == "format-result" {
		os.Exit(decor.FormatResultWorker())
	}
	if args[0] == "spinner-start" {
		os.Exit(decor.SpinnerStartWorker(args[1:]))
	}
	if args[0] == "spinner" {
		os.Exit(decor.SpinnerWorker(args[1:]))
	}
	fmt.Fprintf(os.Stderr, "unknown worker %q\n", args[0])
	os.Exit(2)
}

// supervise: the engines drive the scheduler, the runner and the decorators IN this process; a panic
// of the code under test in one of its own goroutines cannot be recovered and would take the check
// down without a verdict. The check therefore runs in a child process. A child that dies of a Go
// panic / fatal runtime error whose innermost non-runtime frame is taskctl's code is a crash of the
// code under test on an input the unchanged code handles: a violation (the property cannot hold in
// a process that died). A panic in the harness's own frames is a broken check (exit 2).

func supervise(env *core.Env) {
	cmd := exec.Command(env.Self, os.Args[1:]...)
	cmd.Env = append(os.Environ(), "VERIF_SUPERVISED=1")
	cmd.Stdin, cmd.Stdout = os.Stdin, os.Stdout
	var errBuf bytes.Buffer
	cmd.Stderr = io.MultiWriter(os.Stderr, &limited{w: &errBuf, left: 4 << 20})
	err := cmd.Run()
	code := 0
	if err != nil {
		code = 2
		if ee, ok := err.(*exec.ExitError); ok {
			code = ee.ExitCode()
		}
	}
	txt := errBuf.String()
	at := strings.Index(txt, "\npanic: ")
	if at < 0 {
		at = strings.Index(txt, "\nfatal error: ")
	}
	if strings.HasPrefix(txt, "panic: ") || strings.HasPrefix(txt, "fatal error: ") {
		at = 0
	}
	if code == 0 || code == 1 || at < 0 {
		os.Exit(code)
	}
	crash := txt[at:]
	// innermost frame that is neither the runtime's nor the standard library's
	owner, where := "", ""
	seenGoroutine := false
	for _, l := range strings.Split(crash, "\n") {
		if strings.HasPrefix(l, "goroutine ") {
			if seenGoroutine {
				break // only the panicking goroutine (printed first)
			}
			seenGoroutine = true
			continue
		}
		if !seenGoroutine || strings.HasPrefix(l, "\t") || strings.HasPrefix(l, "created by ") {
			continue
		}
		switch {
		case strings.HasPrefix(l, "github.com/taskctl/taskctl/"):
			owner, where = "taskctl", l
		case strings.HasPrefix(l, "verif/harness/") || strings.HasPrefix(l, "main."):
			owner, where = "harness", l
		}
		if owner != "" {
			break
		}
	}
	first := strings.SplitN(strings.TrimSpace(crash), "\n", 2)[0]
	if owner != "taskctl" {
		fmt.Printf("CHECK-BROKEN: the check's process died (%s); innermost frame outside the runtime: %q\n", first, where)
		os.Exit(2)
	}
	rep := core.NewReport(env)
	if len(crash) > 6000 {
		crash = crash[:6000]
	}
	rep.Add(core.Finding{Prop: env.Prop, Key: env.Prop + ":crash:code-under-test-panicked-inside-the-check",
		What:   fmt.Sprintf("taskctl's code panicked while the check was driving it in-process (%s) in %s", first, where),
		Detail: map[string]interface{}{"stderr": crash}})
	viol, _ := rep.Conclude()
	core.WriteEvidence(env, "exploration", map[string]interface{}{
		"evaluations": 1, "distinct_nontrivial": 1,
		"rule":    "the check did not complete: the process in which the engines drive taskctl's scheduler, runner and decorators died of a panic raised in taskctl's own code",
		"samples": []interface{}{map[string]interface{}{"panic": first, "innermost_frame": where}},
	}, []string{"a panic of the code under test inside the check's process is reported as a violation of the property being checked: nothing the property promises holds in a process that died"}, viol)
	fmt.Printf("check %s %s seed=%d: exit 1 after %.1fs\n", env.Prop, env.Tier, env.Seed, time.Since(env.Start).Seconds())
	os.Exit(1)
}

type limited struct {
	w    *bytes.Buffer
	left int // the number of bytes kept: the END of the stream is what matters (a panic is the last thing printed)
}

func (l *limited) Write(p []byte) (int, error) {
	_, _ = l.w.Write(p)
	if l.w.Len() > 2*l.left {
		keep := append([]byte{}, l.w.Bytes()[l.w.Len()-l.left:]...)
		l.w.Reset()
		_, _ = l.w.Write(keep)
	}
	return len(p), nil
}
