#!/bin/bash
# Build the framework from files on disk only (offline) and parse every specification.
set -e
cd "$(dirname "${BASH_SOURCE[0]}")"
export GOFLAGS=-mod=mod GOPROXY=off GOSUMDB=off GOTOOLCHAIN=local
cmp -s /repo/go.sum harness/go.sum || cp /repo/go.sum harness/go.sum
( cd harness && go build -tags verif -o /dev/null ./cmd/vcheck )
( cd /repo && go build -tags verif -o /dev/null ./cmd/taskctl )
T="$(mktemp -d)"; trap 'rm -rf "$T"' EXIT
cp specs/*.tla "$T"/
( cd "$T" && for f in *.tla; do case "$f" in *Proofs.tla) continue;; esac; tla-sany "$f" > "$f.log" 2>&1 || { echo "SANY failed on $f"; tail -20 "$f.log"; exit 1; }; done )
( cd "$T" && for f in *Proofs.tla; do timeout 600 tlapm --threads 4 --stretch 5 "$f" > "$f.log" 2>&1 || { echo "tlapm failed on $f"; tail -20 "$f.log"; exit 1; }; done )
echo setup ok
