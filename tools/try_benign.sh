#!/bin/bash
# try_benign.sh <dir-with-patch.diff> <prop>...   (default: all 20 properties)
# Behaviour-preserving change: base commit of the patch + the patch + the /repo commits made since,
# in a scratch worktree; every listed quick check must exit 0 there.
set -u
D="$1"; shift
BASE="${BASE:-9a93068}"
PROPS="${*:-C01 C02 C03 C04 C05 C06 C07 C08 C09 C10 C11 C12 C13 C14 C15 C16 C17 C18 C19 C20}"
W="$(mktemp -d /tmp/ben-XXXXXX)"; rmdir "$W"
git -C /repo worktree add -q --detach "$W" "$BASE" || exit 2
cd "$W" || exit 2
git apply "$D/${PATCH:-patch.diff}" || { echo "PATCH DOES NOT APPLY"; cd /; git -C /repo worktree remove --force "$W"; exit 2; }
git -c user.name=t -c user.email=t@t commit -qam benign
for c in $(git -C /repo log --reverse --format=%h "$BASE"..main); do
  case " ${SKIP:-} " in *" $c "*) echo "skipping $c"; continue;; esac
  git -c user.name=t -c user.email=t@t cherry-pick "$c" >/dev/null 2>&1 || { echo "CONFLICT cherry-picking $c onto $(basename "$D")"; git cherry-pick --abort; cd /; git -C /repo worktree remove --force "$W"; exit 3; }
done
export GOFLAGS=-mod=mod GOPROXY=off GOSUMDB=off GOTOOLCHAIN=local
go build ./... && go build -tags verif ./... || { echo "BUILD FAILS"; cd /; git -C /repo worktree remove --force "$W"; exit 2; }
for p in $PROPS; do
  out="$(cd "${VERIF_HOME:-/verif}" && VERIF_REPO="$W" VERIF_SEED=${VERIF_SEED:-1} ./check "$p" quick 2>&1)"
  echo "$(basename "$D") $(echo "$out" | grep '^check ' )"
  echo "$out" | grep -E "^VIOLATION|^ *key=|^ *what=|CHECK-BROKEN|^NOTE" | cut -c1-400 | head -12
done
cd /; git -C /repo worktree remove --force "$W"
