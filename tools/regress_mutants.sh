#!/bin/bash
# regress_mutants.sh [id-prefix]: run every seeded mutant against the quick check of the property
# it breaks (in a scratch worktree, /repo untouched) and print detected / MISSED / no-apply.
cd /verif/seeded || exit 2
for d in ${1:-}*/; do
  id="${d%/}"
  prop="$(sed -n 's/.*"breaks_property": *"\([^"]*\)".*/\1/p' "$id/meta.json")"
  out="$(ALT=1 /verif/tools/try_mutant.sh "/verif/seeded/$id/patch.diff" "$prop" 2>&1)"
  if echo "$out" | grep -q "DOES NOT APPLY"; then echo "$id $prop no-apply"
  elif echo "$out" | grep -q "^VIOLATION property=$prop"; then echo "$id $prop detected ($(echo "$out" | grep -c '^VIOLATION') violations)"
  elif echo "$out" | grep -q "CHECK-BROKEN"; then echo "$id $prop BROKEN: $(echo "$out" | grep CHECK-BROKEN | head -1)"
  else echo "$id $prop MISSED"; fi
done
