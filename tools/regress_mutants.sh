#!/bin/bash
# regress_mutants.sh [id-glob]: run every seeded mutant against the quick check of the property
# it breaks (in a scratch worktree, /repo untouched) and print detected (with the finding keys) /
# MISSED / no-apply.  Mutants marked "obsolete" in meta.json are skipped.
cd "${VERIF_HOME:-/verif}/seeded" || exit 2
for d in ${1:-*}/; do
  id="${d%/}"
  [ -f "$id/meta.json" ] || continue
  grep -q '"status": *"obsolete' "$id/meta.json" && { echo "$id obsolete (skipped)"; continue; }
  prop="$(sed -n 's/.*"breaks_property": *"\([^"]*\)".*/\1/p' "$id/meta.json")"
  out="$(ALT=1 "${VERIF_HOME:-/verif}/tools/try_mutant.sh" "${VERIF_HOME:-/verif}/seeded/$id/patch.diff" "$prop" 2>&1)"
  # no "check ..." line: the trial itself did not run (e.g. two concurrent `git worktree add`): once more
  echo "$out" | grep -q "^check \|DOES NOT APPLY" || { sleep 5; out="$(ALT=1 "${VERIF_HOME:-/verif}/tools/try_mutant.sh" "${VERIF_HOME:-/verif}/seeded/$id/patch.diff" "$prop" 2>&1)"; }
  keys="$(echo "$out" | sed -n 's/^ *key=//p' | sort -u | tr '\n' ' ')"
  if echo "$out" | grep -q "DOES NOT APPLY"; then echo "$id $prop no-apply"
  elif echo "$out" | grep -q "^VIOLATION property=$prop"; then echo "$id $prop detected keys: $keys"
  elif echo "$out" | grep -q "CHECK-BROKEN"; then echo "$id $prop BROKEN: $(echo "$out" | grep CHECK-BROKEN | head -1)"
  elif ! echo "$out" | grep -q "^check "; then echo "$id $prop NO-RESULT: $(echo "$out" | tail -1)"
  else echo "$id $prop MISSED"; fi
done
