#!/usr/bin/env python3
"""round_table.py <round> <regress-log> [notes.json]: fill detected_by in seeded/*/meta.json from a
regress_mutants.sh log and print the DESIGN.md table rows of that round."""
import json, os, re, sys
rnd, log = sys.argv[1], sys.argv[2]
notes = json.load(open(sys.argv[3])) if len(sys.argv) > 3 else {}
home = os.path.dirname(os.path.dirname(os.path.abspath(__file__)))
res = {}
for line in open(log):
    m = re.match(r"(\S+) (\S.*?) detected keys: (.*)$", line.strip())
    if m:
        res[m.group(1)] = (m.group(2), m.group(3).split())
    elif " MISSED" in line or "missed" in line:
        print("!! " + line.strip(), file=sys.stderr)
for d in sorted(os.listdir(os.path.join(home, "seeded"))):
    if not re.match(r"C\d\d-R%s\d[ABC]-" % rnd, d):
        continue
    mp = os.path.join(home, "seeded", d, "meta.json")
    meta = json.load(open(mp))
    if d not in res:
        print("!! no result for " + d, file=sys.stderr)
        continue
    props, keys = res[d]
    short = sorted({k.split(":", 1)[1] for k in keys})
    byprop = sorted({k.split(":", 1)[0] for k in keys})
    det = "%s quick: %s" % ("/".join(byprop), ", ".join(short[:4]))
    if d in notes:
        det += " (strengthened: %s)" % notes[d]
    meta["detected_by"] = det
    json.dump(meta, open(mp, "w"), indent=1)
    title = meta.get("title", "")
    title = re.sub(r"^C\d\d\s*[-:–]\s*", "", title)
    print("| %s | %s | %s |" % (d, title[:175], det))
