#!/bin/bash
# try_mutant.sh <patch.diff> <prop> [<prop>...]
# Default: apply to /repo, run the quick checks, undo (git -C /repo checkout -- .).
# With ALT=1: apply to a scratch worktree instead and point the checks at it (VERIF_REPO), so
# that /repo stays untouched (used while long runs are using /repo).
set -u
P="$1"; shift
if [ "${ALT:-0}" = "1" ]; then
  W="$(mktemp -d /tmp/alt-XXXXXX)"; rmdir "$W"
  git -C /repo worktree add -q --detach "$W" HEAD || exit 2
  git -C "$W" apply "$P" || { echo "PATCH DOES NOT APPLY"; git -C /repo worktree remove --force "$W"; exit 1; }
  for prop in "$@"; do
    ( cd "${VERIF_HOME:-/verif}" && VERIF_REPO="$W" VERIF_SEED=${VERIF_SEED:-1} ./check "$prop" ${TIER:-quick} 2>&1 | grep -E "^VIOLATION|^KNOWN|^CHECK-BROKEN|^check |key=" | head -8 )
  done
  git -C /repo worktree remove --force "$W"
  exit 0
fi
cd /repo && git status --short | grep -q . && { echo "/repo not clean"; exit 2; }
git apply "$P" || { echo "PATCH DOES NOT APPLY to /repo"; exit 1; }
for prop in "$@"; do
  ( cd "${VERIF_HOME:-/verif}" && VERIF_SEED=${VERIF_SEED:-1} ./check "$prop" ${TIER:-quick} 2>&1 | grep -E "^VIOLATION|^KNOWN|^CHECK-BROKEN|^check |key=" | head -8 )
done
git -C /repo checkout -q -- . ; git -C /repo clean -fdq -e _mutants >/dev/null 2>&1
git -C /repo status --short
