#!/bin/bash
# try_mutant.sh <patch.diff> <prop> [<prop>...] : apply to /repo, run quick checks, undo.
set -u
P="$1"; shift
cd /repo && git status --short | grep -q . && { echo "/repo not clean"; exit 2; }
git apply "$P" || { echo "PATCH DOES NOT APPLY to /repo"; exit 1; }
for prop in "$@"; do
  ( cd /verif && VERIF_SEED=${VERIF_SEED:-1} ./check "$prop" ${TIER:-quick} 2>&1 | grep -E "^VIOLATION|^KNOWN|^CHECK-BROKEN|^check |key=" | head -8 )
done
git -C /repo checkout -q -- . ; git -C /repo clean -fdq -e _mutants >/dev/null 2>&1
git -C /repo status --short
