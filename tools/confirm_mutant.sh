#!/bin/bash
# confirm_mutant.sh <worktree> <mutant-dir> <pkg-dir-for-demo_test> <run-regexp>
# Confirms: patch applies, builds (with and without -tags verif), repo tests pass with it,
# the demonstration fails with it and passes without it.
set -u
WT="$1"; M="$2"; PKG="$3"; RUN="$4"
export GOFLAGS=-mod=mod GOPROXY=off GOSUMDB=off GOTOOLCHAIN=local
cd "$WT" || exit 2
git checkout -q -- . ; rm -f "$PKG/zz_demo_test.go"
git apply "$M/patch.diff" || { echo "PATCH DOES NOT APPLY"; exit 1; }
go build ./... && go build -tags verif ./... || { echo "BUILD FAILS"; git checkout -q -- .; exit 1; }
if go test -count=1 -timeout 90s ./... > /tmp/confirm_tests.log 2>&1 || go test -count=1 -timeout 90s ./... > /tmp/confirm_tests.log 2>&1; then echo "suite with change: PASS"; else echo "suite with change: FAIL"; tail -20 /tmp/confirm_tests.log; fi
cp "$M/demo_test.go" "$PKG/zz_demo_test.go"
if go test -count=1 -timeout 120s -run "$RUN" "./$PKG" > /tmp/confirm_demo1.log 2>&1; then echo "demo with change: PASS (unexpected)"; else echo "demo with change: FAIL (expected)"; fi
git checkout -q -- .
if go test -count=1 -timeout 120s -run "$RUN" "./$PKG" > /tmp/confirm_demo2.log 2>&1; then echo "demo without change: PASS (expected)"; else echo "demo without change: FAIL (unexpected)"; tail -20 /tmp/confirm_demo2.log; fi
rm -f "$PKG/zz_demo_test.go"
git status --short | grep -v _mutants
