#!/usr/bin/env python3
"""save_mutant.py <id> <property> <mutant-dir> <demo-placement> <needs> <detected-by>"""
import sys, os, shutil, json
mid, prop, src, place, needs, det = sys.argv[1:7]
dst=f"/verif/seeded/{mid}"
os.makedirs(dst, exist_ok=True)
for f in os.listdir(src):
    if os.path.isfile(os.path.join(src,f)) and os.path.getsize(os.path.join(src,f)) < 200000:
        shutil.copy(os.path.join(src,f), os.path.join(dst,f))
meta={"id":mid,"breaks_property":prop,"needs_to_manifest":needs,
 "demonstration":place,
 "confirmed":"tools/confirm_mutant.sh in a scratch worktree: patch applies; builds with and without -tags verif; repository test suite passes with the change; demonstration fails with the change and passes without it",
 "checks_run":"tools/try_mutant.sh (git -C /repo apply; ./check <prop> quick; git -C /repo checkout -- .)",
 "detected_by":det}
json.dump(meta,open(os.path.join(dst,"meta.json"),"w"),indent=1)
print("saved",dst)
